/-
  Adsg.Model.Enc — the generic manager layer above the connection encoders.
  Model of: optimization/assign_enc/encoding.py EagerEncoder.get_matrix / correct_vector_size /
  correct_vector_bounds / get_matrix_index / _filter_full_design_vector / padded_design_vectors,
  assignment_manager.py AssignmentManagerBase._correct_is_active.

  The encoder-specific `_encode` algorithms are *table producers*: a `Table` is what they produced for
  one existence pattern (design vector with −1 = inactive, matrix). *Which* row an imputer picks for a
  vector without direct hit is a parameter `imp` constrained only by "returns a row index of the
  table"; every theorem holds for every such imputer.
-/
import Adsg.Model.Conn
namespace Adsg

/-- One existence pattern's table: rows of (design vector with −1 marks, matrix). -/
abbrev Table := List (List Int × Matrix)

/-- `correct_vector_size` + `correct_vector_bounds`: truncate to the declared variables, clamp each
    value into `[0, nOpts)`. -/
def clampVec : List Nat → List Int → List Int
  | [], _ => []
  | _ :: _, [] => []                     -- too short vectors are rejected by the code (IndexError); excluded by hypothesis
  | n :: ns, x :: xs =>
    (if x < 0 then 0 else if x ≥ (n : Int) then (n : Int) - 1 else x) :: clampVec ns xs

def zeroImp (dv : List Int) : List Int := dv.map (fun v => if v < 0 then 0 else v)

def padTo (n : Nat) (dv : List Int) : List Int := dv ++ List.replicate (n - dv.length) (-1)

/-- Number of design variables the pattern itself uses (width of its table rows). -/
def Table.width (t : Table) : Nat := match t with | [] => 0 | r :: _ => r.1.length

/-- Index of the row whose zero-imputed design vector equals the first `width` entries of `v`
    (`_filter_full_design_vector`; with zero variables a hit needs exactly one matrix). -/
def Table.hit (t : Table) (v : List Int) : Option Nat :=
  if t.width = 0 then (if t.length = 1 then some 0 else none)
  else
    let key := v.take t.width
    (List.range t.length).find? (fun i => match t[i]? with
      | some r => zeroImp r.1 == key
      | none => false)

/-- `EagerEncoder.get_matrix` **as the repair would make it** (reference semantics): the *stored*
    design vector of the hit row is returned, so inactive positions are marked −1 on every path. The
    code as it is today is `eagerGetImpl` below; they differ only in the −1 marks on a direct hit.
    `t = none`: the pattern is unknown to the encoder (all inactive, no matrix).
    Returns the design vector with −1 marks (length = length of the input) and the row index. -/
def eagerGet (t : Option Table) (nOpts : List Nat) (imp : List Int → Nat) (x : List Int) :
    List Int × Option Nat :=
  let nDv := nOpts.length
  let extra := List.replicate (x.length - nDv) (-1 : Int)
  let v := clampVec nOpts x
  match t with
  | none => (List.replicate v.length (-1) ++ extra, none)
  | some t =>
    match t.hit v with
    | some i => (padTo v.length ((t.getD i ([], [])).1) ++ extra, some i)
    | none =>
      if t.isEmpty then (List.replicate v.length (-1) ++ extra, none)
      else
        let i := imp v
        (padTo v.length ((t.getD i ([], [])).1) ++ extra, some i)

/-- `_correct_is_active`: −1 ↦ (0, inactive). -/
def correctIsActive (dv : List Int) : List Int × List Bool :=
  (dv.map (fun v => if v = -1 then 0 else v), dv.map (fun v => v != -1))

/-- `AssignmentManager.get_matrix`: corrected vector, activeness, matrix. -/
def managerGet (t : Option Table) (nOpts : List Nat) (imp : List Int → Nat) (x : List Int) :
    List Int × List Bool × Option Matrix :=
  let (dv, i) := eagerGet t nOpts imp x
  let (v, act) := correctIsActive dv
  (v, act, match t, i with
    | some t, some i => (t[i]?).map (·.2)
    | _, _ => none)

/-- `EagerEncoder.get_matrix` **as implemented**: on a direct hit the (clamped) *input* vector is
    returned and only the positions beyond the pattern's own variables are marked −1
    (`_correct_vector`); variables that the stored design vector marks inactive therefore come back
    as value 0 / active (known finding KF-C10-eager-direct-hit-activeness). -/
def eagerGetImpl (t : Option Table) (nOpts : List Nat) (imp : List Int → Nat) (x : List Int) :
    List Int × Option Nat :=
  let nDv := nOpts.length
  let extra := List.replicate (x.length - nDv) (-1 : Int)
  let v := clampVec nOpts x
  match t with
  | none => (List.replicate v.length (-1) ++ extra, none)
  | some t =>
    match t.hit v with
    | some i => (v.take t.width ++ List.replicate (v.length - t.width) (-1) ++ extra, some i)
    | none =>
      if t.isEmpty then (List.replicate v.length (-1) ++ extra, none)
      else
        let i := imp v
        (padTo v.length ((t.getD i ([], [])).1) ++ extra, some i)

/-- `AssignmentManager.get_matrix` as implemented. -/
def managerGetImpl (t : Option Table) (nOpts : List Nat) (imp : List Int → Nat) (x : List Int) :
    List Int × List Bool × Option Matrix :=
  let (dv, i) := eagerGetImpl t nOpts imp x
  let (v, act) := correctIsActive dv
  (v, act, match t, i with
    | some t, some i => (t[i]?).map (·.2)
    | _, _ => none)

/-- `padded_design_vectors` of one pattern. -/
def allDesignVectors (t : Table) (nOpts : List Nat) : List (List Int) :=
  t.map (fun r => padTo nOpts.length r.1)

/-- Decidable well-formedness of a table w.r.t. the declared variables — what
    `EagerEncoder.get_design_variables` checks plus what the property needs; evaluated by the driver
    on the tables extracted from the real encoders. -/
def Table.WF (t : Table) (nOpts : List Nat) : Bool :=
  -- rows of one pattern have equal width, not wider than the declared variables
  t.all (fun r => r.1.length == t.width) && decide (t.width ≤ nOpts.length) &&
  -- active values are in range, inactive marked −1
  t.all (fun r => (r.1.zip nOpts).all (fun p => p.1 == -1 || (decide (0 ≤ p.1) && decide (p.1 < (p.2 : Int))))) &&
  -- zero-imputed design vectors pairwise distinct
  pairwiseDistinct (t.map (fun r => zeroImp r.1)) &&
  -- matrices pairwise distinct
  pairwiseDistinct (t.map (·.2))
where
  pairwiseDistinct {α} [BEq α] : List α → Bool
    | [] => true
    | x :: xs => !xs.contains x && pairwiseDistinct xs

/-- Every declared variable takes at least two values over all patterns. -/
def twoValuesEach (ts : List Table) (nOpts : List Nat) : Bool :=
  (List.range nOpts.length).all (fun i =>
    let vals := (ts.flatMap (fun t => t.filterMap (fun r => r.1[i]?))).filter (· != -1)
    match vals with
    | [] => false
    | v :: rest => rest.any (· != v))

end Adsg
