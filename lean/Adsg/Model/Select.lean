/-
  Adsg.Model.Select — the decision logic of automatic encoder selection.
  Model of: EncoderSelector._get_best and the staged flow of _get_best_assignment_manager
  (optimization/assign_enc/selector.py:90-262, 292-349). Scores are abstract ordered numbers
  (imputation ratio and information index scaled to naturals, distance correlation an optional
  integer, `none` = NaN); how they are computed (floats, sampling) is outside the model.
-/
namespace Adsg

structure Score where
  impRatio : Nat            -- scaled; `one` below is the scaled value of 1.0
  infIdx   : Nat
  distCorr : Option Int     -- none = NaN
deriving Repr, DecidableEq, Inhabited

structure SelParams where
  one : Nat                 -- scaled 1.0
  limits : List Nat         -- imputation_ratio_limits (scaled)
  minCorr : Int             -- min_distance_correlation (scaled); half of it is minCorr / 2
deriving Repr, Inhabited

abbrev Row := Nat × Score   -- (index into the manager list, score)

def corrGE (byInf : Bool) (r : Row) (thr : Int) : Bool :=
  if byInf then decide (thr ≤ (r.2.infIdx : Int))
  else match r.2.distCorr with | some c => decide (thr ≤ c) | none => false
def corrGT0 (byInf : Bool) (r : Row) : Bool :=
  if byInf then decide (0 < r.2.infIdx)
  else match r.2.distCorr with | some c => decide (0 < c) | none => false

/-- `df_imp_bands`: rows with ratio exactly 1, rows within each limit, all rows. -/
def bands (p : SelParams) (rows : List Row) : List (List Row) :=
  [rows.filter (fun r => r.2.impRatio == p.one)] ++
  p.limits.map (fun l => rows.filter (fun r => decide (r.2.impRatio ≤ l))) ++ [rows]

/-- `df_priority`: the ordered priority areas. -/
def areas (p : SelParams) (byInf : Bool) (rows : List Row) : List (List Row) :=
  let b := bands p rows
  let b0 := b.getD 0 []
  let b1 := b.getD 1 []
  let head :=
    if byInf then
      [b0.filter (corrGE byInf · p.minCorr), b1.filter (corrGE byInf · p.minCorr),
       b0.filter (corrGE byInf · (p.minCorr / 2)), b1.filter (corrGE byInf · (p.minCorr / 2)),
       b0.filter (corrGT0 byInf), b1.filter (corrGT0 byInf), b0, b1]
    else
      [b0.filter (corrGE byInf · p.minCorr), b1.filter (corrGE byInf · p.minCorr),
       b0.filter (corrGE byInf · (p.minCorr / 2)), b1.filter (corrGE byInf · (p.minCorr / 2)),
       b1.filter (corrGE byInf · 0)]
  head ++ (b.drop 2).flatMap (fun bi =>
    [bi.filter (corrGE byInf · p.minCorr), bi.filter (corrGE byInf · (p.minCorr / 2)),
     bi.filter (corrGT0 byInf), bi])

def argBest {α} (better : α → α → Bool) : List α → Option α
  | [] => none
  | x :: xs => match argBest better xs with
    | none => some x
    | some y => if better y x then some y else some x

/-- `_return_best_within_priority_area`. -/
def bestWithin (byInf : Bool) (area : List Row) : Option Nat :=
  if byInf then
    -- minimum imputation ratio, then maximum information index
    match argBest (fun a b => decide (a.2.impRatio < b.2.impRatio)) area with
    | none => none
    | some m =>
      (argBest (fun a b => decide (a.2.infIdx > b.2.infIdx))
        (area.filter (fun r => r.2.impRatio == m.2.impRatio))).map (·.1)
  else
    -- maximum distance correlation (NaN if all NaN → no result), then minimum imputation ratio
    let withCorr := area.filter (fun r => r.2.distCorr.isSome)
    match argBest (fun a b => decide (a.2.distCorr.getD 0 > b.2.distCorr.getD 0)) withCorr with
    | none => none
    | some m =>
      (argBest (fun a b => decide (a.2.impRatio < b.2.impRatio))
        (withCorr.filter (fun r => r.2.distCorr == m.2.distCorr))).map (·.1)

/-- The loop over the priority areas with optional priority limit. -/
def firstArea (byInf : Bool) (nPriority : Option Nat) : Nat → List (List Row) → Option Nat
  | _, [] => none
  | i, a :: rest =>
    if (match nPriority with | some n => decide (n ≤ i) | none => false) then none
    else if a.isEmpty then firstArea byInf nPriority (i + 1) rest
    else bestWithin byInf a

/-- `_get_best(df_scores, n_priority, by_inf_idx)`; `none` = the Python `None`. -/
def getBest (p : SelParams) (scores : List Score) (byInf : Bool) (nPriority : Option Nat) : Option Nat :=
  if scores.isEmpty then none
  else firstArea byInf nPriority 0 (areas p byInf (List.zipIdx scores |>.map (fun x => (x.2, x.1))))

/-- The staged flow after the candidate managers have been created: each stage looks at a (growing)
    score table; the last stage is "by information index, no priority limit" over everything. -/
def selectStaged (p : SelParams) (stages : List (List Score × Bool × Option Nat)) (final : List Score) :
    Option Nat :=
  match stages with
  | [] => getBest p final true none
  | (sc, byInf, np) :: rest =>
    match getBest p sc byInf np with
    | some i => some i
    | none => selectStaged p rest final

end Adsg
