/-
  Adsg.Model.Traversal — function-level specifications of graph/traversal.py:
  `get_confirmed_edges_for_node` (the edges confirmed by a node: everything reachable from it without
  passing a choice) and `traverse_until_choice_nodes` (confirmed nodes and the choices they activate).
  Both are instances of the closure semantics with no choice taken.
-/
import Adsg.Model.Graph
namespace Adsg

/-- The graph seen from `vs`: same derivations and choices, start nodes `vs`. -/
def DSG.from (g : DSG) (vs : List Node) : DSG := { g with start := vs }

/-- Nodes confirmed by `vs` when no choice is taken (`traverse_until_choice_nodes`, first component). -/
def confirmedFrom (g : DSG) (vs : List Node) : List Node := closure (g.from vs) []

/-- Choices activated by `vs` (`traverse_until_choice_nodes`, second component). -/
def choicesFrom (g : DSG) (vs : List Node) : List Nat := activeChoices (g.from vs) []

/-- `get_confirmed_edges_for_node`: the derivation edges whose source is confirmed by `v`. -/
def confirmedEdges (g : DSG) (v : Node) : List (Node × Node) :=
  g.derives.filter (fun e => (confirmedFrom g [v]).contains e.1)

end Adsg

namespace Adsg

/-- Every edge along which existence can ever be derived: derivation edges plus origin → option
    for every option of every choice. -/
def DSG.allEdges (g : DSG) : List (Node × Node) :=
  g.derives ++ g.sel.flatMap (fun c => c.opts.map (fun o => (c.origin, o)))

/-- Nodes that can be derived from the start nodes in *some* way (`set_start_nodes` keeps exactly these). -/
def derivable (g : DSG) : List Node :=
  closure { n := g.n, derives := g.allEdges, sel := [], start := g.start, incompat := [] } []

/-- `BasicDSG.set_start_nodes`: "nodes that cannot be derived from any of the starting nodes are
    removed from the graph" - edges, choices, options, incompatibilities and constraints restricted to
    the derivable nodes (node ids are kept). -/
def pruneStart (g : DSG) : DSG :=
  let R := derivable g
  { g with
    derives := g.derives.filter (fun e => R.contains e.1 && R.contains e.2),
    sel := g.sel.map (fun c => if R.contains c.origin then c else { c with opts := [] }),
    incompat := g.incompat.filter (fun e => R.contains e.1 && R.contains e.2) }

end Adsg
