/-
  Adsg.Model.Cache — the on-disk caches as a key → value store, and the structured cache key.
  Model of: MatrixGenSettings.get_cache_key (optimization/assign_enc/matrix.py:414-424),
  AggregateAssignmentMatrixGenerator.get_agg_matrix(cache=True) / _load_from_cache / _write_to_cache /
  reset_agg_matrix_cache, EncoderSelector.get_best_assignment_manager / reset_cache
  (selector.py:43-67).  The md5 / hash() digests of the real key are treated as injective on the
  structured tuple modelled here (trusted base).
-/
import Adsg.Model.Conn
namespace Adsg

/-- Settings as the cache sees them: connector settings plus the ordered list of existence patterns. -/
structure FullSettings where
  s : ConnSettings
  pats : List Existence
deriving Repr, Inhabited

def leLex (a b : Nat × Nat) : Bool := a.1 < b.1 || (a.1 == b.1 && a.2 ≤ b.2)
def insertPair (x : Nat × Nat) : List (Nat × Nat) → List (Nat × Nat)
  | [] => [x]
  | y :: ys => if leLex x y then x :: y :: ys else y :: insertPair x ys
def sortPairs (l : List (Nat × Nat)) : List (Nat × Nat) := l.foldr insertPair []

/-- The structured tuple that `get_cache_key` serialises: node reprs, sorted excluded index pairs,
    pattern digests in order, parallel limit (the version string is a constant). -/
structure CacheKey where
  src : List CNode
  tgt : List CNode
  excluded : List (Nat × Nat)
  pats : List Existence
  parallel : Option Nat
deriving Repr, DecidableEq

def keyOf (f : FullSettings) : CacheKey :=
  { src := f.s.src, tgt := f.s.tgt, excluded := sortPairs f.s.excluded, pats := f.pats, parallel := f.s.parallel }

/-- The store: association list, most recent first. -/
abbrev Store (K V : Type) := List (K × V)

def Store.get? {K V} [BEq K] (st : Store K V) (k : K) : Option V := (st.find? (fun p => p.1 == k)).map (·.2)

/-- One cached lookup: return the stored value if the key is present, else compute, store, return. -/
def cachedGet {S K V} [BEq K] (keyOf : S → K) (compute : S → V) (st : Store K V) (s : S) : V × Store K V :=
  match st.get? (keyOf s) with
  | some v => (v, st)
  | none => (compute s, (keyOf s, compute s) :: st)

inductive CacheOp (S : Type)
  | get (s : S)        -- get(cache=True)
  | reset (s : S)      -- reset_cache / reset_agg_matrix_cache for these settings
  | fresh (s : S)      -- get(cache=False): computes and (re)writes the entry

/-- Run a history of cache operations; returns the values handed out by `get`/`fresh` (in order). -/
def runCache {S K V} [BEq K] (keyOf : S → K) (compute : S → V) :
    List (CacheOp S) → Store K V → List V × Store K V
  | [], st => ([], st)
  | .get s :: ops, st =>
    let (v, st') := cachedGet keyOf compute st s
    let (vs, st'') := runCache keyOf compute ops st'
    (v :: vs, st'')
  | .reset s :: ops, st => runCache keyOf compute ops (st.filter (fun p => !(p.1 == keyOf s)))
  | .fresh s :: ops, st =>
    let (vs, st'') := runCache keyOf compute ops ((keyOf s, compute s) :: st)
    (compute s :: vs, st'')

/-- The values a history *should* hand out: the freshly computed ones. -/
def specOutputs {S V} (compute : S → V) : List (CacheOp S) → List V
  | [] => []
  | .get s :: ops => compute s :: specOutputs compute ops
  | .reset _ :: ops => specOutputs compute ops
  | .fresh s :: ops => compute s :: specOutputs compute ops

end Adsg
