/-
  Adsg.Model.Conn — connection sets: which integer matrices are valid for a source/target connector
  specification under a node-existence pattern (spec), and the library's enumeration / counting
  algorithm (operational).

  Model of: optimization/assign_enc/matrix.py — Node, NodeExistence.get_effective_settings,
  MatrixGenSettings.get_max_conn_parallel / get_max_conn_matrix, AggregateAssignmentMatrixGenerator
  (iter_sources / iter_targets / _iter_conn_slots, _get_matrices, count_src_to_target, count_matrices,
  validate_matrix).  Matrices are lists of rows.
-/
namespace Adsg

abbrev Matrix := List (List Nat)

/-- Allowed numbers of connections of a connector: an explicit list or an open-ended minimum. -/
inductive Deg
  | list (ds : List Nat)
  | atLeast (m : Nat)
deriving Repr, DecidableEq, Inhabited

def Deg.allows : Deg → Nat → Bool
  | .list ds, d => ds.contains d
  | .atLeast m, d => decide (m ≤ d)

structure CNode where
  deg : Deg
  rep : Bool            -- repeated (parallel) connections allowed
deriving Repr, DecidableEq, Inhabited

structure ConnSettings where
  src : List CNode
  tgt : List CNode
  excluded : List (Nat × Nat) := []
  parallel : Option Nat := none       -- explicit max_conn_parallel
deriving Repr, Inhabited

/-- Existence pattern: per node an optional override of the allowed degrees (`some [0]` = absent). -/
structure Existence where
  srcOv : List (Option (List Nat)) := []
  tgtOv : List (Option (List Nat)) := []
deriving Repr, DecidableEq, Inhabited

/-- Effective degree specification of node `i` under an override list. -/
def effDeg (nodes : List CNode) (ov : List (Option (List Nat))) (i : Nat) : Deg :=
  match (ov[i]?).join with
  | some ds => .list ds
  | none => ((nodes[i]?).map (·.deg)).getD (.list [])

/-- A node takes part in the pattern unless its effective degrees are `[]` or `[0]`. -/
def Deg.isActive : Deg → Bool
  | .list ds => !(ds.isEmpty || ds == [0])
  | .atLeast _ => true

def Deg.finiteMax : Deg → Option Nat
  | .list ds => some (ds.foldl max 0)
  | .atLeast _ => none

def effDegs (nodes : List CNode) (ov : List (Option (List Nat))) : List Deg :=
  (List.range nodes.length).map (effDeg nodes ov)

/-- `get_max_conn_parallel` on the effective nodes: explicit limit (at least 1), otherwise
    max(2, largest finite degree among the active nodes). -/
def parLimit (s : ConnSettings) (e : Existence) : Nat :=
  match s.parallel with
  | some p => max 1 p
  | none =>
    let ds := ((effDegs s.src e.srcOv) ++ (effDegs s.tgt e.tgtOv)).filter (·.isActive)
    (ds.filterMap (·.finiteMax)).foldl max 2

def repOf (nodes : List CNode) (i : Nat) : Bool := ((nodes[i]?).map (·.rep)).getD false

/-- Per-pair limit (`get_max_conn_matrix` of the effective settings, expanded). -/
def maxCell (s : ConnSettings) (e : Existence) (i j : Nat) : Nat :=
  let ds := effDeg s.src e.srcOv i
  let dt := effDeg s.tgt e.tgtOv j
  if !ds.isActive || !dt.isActive || s.excluded.contains (i, j) then 0 else
  let m0 := parLimit s e
  let m1 := match ds.finiteMax with | some m => min m0 m | none => m0
  let m2 := match dt.finiteMax with | some m => min m1 m | none => m1
  if repOf s.src i && repOf s.tgt j then m2 else min m2 1

def maxMat (s : ConnSettings) (e : Existence) : Matrix :=
  (List.range s.src.length).map (fun i => (List.range s.tgt.length).map (fun j => maxCell s e i j))

def rowSums (M : Matrix) : List Nat := M.map List.sum
def colSum (M : Matrix) (j : Nat) : Nat := (M.map (fun r => r.getD j 0)).sum
def colSums (nt : Nat) (M : Matrix) : List Nat := (List.range nt).map (colSum M)

/-- pointwise `≤` with equal shapes -/
def leMat : Matrix → Matrix → Bool
  | [], [] => true
  | r :: rs, m :: ms => (r.length == m.length && (r.zip m).all (fun p => decide (p.1 ≤ p.2))) && leMat rs ms
  | _, _ => false

/-- **The specification of a valid connection set** (C09): an `ns × nt` matrix within the per-pair
    limits whose row and column sums are allowed degrees of the effective nodes. -/
def validMatrix (s : ConnSettings) (e : Existence) (M : Matrix) : Bool :=
  leMat M (maxMat s e) &&
  (List.range s.src.length).all (fun i => (effDeg s.src e.srcOv i).allows ((M.getD i []).sum)) &&
  (List.range s.tgt.length).all (fun j => (effDeg s.tgt e.tgtOv j).allows (colSum M j))

/-- all vectors below pointwise caps -/
def boxVecs : List Nat → List (List Nat)
  | [] => [[]]
  | c :: cs => (List.range (c + 1)).flatMap (fun k => (boxVecs cs).map (k :: ·))

def boxMats : Matrix → List Matrix
  | [] => [[]]
  | r :: rs => (boxVecs r).flatMap (fun v => (boxMats rs).map (v :: ·))

/-- Reference enumeration: every matrix below the per-pair limits, filtered by validity. -/
def enumSpec (s : ConnSettings) (e : Existence) : List Matrix :=
  (boxMats (maxMat s e)).filter (validMatrix s e)

/-! ### The library's algorithm -/

/-- `count_src_to_target(n, caps)`: all ways to write `n` as a sum of parts bounded by `caps`. -/
def boundedComp : Nat → List Nat → List (List Nat)
  | n, [] => if n = 0 then [[]] else []
  | n, c :: cs => (List.range (min n c + 1)).flatMap (fun k => (boundedComp (n - k) cs).map (k :: ·))

def heads (mx : Matrix) : List Nat := mx.map (fun r => r.headD 0)
def tails (mx : Matrix) : Matrix := mx.map List.tail
def subVec (a b : List Nat) : List Nat := List.zipWith (· - ·) a b
def minVec (a b : List Nat) : List Nat := List.zipWith min a b
def consCol (col : List Nat) (M : Matrix) : Matrix := List.zipWith (· :: ·) col M

/-- `_get_matrices(n_src_conn, n_tgt_conn, max_conn_mat)`: column-wise recursion. With a single
    column left the compositions are returned as they are (the code relies on Σ r = Σ c). -/
def colRec : List Nat → List Nat → Matrix → List Matrix
  | r, [], _ => [r.map (fun _ => [])]
  | r, [c0], mx => (boundedComp c0 (minVec r (heads mx))).map (fun col => col.map ([·]))
  | r, c0 :: c1 :: cs, mx =>
    (boundedComp c0 (minVec r (heads mx))).flatMap (fun col =>
      (colRec (subVec r col) (c1 :: cs) (tails mx)).map (consCol col))

/-- Counting recursion (`create_matrices=False`). -/
def colCount : List Nat → List Nat → Matrix → Nat
  | _, [], _ => 1
  | r, [c0], mx => (boundedComp c0 (minVec r (heads mx))).length
  | r, c0 :: c1 :: cs, mx =>
    ((boundedComp c0 (minVec r (heads mx))).map (fun col =>
      colCount (subVec r col) (c1 :: cs) (tails mx))).sum

/-- `get_node_conns(node, max_conn)` / override: allowed degrees of one node, capped. -/
def degChoices (d : Deg) (overridden : Bool) (cap : Nat) : List Nat :=
  match d with
  | .list ds => if overridden then ds else ds.filter (· ≤ cap)
  | .atLeast m => (List.range (cap + 1)).filter (m ≤ ·)

def isOv (ov : List (Option (List Nat))) (i : Nat) : Bool := ((ov[i]?).join).isSome

def prodLists : List (List Nat) → List (List Nat)
  | [] => [[]]
  | l :: ls => l.flatMap (fun x => (prodLists ls).map (x :: ·))

/-- `iter_sources`: all tuples of allowed source degrees (capped by the row sums of the limits). -/
def srcTuples (s : ConnSettings) (e : Existence) : List (List Nat) :=
  let mx := maxMat s e
  prodLists ((List.range s.src.length).map (fun i =>
    degChoices (effDeg s.src e.srcOv i) (isOv e.srcOv i) ((mx.getD i []).sum)))

/-- `iter_targets(n)`: compositions of `n` bounded by each target's largest choice, filtered to the
    allowed degrees. -/
def tgtTuples (s : ConnSettings) (e : Existence) (n : Nat) : List (List Nat) :=
  let mx := maxMat s e
  let ch := (List.range s.tgt.length).map (fun j =>
    degChoices (effDeg s.tgt e.tgtOv j) (isOv e.tgtOv j) (colSum mx j))
  (boundedComp n (ch.map (fun l => l.foldl max 0))).filter (fun t =>
    (t.zip ch).all (fun p => p.2.contains p.1))

/-- `iter_n_sources_targets` for one pattern. -/
def degTuples (s : ConnSettings) (e : Existence) : List (List Nat × List Nat) :=
  (srcTuples s e).flatMap (fun r => (tgtTuples s e r.sum).map (fun c => (r, c)))

/-- The library's enumeration for one pattern (`get_agg_matrix()[existence]`). -/
def enumLib (s : ConnSettings) (e : Existence) : List Matrix :=
  if s.src.isEmpty || s.tgt.isEmpty then
    (degTuples s e).map (fun p => p.1.map (fun _ => p.2.map (fun _ => 0)))
  else (degTuples s e).flatMap (fun p => colRec p.1 p.2 (maxMat s e))

/-- `_count_matrices_special` + fallback, as used by `count_matrices`. -/
def countSpecial (r c : List Nat) (mx : Matrix) : Option Nat :=
  if r.sum = 0 || c.sum = 0 then some 1
  else if r == [1] then some ((c.zip (mx.getD 0 [])).filter (fun p => decide (0 < p.1) && decide (0 < p.2))).length
  else
    match (List.range r.length).find? (fun i => r.getD i 0 == c.sum) with
    | some i => some (if (c.zip (mx.getD i [])).all (fun p => decide (p.1 ≤ p.2)) then 1 else 0)
    | none => none

def transposeN (nt : Nat) (M : Matrix) : Matrix :=
  (List.range nt).map (fun j => M.map (fun r => r.getD j 0))

def countMatrices (r c : List Nat) (mx : Matrix) : Nat :=
  match countSpecial r c mx with
  | some k => k
  | none => match countSpecial c r (transposeN c.length mx) with
    | some k => k
    | none => colCount r c mx

def countAll (s : ConnSettings) (e : Existence) : Nat :=
  ((degTuples s e).map (fun p => countMatrices p.1 p.2 (maxMat s e))).sum

/-- The list → open-ended rewrite inside `get_effective_settings`: a degree list whose prefix is
    `[k, k+1, …, nMax]` becomes "at least k" when no more than `nMax` connections can arrive. -/
def openRewrite (nMax : Nat) : Deg → Deg
  | .list ds =>
    match (List.range nMax).find? (fun k => ds.take (nMax + 1 - k) == (List.range' k (nMax + 1 - k))) with
    | some k => .atLeast k
    | none => .list ds
  | d => d

end Adsg
