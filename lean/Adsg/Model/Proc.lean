/-
  Adsg.Model.Proc — the graph processor as a state machine over its mutable state, at the level of
  abstraction where purity and fix/free exactness can be stated.

  Model of: optimization/graph_processor.py (fix_des_var / free_des_var / _update_comb_fixed_mask /
  get_graph / get_all_discrete_x / get_n_valid_designs), optimization/hierarchy/base.py get_graph
  (feasibility mask, retry loop, lines 186-206) and get_opt_idx.

  A problem is abstracted to: the list of valid rows (design vectors of the valid designs, `none` =
  inactive variable), a ground-truth feasibility flag per row (whether the graph built for it turns out
  feasible), and the encoder's candidate order for an input vector (which rows it tries, nearest first).
  The mutable state is the fixed-value map and the feasibility mask. Caches are keyed by (fixed values,
  input) and store results of the pure function, so they are not represented.
-/
namespace Adsg.Proc

abbrev Row := List (Option Nat)

/-- Kind of a variable for fixing: a selection choice (rows where it is inactive are dropped when it
    is fixed) or a design-variable node (rows where it is inactive are kept). Connection-choice
    variables cannot be fixed. -/
inductive VKind | sel | dv | conn
deriving Repr, DecidableEq, Inhabited

structure Problem where
  kinds : List VKind               -- one per variable
  nOpts : List Nat                 -- declared option counts
  rows : List Row                  -- the valid rows
  feasible : Nat → Bool            -- ground truth per row index
  cands : List Int → List Nat      -- candidate row indices for an input vector, in the encoder's order

abbrev Fixed := List (Nat × Nat)   -- (variable index, value); at most one entry per variable

def Fixed.get (f : Fixed) (i : Nat) : Option Nat := (f.find? (fun p => p.1 == i)).map (·.2)

/-- Is row `r` compatible with the fixed values? -/
def consistent (P : Problem) (f : Fixed) (r : Row) : Bool :=
  f.all (fun p => match r.getD p.1 none with
    | some w => w == p.2
    | none => P.kinds.getD p.1 .sel == .dv)

/-- The valid rows of the restricted problem (before dropping the fixed columns). -/
def restrictRows (P : Problem) (f : Fixed) : List Row := P.rows.filter (consistent P f)

/-- The pure meaning of decoding: the first candidate that is compatible with the fixed values and
    feasible. -/
def decodePure (P : Problem) (f : Fixed) (x : List Int) : Option Nat :=
  (P.cands x).find? (fun i => consistent P f (P.rows.getD i []) && P.feasible i)

structure St where
  fixed : Fixed
  mask : List Bool                 -- persistent feasibility mask (false = found infeasible)
deriving Repr, DecidableEq

def init (P : Problem) : St := { fixed := [], mask := List.replicate P.rows.length true }

/-- The retry loop of `HierarchyAnalyzerBase.get_graph`: take the first candidate allowed by the
    feasibility mask and the fixed-value mask; if its graph is infeasible mark it in the persistent
    mask and try again (`fuel` bounds the number of retries by the number of rows). -/
def retry (P : Problem) (f : Fixed) (x : List Int) : Nat → List Bool → Option Nat × List Bool
  | 0, mask => (none, mask)
  | fuel + 1, mask =>
    match (P.cands x).find? (fun i => mask.getD i false && consistent P f (P.rows.getD i [])) with
    | none => (none, mask)
    | some i => if P.feasible i then (some i, mask) else retry P f x fuel (mask.set i false)

inductive Op
  | decode (x : List Int)
  | fix (i v : Nat)
  | free (i : Nat)
  | enumerate
  | stats

inductive Out
  | decoded (row : Option Nat)
  | rows (rs : List Row)
  | count (n : Nat)
  | ok
  | rejected
deriving Repr, DecidableEq

def setFixed (f : Fixed) (i v : Nat) : Fixed := (i, v) :: f.filter (fun p => p.1 != i)

/-- One operation on the processor. -/
def step (P : Problem) (s : St) : Op → St × Out
  | .decode x =>
    let (r, m) := retry P s.fixed x (P.rows.length + 1) s.mask
    ({ s with mask := m }, .decoded r)
  | .fix i v =>
    if P.kinds.getD i .conn == .conn || decide (P.nOpts.getD i 0 ≤ v) then (s, .rejected)
    else ({ s with fixed := setFixed s.fixed i v }, .ok)
  | .free i => ({ s with fixed := s.fixed.filter (fun p => p.1 != i) }, .ok)
  | .enumerate => (s, .rows (restrictRows P s.fixed))
  | .stats => (s, .count (restrictRows P s.fixed).length)

def runOps (P : Problem) : St → List Op → St × List Out
  | s, [] => (s, [])
  | s, op :: ops =>
    let (s', o) := step P s op
    let (s'', os) := runOps P s' ops
    (s'', o :: os)

/-- The mask only ever excludes rows that really are infeasible. -/
def MaskOK (P : Problem) (mask : List Bool) : Prop :=
  mask.length = P.rows.length ∧ ∀ i, i < mask.length → mask.getD i false = false → P.feasible i = false

/-- What the outputs of a history *should* be: the pure functions of (fixed values at that time, input). -/
def specOuts (P : Problem) : Fixed → List Op → List Out
  | _, [] => []
  | f, .decode x :: ops => .decoded (decodePure P f x) :: specOuts P f ops
  | f, .fix i v :: ops =>
    if P.kinds.getD i .conn == .conn || decide (P.nOpts.getD i 0 ≤ v) then .rejected :: specOuts P f ops
    else .ok :: specOuts P (setFixed f i v) ops
  | f, .free i :: ops => .ok :: specOuts P (f.filter (fun p => p.1 != i)) ops
  | f, .enumerate :: ops => .rows (restrictRows P f) :: specOuts P f ops
  | f, .stats :: ops => .count (restrictRows P f).length :: specOuts P f ops

end Adsg.Proc
