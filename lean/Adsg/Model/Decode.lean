/-
  Adsg.Model.Decode — GraphProcessor.get_graph at specification level
  (optimization/graph_processor.py:849-1007): selection part → architecture → per connection choice the
  manager decode of its slice of the vector under the architecture's existence pattern → per
  design-variable node clamping → activeness / canonical inactive values.

  Three things are oracles validated per instance by the correspondence check, not modelled (`Enc`):
  which selection choices have a variable (`selVars`), which admissible assignment the selection-choice
  encoder corrects a selection vector to (`pick`, the relation `EncOK.pick_*`), and the table / imputer
  of the connection encoder selected for each connection choice (`tables`, `imps`, validated by
  `Table.WF` and "matrices of the table = connSets of the architecture").
-/
import Adsg.Model.Design
import Adsg.Model.Enc
namespace Adsg

structure Enc where
  selVars : List Nat                          -- selection choices that have a design variable, in order
  pick : List Int → Assign                    -- correction target for the (clamped) selection vector
  selShown : List (Option Nat) → List Bool   -- per declared selection variable: reported (active) in the architecture with this row? (an active choice left with a single feasible option is applied automatically and reported inactive by some encoders)
  connNOpts : List (List Nat)                 -- per connection choice: declared option counts
  tables : List (List Node → Option Table)    -- per connection choice: table for an architecture's node set
  imps : List (List Node → List Int → Nat)    -- per connection choice: imputer pick for an architecture's node set

/-- Activeness of the declared selection variables of an assignment. -/
def selAct (g : DSG) (E : Enc) (a : Assign) : List Bool :=
  let r := row g a
  let m := E.selShown r
  (List.range E.selVars.length).map (fun j => (r.getD (E.selVars.getD j 0) none).isSome && m.getD j true)

/-- Selection vector of an assignment: option index of each declared choice, 0 where inactive. -/
def selVec (g : DSG) (E : Enc) (a : Assign) : List Int :=
  let r := row g a
  let act := selAct g E a
  (List.range E.selVars.length).map (fun j =>
    if act.getD j false then (match r.getD (E.selVars.getD j 0) none with | some k => (k : Int) | none => 0) else 0)

/-- Cut `x` into consecutive slices of the given lengths. -/
def slices : List Nat → List Int → List (List Int)
  | [], _ => []
  | n :: ns, x => x.take n :: slices ns (x.drop n)

structure Decoded where
  design : Design
  vals : List (Option Int)   -- value carried by each design-variable node (`none` = node absent)
  x : List Int               -- corrected vector
  act : List Bool            -- activeness
deriving Repr, DecidableEq

/-- The manager layer used by a decode: `managerGetImpl` (the code as it is) or `managerGet` (the
    reference semantics, which differs in the activeness reported on a direct hit only). -/
abbrev Mgr := Option Table → List Nat → (List Int → Nat) → List Int → List Int × List Bool × Option Matrix

/-- Decode of one connection choice's slice in the architecture with node set `X`. -/
def decodeConn (mgr : Mgr) (P : Problem) (E : Enc) (X : List Node) (k : Nat) (xk : List Int) : List Int × List Bool × Matrix :=
  if connPresent X (P.conn.getD k default) then
    let t := (E.tables.getD k (fun _ => none)) X
    let r := mgr t (E.connNOpts.getD k []) ((E.imps.getD k (fun _ _ => 0)) X) xk
    (r.1, r.2.1, r.2.2.getD [])
  else
    (List.replicate xk.length 0, List.replicate xk.length false, (connSets X (P.conn.getD k default)).headD [])

/-- Canonical value of an inactive variable: 0 for a discrete one, mid-bounds for a continuous one
    (the harness instantiates continuous domains on a doubled grid so that the mid-point is integral). -/
def DVDom.canon : DVDom → Int
  | .discrete _ => 0
  | .cont lo hi => (lo + hi) / 2

/-- Decode of one DV variable: (reported value, activeness, value recorded in the design). Values are
    integers on the variable's grid;
    in the *discrete* design a continuous node is represented by the placeholder of `DVDom.values`. -/
def decodeDVVar (X : List Node) (d : DVNodeSpec) (v : Int) : Int × Bool × Option Int :=
  match decodeDV d.dom (X.contains d.node) v with
  | .active w => (w, true, some (match d.dom with | .discrete _ => w | .cont lo _ => lo))
  | .inactiveZero => (0, false, none)
  | .inactiveMid => (d.dom.canon, false, none)

/-- `get_graph`. The vector layout is: selection variables, then each connection choice's variables,
    then one variable per design-variable node. -/
def decodeWith (mgr : Mgr) (P : Problem) (E : Enc) (x : List Int) : Decoded :=
  let nSel := E.selVars.length
  let a := E.pick (x.take nSel)
  let X := closure P.g a
  let connLens := E.connNOpts.map List.length
  let connX := slices connLens (x.drop nSel)
  let connOut := (List.range P.conn.length).map (fun k => decodeConn mgr P E X k (connX.getD k []))
  let dvX := x.drop (nSel + connLens.sum)
  let dvOut := (List.range P.dvs.length).map (fun i => decodeDVVar X (P.dvs.getD i default) (dvX.getD i 0))
  { design := { row := row P.g a, mats := connOut.map (·.2.2), dvals := dvOut.map (·.2.2) },
    vals := dvOut.map (fun o => if o.2.1 then some o.1 else none),
    x := selVec P.g E a ++ (connOut.flatMap (·.1)) ++ dvOut.map (·.1),
    act := selAct P.g E a ++ (connOut.flatMap (·.2.1)) ++ dvOut.map (·.2.1) }

/-- `get_graph` of the code as it is. -/
def decode (P : Problem) (E : Enc) (x : List Int) : Decoded := decodeWith managerGetImpl P E x
/-- `get_graph` with the reference manager semantics. -/
def decodeRef (P : Problem) (E : Enc) (x : List Int) : Decoded := decodeWith managerGet P E x

/-- Node set of the architecture a vector decodes to. -/
def decodeNodes (P : Problem) (E : Enc) (x : List Int) : List Node :=
  closure P.g (E.pick (x.take E.selVars.length))

/-- Offset of the design-variable-node variables in the vector. -/
def Enc.dvOff (E : Enc) : Nat := E.selVars.length + (E.connNOpts.map List.length).sum

/-- Declared number of design variables. -/
def Enc.nVars (P : Problem) (E : Enc) : Nat :=
  E.selVars.length + (E.connNOpts.map List.length).sum + P.dvs.length

/-- Declared bounds (inclusive) of every variable, in vector order. -/
def declBounds (P : Problem) (E : Enc) : List (Int × Int) :=
  E.selVars.map (fun c => ((0 : Int), ((P.g.sel.getD c default).opts.length : Int) - 1)) ++
  (E.connNOpts.flatMap (fun ns => ns.map (fun (n : Nat) => ((0 : Int), (n : Int) - 1)))) ++
  P.dvs.map (fun d => match d.dom with | .discrete n => ((0 : Int), (n : Int) - 1) | .cont lo hi => (lo, hi))

def inBounds (bs : List (Int × Int)) (x : List Int) : Bool :=
  x.length == bs.length && (bs.zip x).all (fun p => decide (p.1.1 ≤ p.2) && decide (p.2 ≤ p.1.2))

/-- Canonical value of every variable when it is inactive, in vector order. -/
def canonVals (P : Problem) (E : Enc) : List Int :=
  List.replicate (E.selVars.length + (E.connNOpts.map List.length).sum) 0 ++ P.dvs.map (·.dom.canon)

/-- An assignment is a feasible architecture of the whole problem: admissible and every connection
    choice has at least one valid connection set. -/
def feasibleAssign (P : Problem) (a : Assign) : Bool :=
  decide (a ∈ allAssigns P.g) && admissible P.g a && P.conn.all (fun k => !(connSets (closure P.g a) k).isEmpty)

/-- The validated contracts of the oracles. -/
structure EncOK (P : Problem) (E : Enc) : Prop where
  /-- CorrSpec: the correction target is always a feasible architecture … -/
  pick_feasible : ∀ xs, feasibleAssign P (E.pick xs) = true
  /-- … and a selection vector that already denotes a feasible architecture is kept. -/
  pick_fixed : ∀ a, feasibleAssign P a = true → row P.g (E.pick (selVec P.g E a)) = row P.g a
  /-- one encoder entry per connection choice -/
  conn_len : E.connNOpts.length = P.conn.length ∧ E.tables.length = P.conn.length ∧ E.imps.length = P.conn.length
  /-- declared option counts are positive (also for a connection choice absent in every architecture) -/
  conn_pos : ∀ ns ∈ E.connNOpts, ∀ n ∈ ns, 0 < n
  /-- TableWF: for every feasible architecture the table of each connection choice is well formed, its
      matrices are exactly the valid connection sets, option counts are positive, the imputer stays inside. -/
  table_ok : ∀ a, feasibleAssign P a = true → ∀ k, k < P.conn.length →
      connPresent (closure P.g a) (P.conn.getD k default) = true →
      ∃ t, (E.tables.getD k (fun _ => none)) (closure P.g a) = some t ∧ t.WF (E.connNOpts.getD k []) = true ∧
        (∀ M, M ∈ t.map (·.2) ↔ M ∈ connSets (closure P.g a) (P.conn.getD k default)) ∧
        (∀ n ∈ E.connNOpts.getD k [], 0 < n) ∧ (∀ v, (E.imps.getD k (fun _ _ => 0)) (closure P.g a) v < t.length)
  /-- the table of a choice depends on the architecture only through which nodes exist -/
  table_congr : ∀ k X Y, (∀ v, v ∈ X ↔ v ∈ Y) → (E.tables.getD k (fun _ => none)) X = (E.tables.getD k (fun _ => none)) Y
  imp_congr : ∀ k X Y, (∀ v, v ∈ X ↔ v ∈ Y) → (E.imps.getD k (fun _ _ => 0)) X = (E.imps.getD k (fun _ _ => 0)) Y
  g_wf : P.g.WF = true
  /-- declared selection variables are choices of the graph that have options -/
  sel_lt : ∀ c ∈ E.selVars, c < P.g.sel.length ∧ 0 < (P.g.sel.getD c default).opts.length
  /-- DV domains are well formed -/
  dv_wf : ∀ d ∈ P.dvs, d.dom.WF = true

end Adsg
