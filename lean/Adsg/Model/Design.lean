/-
  Adsg.Model.Design — the full design space of a problem at specification level: a design is an
  architecture of the selection part together with one valid connection set per connection choice and
  one value per existing discrete design-variable node. `allDesigns` is what
  GraphProcessor.get_all_discrete_x enumerates (semantically), `nValidFormula` what get_n_valid_designs
  computes without enumerating (optimization/graph_processor.py:583-632, 649-753).
-/
import Adsg.Model.Graph
import Adsg.Model.ConnGraph
import Adsg.Model.DV
namespace Adsg

structure DVNodeSpec where
  node : Node
  dom : DVDom
deriving Repr

instance : Inhabited DVNodeSpec := ⟨{ node := 0, dom := .discrete 1 }⟩

structure Problem where
  g : DSG
  conn : List ConnChoice := []
  dvs : List DVNodeSpec := []
deriving Repr, Inhabited

/-- A design: the row of the selection architecture, one matrix per connection choice, one value per
    design-variable node (`none` = the node does not exist in the architecture). -/
structure Design where
  row : List (Option Nat)
  mats : List Matrix
  dvals : List (Option Int)
deriving Repr, DecidableEq, Inhabited

/-- Discrete values of a DV node; a continuous node contributes a single (placeholder) value to the
    *discrete* design space. -/
def DVDom.values : DVDom → List Int
  | .discrete n => (List.range n).map Int.ofNat
  | .cont lo _ => [lo]

def prodL {α} : List (List α) → List (List α)
  | [] => [[]]
  | l :: ls => l.flatMap (fun x => (prodL ls).map (x :: ·))

def dvChoices (X : List Node) (d : DVNodeSpec) : List (Option Int) :=
  if X.contains d.node then d.dom.values.map some else [none]

/-- All designs over the architecture of assignment `a`. -/
def designsOf (P : Problem) (a : Assign) : List Design :=
  let X := closure P.g a
  (prodL (P.conn.map (connSets X))).flatMap (fun ms =>
    (prodL (P.dvs.map (dvChoices X))).map (fun dv => ({ row := row P.g a, mats := ms, dvals := dv } : Design)))

/-- One admissible representative assignment per architecture (row). -/
def repAssigns (g : DSG) : List Assign :=
  (allRows g).filterMap (fun r => ((allAssigns g).filter (admissible g)).find? (fun a => row g a == r))

/-- **All valid discrete designs.** -/
def allDesigns (P : Problem) : List Design := (repAssigns P.g).flatMap (designsOf P)

def nValid (P : Problem) : Nat := (allDesigns P).length

def prodNat (l : List Nat) : Nat := l.foldl (· * ·) 1

/-- Counting without enumerating: per architecture the product of the numbers of connection sets and
    of the option counts of the existing discrete DV nodes. -/
def nValidFormula (P : Problem) : Nat :=
  ((repAssigns P.g).map (fun a =>
    let X := closure P.g a
    prodNat (P.conn.map (fun k => (connSets X k).length)) *
    prodNat (P.dvs.map (fun d => (dvChoices X d).length)))).sum

/-- Is `d` a valid design of `P` (decidable specification)? -/
def validDesign (P : Problem) (d : Design) : Bool :=
  ((allAssigns P.g).filter (admissible P.g)).any (fun a =>
    let X := closure P.g a
    row P.g a == d.row &&
    d.mats.length == P.conn.length &&
    ((List.range P.conn.length).all (fun k => (connSets X (P.conn.getD k default)).contains (d.mats.getD k []))) &&
    d.dvals.length == P.dvs.length &&
    ((List.range P.dvs.length).all (fun i => (dvChoices X (P.dvs.getD i default)).contains (d.dvals.getD i none))))

end Adsg
