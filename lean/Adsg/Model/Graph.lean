/-
  Adsg.Model.Graph — the design space graph (DSG) of adsg-core at specification level, and the
  closure semantics of an (partial or total) option assignment.

  Model of: adsg_core/graph/adsg_basic.py, adsg.py, choices.py, traversal.py (what an architecture *is*).
  Nodes are natural numbers `< n`; selection-choice nodes are a separate sort (indices into `sel`),
  so "no choice node is left" is a typing fact here and an observation on the implementation side.
  Imports nothing outside core Lean (the driver links against it).
-/
namespace Adsg

abbrev Node := Nat

/-- A selection choice: edge `origin → choice`, edges `choice → opts[k]`. -/
structure SelChoice where
  origin : Node
  opts   : List Node
deriving Repr, DecidableEq, Inhabited

/-- Choice-constraint types of `graph/choice_constraints.py`. -/
inductive ConsType | linked | permutation | unordered | unorderedNorepl
deriving Repr, DecidableEq, Inhabited

structure ChoiceCons where
  ty      : ConsType
  choices : List Nat      -- indices into `sel`, in constraint order
deriving Repr, DecidableEq, Inhabited

structure DSG where
  n        : Nat
  derives  : List (Node × Node)
  sel      : List SelChoice
  start    : List Node
  incompat : List (Node × Node)
  cons     : List ChoiceCons := []
deriving Repr, Inhabited

/-- Well-formedness: every node id mentioned is `< n`. -/
def DSG.WF (g : DSG) : Bool :=
  g.derives.all (fun e => e.1 < g.n && e.2 < g.n) &&
  g.sel.all (fun c => c.origin < g.n && c.opts.all (· < g.n)) &&
  g.start.all (· < g.n) &&
  g.incompat.all (fun e => e.1 < g.n && e.2 < g.n) &&
  g.cons.all (fun k => k.choices.all (· < g.sel.length))

/-- A (partial) assignment: option *index* per selection choice, `none` = not taken.
    Entries beyond the list are `none`. -/
abbrev Assign := List (Option Nat)

def Assign.get (a : Assign) (c : Nat) : Option Nat := (a[c]?).join

/-- The option node selected for choice `c` (index in range), if any. -/
def selectedOpt (g : DSG) (a : Assign) (c : Nat) : Option Node :=
  match g.sel[c]?, a.get c with
  | some ch, some k => ch.opts[k]?
  | _, _ => none

/-- Selected option nodes of all choices whose origin is `u`. -/
def choiceSuccs (g : DSG) (a : Assign) (u : Node) : List Node :=
  (List.range g.sel.length).filterMap (fun c =>
    match g.sel[c]? with
    | some ch => if ch.origin = u then selectedOpt g a c else none
    | none => none)

/-- Successors of `u` under assignment `a`: derivation targets, plus the selected option of each
    choice originating at `u`. -/
def succs (g : DSG) (a : Assign) (u : Node) : List Node :=
  (g.derives.filter (·.1 = u)).map (·.2) ++ choiceSuccs g a u

/-- Reachability: the declarative meaning of "exists in the architecture". -/
inductive Reach (g : DSG) (a : Assign) : Node → Prop
  | start {v} : v ∈ g.start → Reach g a v
  | step {u v} : Reach g a u → v ∈ succs g a u → Reach g a v

def ins (acc : List Nat) (v : Nat) : List Nat := if v ∈ acc then acc else acc ++ [v]
def insAll (X : List Nat) (l : List Nat) : List Nat := l.foldl ins X
def expand (g : DSG) (a : Assign) (X : List Node) : List Node := insAll X (X.flatMap (succs g a))
def iter (g : DSG) (a : Assign) : Nat → List Node → List Node
  | 0, X => X
  | k+1, X => iter g a k (expand g a X)

/-- The node set of the (partial) architecture: frontier expansion with fuel `n`.
    For a partial assignment this is the *confirmed* node set; for a total one the instance. -/
def closure (g : DSG) (a : Assign) : List Node := iter g a g.n (insAll [] g.start)

/-- Choices whose originating node exists. -/
def activeChoices (g : DSG) (a : Assign) : List Nat :=
  (List.range g.sel.length).filter (fun c =>
    match g.sel[c]? with
    | some ch => ch.origin ∈ closure g a
    | none => false)

def conflictFreeB (g : DSG) (X : List Node) : Bool :=
  g.incompat.all (fun e => !(X.contains e.1 && X.contains e.2))

/-- Every active choice has a taken option whose index is in range. -/
def activeResolved (g : DSG) (a : Assign) : Bool :=
  (activeChoices g a).all (fun c => (selectedOpt g a c).isSome)

/-! ### Choice constraints at architecture level (see `Constraints.lean` for the algorithms) -/

def pairwiseB {α} (r : α → α → Bool) : List α → Bool
  | [] => true
  | x :: xs => xs.all (r x) && pairwiseB r xs

/-- The documented index relation on the sub-vector (in constraint order) of the choices that are
    active together. -/
def consRel (ty : ConsType) (idx : List Nat) : Bool :=
  match ty with
  | .linked          => pairwiseB (fun i j => i == j) idx
  | .permutation     => pairwiseB (fun i j => i != j) idx
  | .unordered       => pairwiseB (fun i j => i ≤ j) idx
  | .unorderedNorepl => pairwiseB (fun i j => i < j) idx

def consOK (g : DSG) (a : Assign) : Bool :=
  let act := activeChoices g a
  g.cons.all (fun k =>
    consRel k.ty ((k.choices.filter (act.contains ·)).filterMap (a.get ·)))

/-- An assignment is admissible when every active choice is resolved, the closure contains no
    incompatible pair and the active constrained choices satisfy their index relation. -/
def admissible (g : DSG) (a : Assign) : Bool :=
  activeResolved g a && conflictFreeB g (closure g a) && consOK g a

/-- All total assignments (one option index per choice; `none` only for a choice without options). -/
def allAssigns (g : DSG) : List Assign :=
  g.sel.foldr (fun ch acc =>
    let vals : List (Option Nat) := if ch.opts.isEmpty then [none] else (List.range ch.opts.length).map some
    vals.flatMap (fun v => acc.map (v :: ·))) [[]]

/-- The row of an assignment: option index of every *active* choice, `none` for inactive ones
    (`x_valid_discr` with −1 ↦ none). Two assignments denote the same architecture iff rows agree. -/
def row (g : DSG) (a : Assign) : List (Option Nat) :=
  let act := activeChoices g a
  (List.range g.sel.length).map (fun c => if act.contains c then a.get c else none)

def dedup {α} [BEq α] : List α → List α
  | [] => []
  | x :: xs => let r := dedup xs; if r.contains x then r else x :: r

/-- All architectures, as rows (one per architecture). -/
def allRows (g : DSG) : List (List (Option Nat)) :=
  dedup (((allAssigns g).filter (admissible g)).map (row g))

/-- Insertion sort, used only to canonicalise output. -/
def insertSorted (x : Nat) : List Nat → List Nat
  | [] => [x]
  | y :: ys => if x ≤ y then x :: y :: ys else y :: insertSorted x ys
def sortNat (l : List Nat) : List Nat := l.foldr insertSorted []

end Adsg
