/-
  Adsg.Model.DV — value correction of design-variable nodes.
  Model of: DesignVariableNode.correct_value (graph/adsg_nodes.py:374-392),
  DSG.set_des_var_value (graph/adsg.py:239-269), the DV part of GraphProcessor.get_graph
  (optimization/graph_processor.py:968-1007).
  Numbers: discrete inputs are exact rationals `num/den` (Python floats are dyadic rationals) that the
  processor truncates with `int()`; continuous values/bounds are compared on a common denominator, so
  the model works on `Int` (only order matters for clamping).
-/
namespace Adsg

/-- Python `int(x)` for `x = num/den`, `den > 0`: truncation toward zero. -/
def pyTrunc (num : Int) (den : Nat) : Int := Int.tdiv num den

/-- `correct_value` for a discrete node with `n ≥ 1` options. -/
def correctDiscrete (n : Nat) (v : Int) : Int :=
  if v < 0 then 0 else if v ≥ n then (n : Int) - 1 else v

/-- `correct_value` for a continuous node (generic in the order; instantiated at `Int`). -/
def clampG {α} [LT α] [DecidableLT α] (lo hi v : α) : α :=
  if v < lo then lo else if hi < v then hi else v

def correctCont (lo hi v : Int) : Int := clampG lo hi v

/-- Which input the corrected continuous value is (for comparison with Python's own float). -/
inductive Pick | value | lo | hi
deriving Repr, DecidableEq

def pickCont (lo hi v : Int) : Pick :=
  if v < lo then .lo else if hi < v then .hi else .value

def Pick.eval (lo hi v : Int) : Pick → Int
  | .value => v | .lo => lo | .hi => hi

/-- Domain of a design-variable node. -/
inductive DVDom
  | discrete (n : Nat)
  | cont (lo hi : Int)
deriving Repr, DecidableEq

def DVDom.WF : DVDom → Bool
  | .discrete n => n ≥ 1
  | .cont lo hi => lo < hi

def DVDom.inDom : DVDom → Int → Bool
  | .discrete n, v => 0 ≤ v && v < n
  | .cont lo hi, v => lo ≤ v && v ≤ hi

def DVDom.correct : DVDom → Int → Int
  | .discrete n, v => correctDiscrete n v
  | .cont lo hi, v => correctCont lo hi v

/-- One DV variable in a decode: the node exists ⇒ (corrected value, active);
    otherwise (canonical inactive value, inactive). `mid` stands for `(lo+hi)/2`, which the harness
    compares with Python's own `sum(bounds)/2`. -/
inductive DVOut
  | active (v : Int)
  | inactiveZero
  | inactiveMid
deriving Repr, DecidableEq

def decodeDV (d : DVDom) (exists_ : Bool) (v : Int) : DVOut :=
  if exists_ then .active (d.correct v)
  else match d with
    | .discrete _ => .inactiveZero
    | .cont _ _ => .inactiveMid

end Adsg
