/-
  Adsg.Model.Identity — structural identity of design space graphs.
  Model of: DSG.__hash__ / __eq__ / copy (graph/adsg.py:68-113, 658-690): two graphs are equal iff their
  canonical forms agree: multiset of node identities, multiset of keyed edges, set of start nodes, list
  of constraint identities. (Python compares `hash` of these tuples; `hash` is treated as injective on
  them – trusted base.)
-/
namespace Adsg

/-- Structure of a graph object: node ids, keyed edges (src, tgt, key), start nodes, constraint ids. -/
structure GS where
  nodes : List Nat
  edges : List (Nat × Nat × Nat)
  start : List Nat
  cons  : List Nat
deriving Repr, DecidableEq, Inhabited

def insNat (x : Nat) : List Nat → List Nat
  | [] => [x]
  | y :: ys => if x ≤ y then x :: y :: ys else y :: insNat x ys
def sortN (l : List Nat) : List Nat := l.foldr insNat []

def leE (a b : Nat × Nat × Nat) : Bool :=
  a.1 < b.1 || (a.1 == b.1 && (a.2.1 < b.2.1 || (a.2.1 == b.2.1 && a.2.2 ≤ b.2.2)))
def insE (x : Nat × Nat × Nat) : List (Nat × Nat × Nat) → List (Nat × Nat × Nat)
  | [] => [x]
  | y :: ys => if leE x y then x :: y :: ys else y :: insE x ys
def sortE (l : List (Nat × Nat × Nat)) : List (Nat × Nat × Nat) := l.foldr insE []

/-- Canonical form (what `__hash__` hashes). -/
def GS.canon (g : GS) : List Nat × List (Nat × Nat × Nat) × List Nat × List Nat :=
  (sortN g.nodes, sortE g.edges, sortN g.start, g.cons)

/-- `__eq__`. -/
def eqG (a b : GS) : Bool := decide (a.canon = b.canon)

/-- `copy()`: a new graph object with the same nodes, edges, start nodes and constraint list
    (networkx may hand them back in any order). -/
def GS.copyWith (g : GS) (nodes : List Nat) (edges : List (Nat × Nat × Nat)) : GS :=
  { g with nodes := nodes, edges := edges }

def GS.addNode (g : GS) (v : Nat) : GS := { g with nodes := v :: g.nodes }
def GS.removeNode (g : GS) (v : Nat) : GS :=
  { g with nodes := g.nodes.erase v, edges := g.edges.filter (fun e => e.1 != v && e.2.1 != v) }
def GS.addEdge (g : GS) (e : Nat × Nat × Nat) : GS := { g with edges := e :: g.edges }
def GS.removeEdge (g : GS) (e : Nat × Nat × Nat) : GS := { g with edges := g.edges.erase e }
def GS.addStart (g : GS) (v : Nat) : GS := { g with start := v :: g.start }
def GS.addCons (g : GS) (c : Nat) : GS := { g with cons := g.cons ++ [c] }
def GS.removeStart (g : GS) (v : Nat) : GS := { g with start := g.start.erase v }
def GS.removeCons (g : GS) (c : Nat) : GS := { g with cons := g.cons.erase c }

end Adsg
