/-
  Adsg.Model.TimeLimiter — the two-thread protocol of `run_timeout`
  (optimization/assign_enc/time_limiter.py:16-43): a single-worker thread pool runs `f`; the caller waits
  with a timeout; on expiry it leaves the pool context, and if the worker thread is still alive injects
  an asynchronous exception into *that thread* and joins it; only then it raises TimeoutError.

  Behaviour of `f` is a parameter (finishes / raises / may swallow the injected exception a number of
  times / may block natively, i.e. not observe the exception for some steps). CPython's delivery of
  asynchronous exceptions, the GIL and thread-id reuse are outside the model.
-/
namespace Adsg.TL

inductive WPc
  | queued                     -- task submitted, worker has not started f
  | running (swallows : Nat)   -- executing f; `swallows` = how many more injected exceptions f will swallow
  | finished (ok : Bool)       -- f returned (ok) or raised its own exception (¬ok); result delivered to the pool
  | killed                     -- f was terminated by the injected exception
deriving Repr, DecidableEq

inductive Outcome | ret | raise | timeout
deriving Repr, DecidableEq

inductive MPc
  | waiting                    -- in `get(timeout)`
  | expired                    -- timed out, pool context left
  | injected                   -- asynchronous exception sent to the worker, joining
  | done (o : Outcome)         -- run_timeout has returned / raised
deriving Repr, DecidableEq

structure St where
  m : MPc
  w : WPc
  pendingW : Bool              -- an asynchronous exception is pending on the WORKER thread
  pendingM : Bool              -- an asynchronous exception is pending on the MAIN thread (must never be set)
deriving Repr, DecidableEq

def init : St := { m := .waiting, w := .queued, pendingW := false, pendingM := false }

inductive Act
  | wStart (swallows : Nat)    -- worker begins f
  | wFinish (ok : Bool)        -- f returns / raises its own exception
  | wDeliver                   -- the pending exception is raised inside f
  | wAbandon                   -- the pool is torn down before the worker ever started f
  | mGet                       -- main obtains the result within the time limit
  | mExpire                    -- the timed wait expires
  | mInject                    -- thread.is_alive() → PyThreadState_SetAsyncExc(worker)
  | mSkipInject                -- thread not alive any more: nothing to interrupt
  | mJoin                      -- join returns (worker thread has ended) → raise TimeoutError
deriving Repr, DecidableEq

def wAlive : WPc → Bool
  | .queued => true | .running _ => true | .finished _ => false | .killed => false

/-- One step of the protocol; `none` = the action is not enabled. -/
def step (s : St) : Act → Option St
  | .wStart k => if s.w = .queued ∧ (s.m = .waiting ∨ s.m = .expired ∨ s.m = .injected) then some { s with w := .running k } else none
  | .wFinish ok => match s.w with
      | .running _ => some { s with w := .finished ok }
      | _ => none
  | .wDeliver => match s.w with
      | .running k =>
        if s.pendingW then
          (if k = 0 then some { s with w := .killed, pendingW := false }
           else some { s with w := .running (k - 1), pendingW := false })
        else none
      | _ => none
  | .wAbandon => if s.w = .queued ∧ s.m ≠ .waiting then some { s with w := .killed } else none
  | .mGet => match s.m, s.w with
      | .waiting, .finished ok => some { s with m := .done (if ok then .ret else .raise) }
      | _, _ => none
  | .mExpire => if s.m = .waiting then some { s with m := .expired } else none
  | .mInject => if s.m = .expired ∧ wAlive s.w then some { s with m := .injected, pendingW := true } else none
  | .mSkipInject => if s.m = .expired ∧ ¬ wAlive s.w then some { s with m := .done .timeout } else none
  | .mJoin => if s.m = .injected ∧ ¬ wAlive s.w then some { s with m := .done .timeout } else none

def run : St → List Act → Option St
  | s, [] => some s
  | s, a :: as => match step s a with
    | some s' => run s' as
    | none => none

/-- The worker is executing (or about to execute) `f`. -/
def wInF : WPc → Bool
  | .running _ => true | _ => false

/-! ### Observable projection used by the correspondence check -/

inductive Obs
  | fStart | fEnd (ok : Bool) | fKilled | ret (o : Outcome)
deriving Repr, DecidableEq

/-- Is an observed event sequence (from instrumentation of `f` and of the caller) a projection of
    some run of the protocol? Decided by a small automaton over (worker phase, returned?). -/
def obsAccepts : List Obs → Bool :=
  go (0 : Nat) false
where
  /-- phase: 0 not started, 1 in f, 2 f ended ok, 3 f ended with own exception, 4 killed -/
  go : Nat → Bool → List Obs → Bool
    | _, _, [] => true
    | ph, returned, .fStart :: rest => ph == 0 && !returned && go 1 returned rest
    | ph, returned, .fEnd ok :: rest => ph == 1 && go (if ok then 2 else 3) returned rest
    | ph, returned, .fKilled :: rest => ph == 1 && go 4 returned rest
    | ph, returned, .ret o :: rest =>
      !returned && ph != 1 &&
      (match o with
        | .ret => ph == 2
        | .raise => ph == 3
        | .timeout => true) && go ph true rest

/-- Observable events of one protocol step taken from state `s`. -/
def obsOf (s : St) : Act → List Obs
  | .wStart _ => [.fStart]
  | .wFinish ok => [.fEnd ok]
  | .wDeliver => (match s.w with | .running 0 => [.fKilled] | _ => [])
  | .mGet => (match s.w with | .finished ok => [.ret (if ok then .ret else .raise)] | _ => [])
  | .mSkipInject => [.ret .timeout]
  | .mJoin => [.ret .timeout]
  | _ => []

/-- The observable trace of a run. -/
def trace : St → List Act → List Obs
  | _, [] => []
  | s, a :: as => match step s a with
    | some s' => obsOf s a ++ trace s' as
    | none => []

end Adsg.TL
