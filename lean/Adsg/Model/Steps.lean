/-
  Adsg.Model.Steps — step-by-step resolution of selection choices (operational layer).
  Model of the public resolution API: DSG.get_ordered_next_choice_nodes / get_option_nodes /
  get_for_apply_selection_choice / get_taken_single_selection_choices (graph/adsg.py, choices.py).

  State = the list of picks made so far. *Which* options the library offers at a state (its pruning
  look-ahead) is an oracle `Offered`, constrained only by the sandwich
  `viable ⊆ offered ⊆ declared options`; automatically resolved choices are ordinary picks here.
-/
import Adsg.Model.Graph
namespace Adsg

/-- (choice index, option index) pairs; most recent first. -/
abbrev Picks := List (Nat × Nat)

def lookupPick (ops : Picks) (c : Nat) : Option Nat := (ops.find? (fun p => p.1 == c)).map (·.2)

/-- The partial assignment denoted by a list of picks. -/
def assignOf (g : DSG) (ops : Picks) : Assign := (List.range g.sel.length).map (lookupPick ops)

/-- `b` agrees with `a` wherever `a` has taken an option. -/
def extendsB (g : DSG) (a b : Assign) : Bool :=
  (List.range g.sel.length).all (fun c => (a.get c).isNone || a.get c == b.get c)

/-- Option indices of choice `c` that have an admissible total completion extending `a`. -/
def viable (g : DSG) (a : Assign) (c : Nat) : List Nat :=
  match g.sel[c]? with
  | none => []
  | some ch => (List.range ch.opts.length).filter (fun k =>
      (allAssigns g).any (fun b => admissible g b && extendsB g a b && b.get c == some k))

/-- Does `a` have any admissible total completion? -/
def completable (g : DSG) (a : Assign) : Bool :=
  (allAssigns g).any (fun b => admissible g b && extendsB g a b)

/-- Oracle: the option indices offered for choice `c` at partial assignment `a`. -/
abbrev Offered := Assign → Nat → List Nat

def nOpts (g : DSG) (c : Nat) : Nat := match g.sel[c]? with | some ch => ch.opts.length | none => 0

/-- The sandwich every admissible oracle satisfies: never over-prunes, never invents options. -/
def Sandwich (g : DSG) (off : Offered) : Prop :=
  ∀ a c, (∀ k ∈ viable g a c, k ∈ off a c) ∧ (∀ k ∈ off a c, k < nOpts g c)

/-- Choices that are active and not yet taken. -/
def nextChoices (g : DSG) (ops : Picks) : List Nat :=
  (activeChoices g (assignOf g ops)).filter (fun c => (lookupPick ops c).isNone)

/-- One step is valid when the choice is active, not yet taken and the option is offered. -/
def stepOK (g : DSG) (off : Offered) (ops : Picks) (c k : Nat) : Bool :=
  (nextChoices g ops).contains c && (off (assignOf g ops) c).contains k

/-- Run a sequence of picks from state `acc`; `none` when some step is invalid. -/
def run (g : DSG) (off : Offered) : Picks → Picks → Option Picks
  | [], acc => some acc
  | (c, k) :: rest, acc => if stepOK g off acc c k then run g off rest ((c, k) :: acc) else none

/-- The canonical run towards a total assignment `a`: always take the first active untaken choice
    with the option `a` assigns; `fuel` bounds the number of steps (≤ number of choices). -/
def canonRun (g : DSG) (a : Assign) : Nat → Picks → Picks
  | 0, acc => acc
  | fuel+1, acc =>
    match nextChoices g acc with
    | [] => acc
    | c :: _ => match a.get c with
      | some k => canonRun g a fuel ((c, k) :: acc)
      | none => acc

end Adsg
