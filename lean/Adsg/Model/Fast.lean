/-
  Adsg.Model.Fast — the fast selection-choice encoder.
  Model of: optimization/hierarchy/fast.py FastHierarchyAnalyzer.get_graph (greedy application of the
  vector's option indices in the order choices become active, retrying over the neighbourhood of the
  vector) and _iter_neighborhood (lines 184-218).
  Which options the graph API offers at a state is the oracle `Offered` of Steps.lean; a choice with at
  most one offered option is resolved by the graph itself (and then does not consume a vector entry).
-/
import Adsg.Model.Steps
namespace Adsg

/-- `_iter_values`: the current value, then alternately +dist / −dist while inside `[0, n)`; a fixed
    variable only yields its current value. -/
def iterValues (n cur : Nat) (fixed : Bool) : List Nat :=
  if fixed then [cur]
  else cur :: go n cur 1 n
where
  /-- `fuel` bounds the distance loop (`for dist in range(1, n)` stops when neither direction is in
      range) -/
  go (n cur : Nat) : Nat → Nat → List Nat
    | _, 0 => []
    | dist, fuel + 1 =>
      if dist ≥ n then [] else
      let pos := if cur + dist < n then [cur + dist] else []
      let neg := if dist ≤ cur then [cur - dist] else []
      if pos.isEmpty && neg.isEmpty then [] else pos ++ neg ++ go n cur (dist + 1) fuel

/-- `_iter_neighborhood`: depth-first product, first variable outermost. -/
def neighborhood : List Nat → List Nat → List Bool → List (List Nat)
  | [], _, _ => [[]]
  | n :: ns, x, fx =>
    (iterValues n (x.headD 0) (fx.headD false)).flatMap (fun v =>
      (neighborhood ns x.tail fx.tail).map (v :: ·))

/-- all vectors of the box `Π [0, nᵢ)` that keep the fixed entries of `x` -/
def inBox (nOpts x : List Nat) (fx : List Bool) (v : List Nat) : Bool :=
  v.length == nOpts.length &&
  (List.range nOpts.length).all (fun i =>
    decide (v.getD i 0 < nOpts.getD i 0) && (!(fx.getD i false) || v.getD i 0 == x.getD i 0))

/-- Greedy application of vector `v` (option index per choice): repeatedly take an active untaken
    choice (`choose` picks which, e.g. the first in the library's order); a choice with at most one
    offered option is resolved with it (or fails when none is left); otherwise `v`'s option must be
    offered. `none` = the vector cannot be applied (NoOptionError / dead end). -/
def greedy (g : DSG) (off : Offered) (choose : List Nat → Option Nat) (v : List Nat) : Nat → Picks → Option Picks
  | 0, acc => if nextChoices g acc == [] then some acc else none
  | fuel + 1, acc =>
    match choose (nextChoices g acc) with
    | none => some acc
    | some c =>
      let offered := off (assignOf g acc) c
      match offered with
      | [] => none
      | [k] => greedy g off choose v fuel ((c, k) :: acc)
      | _ => if offered.contains (v.getD c 0) then greedy g off choose v fuel ((c, v.getD c 0) :: acc) else none

/-- Is the result of a greedy run an admissible architecture? -/
def feasibleRun (g : DSG) (s : Picks) : Bool :=
  nextChoices g s == [] && conflictFreeB g (closure g (assignOf g s)) && consOK g (assignOf g s)

/-- `get_graph`: the first vector of the neighbourhood whose greedy application yields a feasible
    architecture; returns the picks (from which instance, row and activeness follow). -/
def fastDecode (g : DSG) (off : Offered) (choose : List Nat → Option Nat) (nOpts x : List Nat) (fx : List Bool) :
    Option (List Nat × Picks) :=
  (neighborhood nOpts x fx).findSome? (fun v =>
    match greedy g off choose v g.sel.length [] with
    | some s => if feasibleRun g s then some (v, s) else none
    | none => none)

/-- A chooser that always returns a member of a non-empty list (e.g. `List.head?`). -/
def ChooserOK (choose : List Nat → Option Nat) : Prop :=
  (∀ l, l ≠ [] → ∃ c ∈ l, choose l = some c) ∧ choose [] = none

end Adsg
