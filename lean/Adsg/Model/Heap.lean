/-
  Adsg.Model.Heap — graph objects as values over a heap of shared node objects (C08).

  Every DSG object owns its multigraph, status array, constraint list and stored values (copy-on-derive,
  graph/adsg.py:658-703) but the *node objects* are shared by all graphs derived from one another, and
  a degree-grouping connector node stores its aggregated degree on the node object
  (graph/adsg_nodes.py:282-298): constructing any graph recomputes it from the graph being constructed
  (adsg.py:57,462-465). The model keeps, per graph object, what it owns (`Own`) and, per world, the
  shared cells; `look` is the feasibility read of traversal.py:454-513, which (since fix 65e11cd)
  first re-synchronises the cells of the graph's own grouping nodes and then reads them. `lookStale`
  is the read as it was before that fix.
-/
import Adsg.Model.ConnGraph
namespace Adsg.Heap
open Adsg

/-- What a graph object owns, as far as the shared cells are concerned. `rest` stands for everything
    else the object owns (nodes, edges, status array, stored values) and reports. -/
structure Own where
  groups : List (Nat × List Deg)   -- grouping node ↦ degree specs of its member connectors present in this graph
  conns : List (Nat × Nat)         -- grouping node ↦ number of connections it has in this graph
  rest : Nat
deriving Repr, DecidableEq, Inhabited

/-- The shared cells: grouping node ↦ aggregated degree stored on the node object. -/
abbrev Cells := List (Nat × Deg)

def Cells.get (c : Cells) (g : Nat) : Option Deg := (c.find? (·.1 == g)).map (·.2)
def Cells.set (c : Cells) (g : Nat) (d : Deg) : Cells := (g, d) :: c.filter (fun p => !(p.1 == g))

/-- `_update_connector_grouping_degrees`: every grouping node of the graph gets the combined degree of
    its members in this graph. -/
def sync (o : Own) (c : Cells) : Cells := o.groups.foldl (fun c p => c.set p.1 (combinedDeg p.2)) c

/-- The degree part of the feasibility check with the cells as they are. -/
def degOK (o : Own) (c : Cells) : Bool :=
  o.conns.all (fun p => match c.get p.1 with | some d => d.allows p.2 | none => false)

/-- Every grouping node whose connections are checked is a grouping node of the graph. -/
def Own.WF (o : Own) : Bool := o.conns.all (fun p => o.groups.any (·.1 == p.1))

structure World where
  objs : List Own := []
  cells : Cells := []
deriving Repr, Inhabited

/-- What an observer does: derive a new graph object from an existing one (copy, apply a choice,
    constrain on a copy, decode from a processor: `nw` is what the new object owns), or look at an
    existing one. -/
inductive Act
  | derive (src : Nat) (nw : Own)
  | look (i : Nat)
deriving Repr

/-- What a look reports: the owned part and the degree check. -/
abbrev Obs := Option (Nat × Bool)

/-- One step of the code as it is: deriving constructs the new object (which synchronises the shared
    cells to it); looking re-synchronises the cells to the object looked at, then reads. -/
def step (w : World) : Act → World × Obs
  | .derive src nw =>
    if src < w.objs.length then ({ objs := w.objs ++ [nw], cells := sync nw w.cells }, none) else (w, none)
  | .look i =>
    match w.objs[i]? with
    | none => (w, none)
    | some o => let c := sync o w.cells; ({ w with cells := c }, some (o.rest, degOK o c))

/-- The code before fix 65e11cd: a look reads the cells as the last construction left them. -/
def stepStale (w : World) : Act → World × Obs
  | .derive src nw =>
    if src < w.objs.length then ({ objs := w.objs ++ [nw], cells := sync nw w.cells }, none) else (w, none)
  | .look i =>
    match w.objs[i]? with
    | none => (w, none)
    | some o => (w, some (o.rest, degOK o w.cells))

def runWith (st : World → Act → World × Obs) : World → List Act → World × List Obs
  | w, [] => (w, [])
  | w, a :: as => let (w', o) := st w a; let (w'', os) := runWith st w' as; (w'', o :: os)

def run := runWith step
def runStale := runWith stepStale

/-- What a graph object reports as a pure function of what it owns. -/
def pureObs (o : Own) : Nat × Bool := (o.rest, degOK o (sync o []))

end Adsg.Heap
