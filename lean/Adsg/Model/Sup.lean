/-
  Adsg.Model.Sup — resolution of a supplementary design space graph from a source architecture.
  Model of: graph/sup/dsg.py SupDSG.add_mapping / initialize_choices / resolve,
  SupSelChoiceOptionMapping.resolve, SupExistenceMapping.resolve.
-/
import Adsg.Model.Graph
namespace Adsg

/-- Option mapping: for a source selection choice, (source option index or `none` = the source choice is
    inactive) ↦ option index of the supplementary choice. -/
structure OptMap where
  srcChoice : Nat
  table : List (Option Nat × Nat)
deriving Repr, DecidableEq, Inhabited

/-- Existence mapping: ordered (source node ↦ sup option index); `dflt` when none of the nodes exists. -/
structure ExistMap where
  entries : List (Node × Nat)
  dflt : Nat
deriving Repr, DecidableEq, Inhabited

inductive SupMapping
  | opt (m : OptMap)
  | exist (m : ExistMap)
deriving Repr, DecidableEq, Inhabited

structure SupSpec where
  sup : DSG
  maps : List (Nat × SupMapping)      -- (supplementary choice index, mapping), in registration order
deriving Repr, Inhabited

/-- The supplementary option a mapping selects for the source architecture (node set `X`, row `r`). -/
def mapTarget (X : List Node) (r : List (Option Nat)) : SupMapping → Option Nat
  | .opt m => ((m.table.find? (fun e => e.1 == (r.getD m.srcChoice none))).map (·.2))
  | .exist m => match m.entries.find? (fun e => X.contains e.1) with
    | some e => some e.2
    | none => some m.dflt

/-- `initialize_choices`: no choice mapped twice, every choice of the supplementary graph mapped. -/
def initOK (s : SupSpec) : Bool :=
  let mapped := s.maps.map (·.1)
  decide (mapped.Nodup) && (List.range s.sup.sel.length).all (mapped.contains ·)

/-- `add_mapping`: an existence mapping may only mention nodes of the (initialised) source graph
    (`srcNodes`); a mapping that mentions another node is rejected at registration. -/
def mapsWF (s : SupSpec) (srcNodes : List Node) : Bool :=
  s.maps.all (fun m => match m.2 with
    | .opt _ => true
    | .exist e => e.entries.all (fun p => srcNodes.contains p.1))

/-- The assignment of the supplementary graph determined by the mappings (`none` where a mapping has no
    entry for the source situation). -/
def supAssign (s : SupSpec) (X : List Node) (r : List (Option Nat)) : Assign :=
  (List.range s.sup.sel.length).map (fun c =>
    match s.maps.find? (fun m => m.1 == c) with
    | some m => mapTarget X r m.2
    | none => none)

/-- `resolve`: rejected when the mappings are incomplete or some *active* supplementary choice has no
    target; otherwise the resolved graph is the closure under the mapped assignment. -/
def resolve (s : SupSpec) (X : List Node) (r : List (Option Nat)) : Option (List Node) :=
  if !initOK s then none
  else
    let a := supAssign s X r
    if activeResolved s.sup a then some (closure s.sup a) else none

end Adsg
