/-
  Adsg.Model.ConnGraph — connection choices at graph level: which connectors exist in an
  architecture, the resulting existence pattern (absent connectors, grouping-node overrides), the valid
  connection sets per architecture and the edges an applied connection set produces.

  Model of: graph/adsg_nodes.py ConnectionChoiceNode.get_assignment_encoding_args / _get_assign_nodes /
  to_assign_node, ConnectorDegreeGroupingNode.get_combined_deg / get_repeated_allowed,
  graph/choices.py get_mod_apply_connection_choice.
-/
import Adsg.Model.Graph
import Adsg.Model.Conn
namespace Adsg

/-- A connector as the connection choice sees it. `members ≠ []` makes it a degree-grouping node over
    these member connectors (each a graph node with its own degree specification); then `deg`/`rep` of
    the entry itself are derived (`groupDeg`, `groupRep`). -/
structure Connector where
  node : Node
  deg : Deg := .list []
  rep : Bool := false
  members : List (Node × Deg × Bool) := []
deriving Repr, Inhabited

structure ConnChoice where
  src : List Connector
  tgt : List Connector
  excluded : List (Nat × Nat) := []
deriving Repr, Inhabited

/-- Minimum of a degree specification. -/
def Deg.minDeg : Deg → Nat
  | .list ds => ds.foldl min (ds.headD 0)
  | .atLeast m => m

def sumSets : List (List Nat) → List Nat
  | [] => [0]
  | l :: ls => dedup ((l.flatMap (fun a => (sumSets ls).map (a + ·))))

/-- `get_combined_deg`: all sums of one allowed degree per member; open-ended as soon as one member
    is open-ended (minimum = sum of the minima). -/
def combinedDeg (ms : List Deg) : Deg :=
  if ms.any (fun d => match d with | .atLeast _ => true | .list _ => false) then
    .atLeast ((ms.map Deg.minDeg).sum)
  else .list (sortNat (sumSets (ms.map (fun d => match d with | .list ds => ds | .atLeast _ => []))))

def Connector.isGroup (c : Connector) : Bool := !c.members.isEmpty

/-- Degree specification / repeat flag of an entry in the *base* settings (all members present). -/
def Connector.baseDeg (c : Connector) : Deg :=
  if c.isGroup then combinedDeg (c.members.map (·.2.1)) else c.deg
def Connector.baseRep (c : Connector) : Bool :=
  if c.isGroup then c.members.any (·.2.2) else c.rep

def toCNode (c : Connector) : CNode := { deg := c.baseDeg, rep := c.baseRep }

/-- `_get_assign_nodes`: base settings of a connection choice. -/
def baseSettings (k : ConnChoice) : ConnSettings :=
  { src := k.src.map toCNode, tgt := k.tgt.map toCNode, excluded := k.excluded }

/-- Override entry of one connector for the architecture with node set `X`
    (`_exist_process`): absent ⇒ `[0]`; grouping node ⇒ combined degree of the present members, an
    open-ended one truncated to `[min … nMax]`; otherwise no override. -/
def overrideOf (X : List Node) (c : Connector) (nMax : Nat) : Option (List Nat) :=
  if !X.contains c.node then some [0]
  else if c.isGroup then
    match combinedDeg ((c.members.filter (fun m => X.contains m.1)).map (·.2.1)) with
    | .list ds => some ds
    | .atLeast m => some ((List.range (nMax + 1)).filter (m ≤ ·))
  else none

/-- The existence pattern of connection choice `k` in the architecture with node set `X`. -/
def existenceOf (X : List Node) (k : ConnChoice) : Existence :=
  let mx := maxMat (baseSettings k) {}
  { srcOv := (List.range k.src.length).map (fun i => overrideOf X (k.src.getD i default) ((mx.getD i []).sum)),
    tgtOv := (List.range k.tgt.length).map (fun j => overrideOf X (k.tgt.getD j default) (colSum mx j)) }

/-- The connection choice node exists iff one of its source connectors does. -/
def connPresent (X : List Node) (k : ConnChoice) : Bool := k.src.any (fun c => X.contains c.node)

/-- Repeat flag of an entry in the architecture with node set `X`: a grouping node allows repeated
    connections iff one of its *present* members does (`update_deg` on the instance graph). The
    processor's existence patterns cannot express this (they only override degrees) and keep the flag of
    all members – known finding KF-C11-grouping-repeat-flag. -/
def Connector.repIn (X : List Node) (c : Connector) : Bool :=
  if c.isGroup then (c.members.filter (fun m => X.contains m.1)).any (·.2.2) else c.rep

/-- Settings of choice `k` as they hold in the architecture with node set `X` (degrees are taken care
    of by the existence pattern, the repeat flags here). -/
def settingsIn (X : List Node) (k : ConnChoice) : ConnSettings :=
  { src := k.src.map (fun c => { deg := c.baseDeg, rep := c.repIn X }),
    tgt := k.tgt.map (fun c => { deg := c.baseDeg, rep := c.repIn X }),
    excluded := k.excluded }

/-- The valid connection sets of choice `k` in the architecture with node set `X` (specification). -/
def connSets (X : List Node) (k : ConnChoice) : List Matrix :=
  enumSpec (settingsIn X k) (existenceOf X k)

/-- The connection sets the *graph-level* API offers on the resolved graph
    (`ConnectionChoiceNode.iter_conn_edges` / `validate_conn_edges`, via `_get_assign_nodes` on the
    instance graph): absent connectors do not take part, a grouping node carries the combined degree of
    its present members (an open-ended one stays open-ended, so – unlike in the processor's override
    list – it does not raise the implementation-defined parallel-connection cap). -/
def settingsGraph (X : List Node) (k : ConnChoice) : ConnSettings :=
  let f := fun (c : Connector) =>
    if !X.contains c.node then ({ deg := .list [0], rep := c.repIn X } : CNode)
    else if c.isGroup then
      { deg := combinedDeg ((c.members.filter (fun m => X.contains m.1)).map (·.2.1)), rep := c.repIn X }
    else { deg := c.deg, rep := c.rep }
  { src := k.src.map f, tgt := k.tgt.map f, excluded := k.excluded }

def connSetsGraph (X : List Node) (k : ConnChoice) : List Matrix := enumSpec (settingsGraph X k) {}

/-- What the processor's pattern-based enumeration yields (repeat flags of the base settings). -/
def connSetsProc (X : List Node) (k : ConnChoice) : List Matrix :=
  enumSpec (baseSettings k) (existenceOf X k)

/-- Edges (source entry index, target entry index), with multiplicity, of a connection matrix
    (`get_conn_idx`). -/
def edgesOf (M : Matrix) : List (Nat × Nat) :=
  (List.range M.length).flatMap (fun i =>
    let row := M.getD i []
    (List.range row.length).flatMap (fun j => List.replicate (row.getD j 0) (i, j)))

/-- Number of (i, j) edges in an edge list. -/
def countEdge (es : List (Nat × Nat)) (i j : Nat) : Nat := (es.filter (· == (i, j))).length

end Adsg
