/-
  Adsg.Model.Constraints — exact models of the three index functions of graph/choice_constraints.py:
  get_constraint_removed_options, get_constraint_pre_removed_options, get_valid_idx_combinations.
  Options are identified with their positions in the constraint's original option lists.
-/
import Adsg.Model.Graph
namespace Adsg

/-- The pairwise relation the documentation states: choice `i` takes index `j`, choice `i'` takes
    index `j'` (positions in constraint order). -/
def Rcons (ty : ConsType) (i j i' j' : Nat) : Bool :=
  match ty with
  | .linked          => j == j'
  | .permutation     => j != j'
  | .unordered       => if i < i' then j ≤ j' else if i' < i then j' ≤ j else true
  | .unorderedNorepl => if i < i' then j < j' else if i' < i then j' < j else true

/-- `get_constraint_removed_options`: option positions removed from choice `i` (which has `n`
    options) after choice `iTaken` took option position `jChosen`. -/
def removedFrom (ty : ConsType) (n i iTaken jChosen : Nat) : List Nat :=
  let enough := decide (jChosen + 1 ≤ n)      -- len(options)-1 >= i_chosen_option
  match ty with
  | .linked =>
    if enough then (List.range n).filter (· != jChosen) else List.range (n - 1)
  | .permutation =>
    if enough then [jChosen] else []
  | .unordered =>
    if i < iTaken then (List.range n).filter (fun j => jChosen + 1 ≤ j)
    else (List.range n).filter (fun j => j < jChosen)
  | .unorderedNorepl =>
    if i < iTaken then (List.range n).filter (fun j => jChosen ≤ j)
    else (List.range n).filter (fun j => j < jChosen + 1)

/-- The full result: for every other choice with a non-empty removal, (choice position, removed). -/
def removedOptions (ty : ConsType) (nOpts : List Nat) (iTaken jChosen : Nat) : List (Nat × List Nat) :=
  ((List.range nOpts.length).filter (· != iTaken)).filterMap (fun i =>
    let r := removedFrom ty (nOpts.getD i 0) i iTaken jChosen
    if r.isEmpty then none else some (i, r))

/-- `get_constraint_pre_removed_options`; `permanent[i]` = choice `i` is permanent (initially active). -/
def preRemovedP (ty : ConsType) (nOpts : List Nat) (permanent : List Bool) : List (Nat × List Nat) :=
  let m := nOpts.length
  let nPerm := (permanent.filter id).length
  let nMax := nOpts.foldl max 0
  if ty == .permutation && decide (nMax < nPerm) then
    (List.range m).map (fun i => (i, List.range (nOpts.getD i 0)))
  else if ty == .unorderedNorepl && permanent.all id then
    (List.range m).map (fun i =>
      let n := nOpts.getD i 0
      let iEnd : Int := (n : Int) - ((m : Int) - ((i : Int) + 1))
      (i, (List.range n).filter (fun j => decide (j < i) || decide (iEnd ≤ (j : Int)))))
  else []

/-- All choices permanent / none permanent. -/
def preRemoved (ty : ConsType) (nOpts : List Nat) (allPermanent : Bool) : List (Nat × List Nat) :=
  preRemovedP ty nOpts (List.replicate nOpts.length allPermanent)

def chainB (r : Nat → Nat → Bool) : List Nat → Bool
  | [] => true
  | [_] => true
  | x :: y :: rest => r x y && chainB r (y :: rest)

/-- `get_valid_idx_combinations` for one row (`none` = −1 = inactive), given the number of columns. -/
def validIdxRow (ty : ConsType) (allPermanent : Bool) (v : List (Option Nat)) : Bool :=
  if v.length ≤ 1 then true else
  let act := v.filterMap id
  match ty with
  | .linked => if act.length ≤ 1 then true else act.all (· == act.headD 0)
  | .permutation => pairwiseB (fun a b => a != b) act
  | .unordered => if act.length ≤ 1 then true else chainB (fun a b => a ≤ b) act
  | .unorderedNorepl =>
    if act.length ≤ 1 then true
    else if allPermanent then chainB (fun a b => a ≤ b) act else chainB (fun a b => a < b) act

/-- Sequential application: take the choices in the order `order` (positions), each time an option
    that has not been removed by the picks made so far; `v` = option position per choice. Accepted
    iff no pick was removed by an earlier one. -/
def seqAccepted (ty : ConsType) (nOpts : List Nat) (v : List Nat) : List Nat → List Nat → Bool
  | [], _ => true
  | i :: rest, done =>
    done.all (fun i0 => !(removedFrom ty (nOpts.getD i 0) i i0 (v.getD i0 0)).contains (v.getD i 0)) &&
    seqAccepted ty nOpts v rest (i :: done)

end Adsg
