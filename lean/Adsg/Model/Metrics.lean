/-
  Adsg.Model.Metrics — classification and evaluation of metric nodes.
  Model of: GraphProcessor._get_metrics/_categorize_metrics (optimization/graph_processor.py:380-437),
  DSGEvaluator.evaluate (optimization/evaluator.py:53-74).
-/
import Adsg.Model.Graph
namespace Adsg

/-- `MetricType` flag as declared on a node (`none` = no declaration, i.e. `type_=None`). -/
inductive MType | none_ | objective | constraint | objOrCon
deriving Repr, DecidableEq, Inhabited

structure Metric where
  name   : Nat            -- metrics are sorted by name; names are distinct naturals here
  node   : Node
  hasDir : Bool
  hasRef : Bool
  decl   : Option MType
deriving Repr, DecidableEq, Inhabited

def canObj (perm : List Node) (m : Metric) : Bool := m.hasDir && perm.contains m.node
def canCon (m : Metric) : Bool := m.hasDir && m.hasRef

/-- `_get_metrics`: the flag computed for one metric. -/
def metricType (perm : List Node) (m : Metric) : MType :=
  if m.decl = some .none_ then .none_
  else
    let t := match canObj perm m, canCon m with
      | true, true => MType.objOrCon
      | true, false => .objective
      | false, true => .constraint
      | false, false => .none_
    match t, m.decl with
    | .objOrCon, some d => d
    | t, _ => t

/-- Role after `_categorize_metrics` with the evaluator's `_choose_metric_type` (which raises). -/
inductive Role | unused | objective | constraint | ambiguous
deriving Repr, DecidableEq, Inhabited

def roleOf (perm : List Node) (m : Metric) : Role :=
  match metricType perm m with
  | .none_ => .unused
  | .objective => .objective
  | .constraint => .constraint
  | .objOrCon => .ambiguous

/-- sort metrics by name (insertion sort; names distinct). -/
def insertMetric (m : Metric) : List Metric → List Metric
  | [] => [m]
  | y :: ys => if m.name ≤ y.name then m :: y :: ys else y :: insertMetric m ys
def sortMetrics (l : List Metric) : List Metric := l.foldr insertMetric []

/-- `objectives` / `constraints`, or `none` when an ambiguous metric makes classification raise. -/
def classify (perm : List Node) (ms : List Metric) : Option (List Metric × List Metric) :=
  let s := sortMetrics ms
  if s.any (fun m => roleOf perm m == .ambiguous) then none
  else some (s.filter (fun m => roleOf perm m == .objective),
             s.filter (fun m => roleOf perm m == .constraint))

/-- A value reported by `evaluate`. -/
inductive MVal | given (i : Nat) | nan | ref
deriving Repr, DecidableEq, Inhabited

/-- `evaluate` for an architecture with node set `arch`; `vals` is the evaluator's (partial) map
    from metric name to an opaque value id. -/
def lookupVal (vals : List (Nat × Nat)) (name : Nat) : MVal :=
  match vals.find? (·.1 = name) with
  | some p => .given p.2
  | none => .nan

def evaluate (arch : List Node) (objs cons : List Metric) (vals : List (Nat × Nat)) :
    List MVal × List MVal :=
  (objs.map (fun m => lookupVal vals m.name),
   cons.map (fun m => if arch.contains m.node then lookupVal vals m.name else .ref))

end Adsg
