/-
  C08 — Design space graphs behave as persistent values.
  Model: Adsg/Model/Heap.lean (graph objects = owned state + shared node-object cells; `step` = the
  code as it is, `stepStale` = the feasibility read before fix 65e11cd). Helper lemmas: Adsg/Proofs/Heap.lean.
-/
import Adsg.Model.Heap
import Adsg.Proofs.Heap
namespace Adsg.C08
open Adsg Adsg.Heap

/-- **Persistence**: for EVERY history of derivations (copy, apply a choice, constrain on a copy, decode
    from a processor - each constructing a new object and thereby re-writing the shared cells) and looks,
    started in any world, a look at an object that existed in that world reports the pure function of
    what the object owns - whatever was derived or looked at in between, and however often. -/
theorem looks_are_pure (w : World) (acts : List Act) (hw : ∀ o ∈ w.objs, o.WF = true)
    (ha : ∀ src nw, Act.derive src nw ∈ acts → nw.WF = true)
    (i : Nat) (o : Own) (hio : w.objs[i]? = some o) (k : Nat) (hk : acts[k]? = some (Act.look i)) :
    (run w acts).2[k]? = some (some (pureObs o)) :=
  looks_pure acts w hw ha i o hio k hk

/-- Two looks at the same existing object report the same, whatever happened in between. -/
theorem observation_stable (w : World) (acts : List Act) (hw : ∀ o ∈ w.objs, o.WF = true)
    (ha : ∀ src nw, Act.derive src nw ∈ acts → nw.WF = true)
    (i : Nat) (hi : i < w.objs.length) (k₁ k₂ : Nat)
    (h₁ : acts[k₁]? = some (Act.look i)) (h₂ : acts[k₂]? = some (Act.look i)) :
    (run w acts).2[k₁]? = (run w acts).2[k₂]? := by
  obtain ⟨o, ho⟩ : ∃ o, w.objs[i]? = some o := ⟨w.objs[i], by simp [hi]⟩
  rw [looks_pure acts w hw ha i o ho k₁ h₁, looks_pure acts w hw ha i o ho k₂ h₂]

/-- Deriving never changes what existing objects own: the list of objects only grows. -/
theorem objects_append_only (w : World) (a : Act) (i : Nat) (hi : i < w.objs.length) :
    (step w a).1.objs[i]? = w.objs[i]? :=
  step_objs_prefix w a i hi

/-- What a look reports does not depend on the shared cells at all. -/
theorem look_ignores_cells (o : Own) (hw : o.WF = true) (c c' : Cells) :
    degOK o (sync o c) = degOK o (sync o c') :=
  degOK_sync_own o hw c c'

/-- Without the re-synchronisation before the read (the code before fix 65e11cd) persistence is FALSE:
    graph A (a grouping node with two members of degree 1, connected twice) is feasible; after deriving
    graph B in which only one member is left, a look at A reports infeasible. -/
def exA : Own := { groups := [(0, [.list [1], .list [1]])], conns := [(0, 2)], rest := 7 }
def exB : Own := { groups := [(0, [.list [1]])], conns := [(0, 1)], rest := 8 }
def exW : World := { objs := [exA], cells := sync exA [] }

theorem stale_read_not_persistent :
    exA.WF = true ∧ exB.WF = true ∧
    (runStale exW [.look 0, .derive 0 exB, .look 0]).2 = [some (7, true), none, some (7, false)] ∧
    (run exW [.look 0, .derive 0 exB, .look 0]).2 = [some (7, true), none, some (7, true)] := by
  decide

/-- The stale read was persistent exactly where no grouping connector is involved. -/
theorem stale_read_persistent_without_groups (w : World) (a : Act) (i : Nat) (o : Own)
    (hio : w.objs[i]? = some o) (hng : o.conns = []) :
    (stepStale w (.look i)).2 = some (pureObs o) ∧
    (stepStale (stepStale w a).1 (.look i)).2 = some (pureObs o) := by
  have hlt : i < w.objs.length := by
    rcases Nat.lt_or_ge i w.objs.length with h | h
    · exact h
    · rw [List.getElem?_eq_none h] at hio; cases hio
  have h2 : (stepStale w a).1.objs[i]? = some o := by
    cases a with
    | derive src nw =>
      simp only [stepStale]; split
      · simp [List.getElem?_append_left hlt, hio]
      · exact hio
    | look j => simp only [stepStale]; split <;> exact hio
  have key : ∀ w' : World, w'.objs[i]? = some o → (stepStale w' (.look i)).2 = some (pureObs o) := by
    intro w' h
    simp [stepStale, h, pureObs, degOK, hng]
  exact ⟨key w hio, key _ h2⟩

/-! Non-vacuity: a history in which the shared cell is rewritten between two looks. -/
example : (run exW [.look 0, .derive 0 exB, .look 1, .look 0]).2 =
    [some (7, true), none, some (8, true), some (7, true)] := by decide
example : (run exW [.derive 0 exB]).1.cells.get 0 = some (.list [1]) := by decide

end Adsg.C08
