/-
  C19 — The time limiter returns, raises or times out – and leaves nothing running.
  Safety of the two-thread protocol (Adsg/Model/TimeLimiter.lean) for every behaviour of `f` and every
  interleaving; liveness is NOT claimed (see `may_block`).
-/
import Adsg.Model.TimeLimiter
import Adsg.Proofs.TimeLimiter
namespace Adsg.C19
open Adsg.TL

/-- In every reachable state in which `run_timeout` has returned or raised, the worker is not
    executing `f`, and no asynchronous exception was ever made pending on the calling thread. -/
theorem no_worker_running_at_return (acts : List Act) (s : St) (h : run init acts = some s) :
    (∀ o, s.m = .done o → wInF s.w = false) ∧ s.pendingM = false := by
  exact ⟨fun o hd => inv_wInF (reach_inv h) o hd, (reach_inv h).1⟩

/-- Outcome trichotomy: a returned value comes from an `f` that finished with that value, a re-raised
    exception from an `f` that raised it, anything else is a timeout – in which case the worker thread
    has ended (finished late, was killed, or never ran `f`). -/
theorem outcome_trichotomy (acts : List Act) (s : St) (h : run init acts = some s) (o : Outcome)
    (hd : s.m = .done o) :
    (o = .ret → s.w = .finished true) ∧ (o = .raise → s.w = .finished false) ∧
    (o = .timeout → wAlive s.w = false) := by
  exact (reach_inv h).2 o hd

/-- A timeout is only ever reported after the timed wait expired. -/
theorem timeout_only_after_expiry (acts : List Act) (s : St) (h : run init acts = some s)
    (hd : s.m = .done .timeout) : Act.mExpire ∈ acts := by
  exact timeout_mem_expire h hd

/-- Once returned, nothing changes the caller's outcome (no late interrupt can surface in it). -/
theorem outcome_stable (acts more : List Act) (s s' : St) (o : Outcome) (h : run init acts = some s)
    (hd : s.m = .done o) (h' : run s more = some s') : s'.m = .done o ∧ wInF s'.w = false := by
  have hi := reach_inv h
  rw [run_done_eq hi o hd h']
  exact ⟨hd, inv_wInF hi o hd⟩

/-- The exception is only injected while the worker thread is alive, and only into the worker. -/
theorem inject_targets_live_worker (s s' : St) (h : step s .mInject = some s') :
    wAlive s.w = true ∧ s'.pendingW = true ∧ s'.pendingM = s.pendingM := by
  simp only [step] at h
  split at h
  · rename_i hc
    cases h
    exact ⟨hc.2, rfl, rfl⟩
  · cases h

-- (`h` is not needed: `trace` stops at the first disabled action, so the claim holds for every `acts`.)
set_option linter.unusedVariables false in
/-- Every observable trace of the protocol is accepted by the automaton the correspondence check runs
    on the traces recorded from the real implementation (so that check never rejects protocol
    behaviour), for every behaviour of `f` and every interleaving. -/
theorem protocol_traces_accepted (acts : List Act) (s : St) (h : run init acts = some s) :
    obsAccepts (trace init acts) = true := by
  exact trace_init_accepted acts

/-- The automaton rejects a return while `f` is running, a value without a finished `f`, and an `f`
    that starts after the call has returned. -/
theorem automaton_rejects_unsafe :
    obsAccepts [.fStart, .ret .timeout] = false ∧ obsAccepts [.fStart, .ret .ret] = false ∧
    obsAccepts [.ret .timeout, .fStart] = false ∧ obsAccepts [.fStart, .fEnd false, .ret .ret] = false := by
  decide

/-- Liveness is not guaranteed: an `f` that swallows the injected exception keeps the caller blocked
    in `join` until `f` ends by itself (late but safe). -/
theorem may_block :
    ∃ s, run init [.wStart 1, .mExpire, .mInject, .wDeliver] = some s ∧ s.m = .injected ∧
      step s .mJoin = none ∧ wInF s.w = true := by
  refine ⟨_, rfl, ?_, ?_, ?_⟩ <;> decide

/-! Non-vacuity -/
example : (run init [.wStart 0, .wFinish true, .mGet]).map (·.m) = some (.done .ret) := by decide
example : (run init [.wStart 0, .mExpire, .mInject, .wDeliver, .mJoin]).map (·.m) = some (.done .timeout) := by decide
example : obsAccepts (trace init [.wStart 0, .mExpire, .mInject, .wDeliver, .mJoin]) = true := by decide
example : trace init [.wStart 0, .mExpire, .mInject, .wDeliver, .mJoin] = [.fStart, .fKilled, .ret .timeout] := by decide

end Adsg.C19
