/-
  C19 — The time limiter returns, raises or times out – and leaves nothing running.
  Safety of the two-thread protocol (Adsg/Model/TimeLimiter.lean) for every behaviour of `f` and every
  interleaving; liveness is NOT claimed (see `may_block`).
-/
import Adsg.Model.TimeLimiter
import Adsg.Proofs.TimeLimiter
namespace Adsg.C19
open Adsg.TL

/-- In every reachable state in which `run_timeout` has returned or raised, the worker is not
    executing `f`, and no asynchronous exception was ever made pending on the calling thread. -/
theorem no_worker_running_at_return (acts : List Act) (s : St) (h : run init acts = some s) :
    (∀ o, s.m = .done o → wInF s.w = false) ∧ s.pendingM = false := by
  exact ⟨fun o hd => inv_wInF (reach_inv h) o hd, (reach_inv h).1⟩

/-- Outcome trichotomy: a returned value comes from an `f` that finished with that value, a re-raised
    exception from an `f` that raised it, anything else is a timeout – in which case the worker thread
    has ended (finished late, was killed, or never ran `f`). -/
theorem outcome_trichotomy (acts : List Act) (s : St) (h : run init acts = some s) (o : Outcome)
    (hd : s.m = .done o) :
    (o = .ret → s.w = .finished true) ∧ (o = .raise → s.w = .finished false) ∧
    (o = .timeout → wAlive s.w = false) := by
  exact (reach_inv h).2 o hd

/-- A timeout is only ever reported after the timed wait expired. -/
theorem timeout_only_after_expiry (acts : List Act) (s : St) (h : run init acts = some s)
    (hd : s.m = .done .timeout) : Act.mExpire ∈ acts := by
  exact timeout_mem_expire h hd

/-- Once returned, nothing changes the caller's outcome (no late interrupt can surface in it). -/
theorem outcome_stable (acts more : List Act) (s s' : St) (o : Outcome) (h : run init acts = some s)
    (hd : s.m = .done o) (h' : run s more = some s') : s'.m = .done o ∧ wInF s'.w = false := by
  have hi := reach_inv h
  rw [run_done_eq hi o hd h']
  exact ⟨hd, inv_wInF hi o hd⟩

/-- The exception is only injected while the worker thread is alive, and only into the worker. -/
theorem inject_targets_live_worker (s s' : St) (h : step s .mInject = some s') :
    wAlive s.w = true ∧ s'.pendingW = true ∧ s'.pendingM = s.pendingM := by
  simp only [step] at h
  split at h
  · rename_i hc
    cases h
    exact ⟨hc.2, rfl, rfl⟩
  · cases h

-- (`h` is not needed: `trace` stops at the first disabled action, so the claim holds for every `acts`.)
set_option linter.unusedVariables false in
/-- Every observable trace of the protocol is accepted by the automaton the correspondence check runs
    on the traces recorded from the real implementation (so that check never rejects protocol
    behaviour), for every behaviour of `f` and every interleaving. -/
theorem protocol_traces_accepted (acts : List Act) (s : St) (h : run init acts = some s) :
    obsAccepts (trace init acts) = true := by
  exact trace_init_accepted acts

/-- The automaton rejects a return while `f` is running, a value without a finished `f`, and an `f`
    that starts after the call has returned. -/
theorem automaton_rejects_unsafe :
    obsAccepts [.fStart, .ret .timeout] = false ∧ obsAccepts [.fStart, .ret .ret] = false ∧
    obsAccepts [.ret .timeout, .fStart] = false ∧ obsAccepts [.fStart, .fEnd false, .ret .ret] = false := by
  decide

/-- Liveness is not guaranteed: an `f` that swallows the injected exception keeps the caller blocked
    in `join` until `f` ends by itself (late but safe). -/
theorem may_block :
    ∃ s, run init [.wStart 1, .mExpire, .mInject, .wDeliver] = some s ∧ s.m = .injected ∧
      step s .mJoin = none ∧ wInF s.w = true := by
  refine ⟨_, rfl, ?_, ?_, ?_⟩ <;> decide

/-! #### The trace automaton is itself safe: what it accepts has nothing running at return -/

/-- Net number of workers inside `f` contributed by an observed event sequence. -/
def openCount : List Obs → Int
  | [] => 0
  | .fStart :: r => 1 + openCount r
  | .fEnd _ :: r => -1 + openCount r
  | .fKilled :: r => -1 + openCount r
  | .ret _ :: r => openCount r

private theorem go_balanced (o : Outcome) (post : List Obs) :
    ∀ (pre : List Obs) (ph : Nat) (r : Bool), obsAccepts.go ph r (pre ++ .ret o :: post) = true →
      (if ph = 1 then (1 : Int) else 0) + openCount pre = 0 := by
  intro pre
  induction pre with
  | nil =>
    intro ph r h
    simp only [List.nil_append, obsAccepts.go, Bool.and_eq_true, bne_iff_ne, ne_eq] at h
    simp [openCount, h.1.1.2]
  | cons e pre ih =>
    intro ph r h
    cases e with
    | fStart =>
      simp only [List.cons_append, obsAccepts.go, Bool.and_eq_true, beq_iff_eq] at h
      have := ih 1 r h.2
      simp only [openCount, h.1.1]
      simp at this ⊢; omega
    | fEnd ok =>
      simp only [List.cons_append, obsAccepts.go, Bool.and_eq_true, beq_iff_eq] at h
      have := ih _ r h.2
      simp only [openCount, h.1]
      cases ok <;> simp at this ⊢ <;> omega
    | fKilled =>
      simp only [List.cons_append, obsAccepts.go, Bool.and_eq_true, beq_iff_eq] at h
      have := ih 4 r h.2
      simp only [openCount, h.1]
      simp at this ⊢; omega
    | ret o' =>
      simp only [List.cons_append, obsAccepts.go, Bool.and_eq_true] at h
      have := ih ph true h.2
      simpa [openCount] using this

/-- **Accepted observed traces are safe**: whenever the caller gets control back (`ret o`) in a trace
    the automaton accepts, every `f_start` seen so far has been matched by an `f_end` / `f_killed` –
    no worker is inside `f` at that moment. (Unbounded: any prefix, any suffix.) -/
theorem accepted_trace_nothing_running (pre post : List Obs) (o : Outcome)
    (h : obsAccepts (pre ++ .ret o :: post) = true) : openCount pre = 0 := by
  have := go_balanced o post pre 0 false h
  simpa using this

private theorem go_true_no_ret (o : Outcome) (post : List Obs) :
    ∀ (l : List Obs) (ph : Nat), obsAccepts.go ph true (l ++ .ret o :: post) = false := by
  intro l
  induction l with
  | nil => intro ph; simp [obsAccepts.go]
  | cons e l ih =>
    intro ph
    cases e <;> simp [obsAccepts.go, ih]

private theorem go_two_rets (o o' : Outcome) (mid post : List Obs) :
    ∀ (pre : List Obs) (ph : Nat) (r : Bool),
      obsAccepts.go ph r (pre ++ (.ret o :: (mid ++ (.ret o' :: post)))) = false := by
  intro pre
  induction pre with
  | nil => intro ph r; simp [obsAccepts.go, go_true_no_ret]
  | cons e pre ih =>
    intro ph r
    cases e <;> simp [obsAccepts.go, ih]

/-- … and the caller gets control back at most once per call: a trace with two returns is rejected. -/
theorem accepted_trace_single_return (pre mid post : List Obs) (o o' : Outcome) :
    obsAccepts (pre ++ (.ret o :: (mid ++ (.ret o' :: post)))) = false :=
  go_two_rets o o' mid post pre 0 false

/-! Non-vacuity -/
example : (run init [.wStart 0, .wFinish true, .mGet]).map (·.m) = some (.done .ret) := by decide
example : (run init [.wStart 0, .mExpire, .mInject, .wDeliver, .mJoin]).map (·.m) = some (.done .timeout) := by decide
example : obsAccepts (trace init [.wStart 0, .mExpire, .mInject, .wDeliver, .mJoin]) = true := by decide
example : trace init [.wStart 0, .mExpire, .mInject, .wDeliver, .mJoin] = [.fStart, .fKilled, .ret .timeout] := by decide
example : obsAccepts ([.fStart, .fKilled] ++ .ret .timeout :: []) = true ∧ openCount [.fStart, .fKilled] = 0 := by decide

end Adsg.C19
