/-
  C11 — Connection choices respect connectors in every existence scenario.
  Model: Adsg/Model/ConnGraph.lean on top of Conn.lean (C09). Helper lemmas: Adsg/Proofs/ConnGraph.lean.
-/
import Adsg.Model.ConnGraph
import Adsg.Proofs.Conn
import Adsg.Proofs.ConnGraph
namespace Adsg.C11
open Adsg

/- `SumOf ms d` (`d` is a sum of one allowed degree per member) and `NonEmptyLists ms` (every explicit
   degree list is non-empty; the constructor of connector nodes guarantees it) are defined in
   `Adsg/Proofs/ConnGraph.lean`:
     def SumOf : List Deg → Nat → Prop
       | [], d => d = 0
       | m :: ms, d => ∃ a b, m.allows a = true ∧ SumOf ms b ∧ d = a + b
     def NonEmptyLists (ms : List Deg) : Prop := ∀ m ∈ ms, ∀ ds, m = .list ds → ds ≠ [] -/
example : SumOf [.list [0, 2], .atLeast 1] 3 ∧ ¬ SumOf [.list [0, 2], .list [1]] 2 := by
  simp [SumOf, Deg.allows]

/-- **A grouping connector accepts exactly the sums of its members' allowed degrees.** -/
theorem combinedDeg_exact (ms : List Deg) (h : NonEmptyLists ms) (d : Nat) :
    (combinedDeg ms).allows d = true ↔ SumOf ms d :=
  combinedDeg_allows_iff ms h d

/-- The valid connection sets of an architecture are exactly the matrices valid for the settings and
    existence pattern of that architecture, each once. -/
theorem connSets_exact (X : List Node) (k : ConnChoice) (M : Matrix) :
    M ∈ connSets X k ↔ validMatrix (settingsIn X k) (existenceOf X k) M = true :=
  mem_enumSpec _ _ M

theorem connSets_nodup (X : List Node) (k : ConnChoice) : (connSets X k).Nodup :=
  nodup_enumSpec' _ _

/-- An absent source connector gets no connection … -/
theorem absent_source_unconnected (X : List Node) (k : ConnChoice) (M : Matrix) (hM : M ∈ connSets X k)
    (i : Nat) (hi : i < k.src.length) (habs : (k.src.getD i default).node ∉ X) :
    (M.getD i []).sum = 0 :=
  valid_absent_source ((mem_enumSpec _ _ M).1 hM) hi habs

/-- … and an absent target connector neither. -/
theorem absent_target_unconnected (X : List Node) (k : ConnChoice) (M : Matrix) (hM : M ∈ connSets X k)
    (j : Nat) (hj : j < k.tgt.length) (habs : (k.tgt.getD j default).node ∉ X) :
    colSum M j = 0 :=
  valid_absent_target ((mem_enumSpec _ _ M).1 hM) hj habs

/-- Excluded pairs never occur. -/
theorem excluded_pair_unconnected (X : List Node) (k : ConnChoice) (M : Matrix) (hM : M ∈ connSets X k)
    (i j : Nat) (hex : (i, j) ∈ k.excluded) : (M.getD i []).getD j 0 = 0 :=
  valid_excluded ((mem_enumSpec _ _ M).1 hM) hex

/-- Parallel connections occur only where both connectors allow repeated connections (for a grouping
    connector: one of its present members does). -/
theorem no_forbidden_parallel (X : List Node) (k : ConnChoice) (M : Matrix) (hM : M ∈ connSets X k)
    (i j : Nat) (hi : i < k.src.length) (hj : j < k.tgt.length)
    (hrep : ((k.src.getD i default).repIn X && (k.tgt.getD j default).repIn X) = false) :
    (M.getD i []).getD j 0 ≤ 1 :=
  valid_no_parallel ((mem_enumSpec _ _ M).1 hM) hi hj hrep

/-- A present plain (non-grouping) source connector gets an allowed number of connections. -/
theorem present_source_degree (X : List Node) (k : ConnChoice) (M : Matrix) (hM : M ∈ connSets X k)
    (i : Nat) (hi : i < k.src.length) (hp : (k.src.getD i default).node ∈ X)
    (hg : (k.src.getD i default).isGroup = false) :
    (k.src.getD i default).deg.allows ((M.getD i []).sum) = true :=
  valid_present_source ((mem_enumSpec _ _ M).1 hM) hi hp hg

/-- A present grouping source connector gets a sum of allowed degrees of its present members. -/
theorem group_source_degree (X : List Node) (k : ConnChoice) (M : Matrix) (hM : M ∈ connSets X k)
    (i : Nat) (hi : i < k.src.length) (hp : (k.src.getD i default).node ∈ X)
    (hg : (k.src.getD i default).isGroup = true)
    (hne : NonEmptyLists (((k.src.getD i default).members.filter (fun m => X.contains m.1)).map (·.2.1))) :
    SumOf (((k.src.getD i default).members.filter (fun m => X.contains m.1)).map (·.2.1)) ((M.getD i []).sum) :=
  valid_group_source ((mem_enumSpec _ _ M).1 hM) hi hp hg hne

/-- Without any present source connector (the connection choice does not exist in the architecture)
    the only candidate set is "no connections" – valid exactly when every present target accepts 0. -/
theorem no_source_only_zero (X : List Node) (k : ConnChoice) (M : Matrix) (hM : M ∈ connSets X k)
    (hnone : connPresent X k = false) : ∀ i j, (M.getD i []).getD j 0 = 0 :=
  valid_no_source ((mem_enumSpec _ _ M).1 hM) hnone

/-- Applying a connection set yields exactly its edges, with multiplicity. -/
theorem applyConn_edges (M : Matrix) (i j : Nat) : countEdge (edgesOf M) i j = (M.getD i []).getD j 0 :=
  countEdge_edgesOf M i j

/-! Non-vacuity -/
def exK : ConnChoice :=
  { src := [{ node := 9, members := [(3, .list [0, 1], false), (4, .atLeast 1, true)] }, { node := 5, deg := .list [1], rep := false }],
    tgt := [{ node := 6, deg := .atLeast 0, rep := true }, { node := 7, deg := .list [0, 1], rep := false }],
    excluded := [(1, 0)] }
example : combinedDeg [.list [0, 1], .atLeast 1] = .atLeast 1 := by decide
example : combinedDeg [.list [0, 2], .list [1, 2]] = .list [1, 2, 3, 4] := by decide
example : (existenceOf [3, 5, 6, 7, 9] exK).srcOv = [some [0, 1], none] := by decide
example : (connSets [3, 5, 6, 7, 9] exK).length = 2 := by decide
example : (connSets [3, 4, 5, 6, 9] exK).length = 0 := by decide
example : edgesOf [[2, 0], [0, 1]] = [(0, 0), (0, 0), (1, 1)] := by decide

end Adsg.C11
