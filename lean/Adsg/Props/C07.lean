/-
  C07 — Activeness and imputation follow one contract on every path.
  Model: Adsg/Model/Decode.lean (`decode` = the code as it is, `decodeRef` = reference manager semantics).
  Helper lemmas: Adsg/Proofs/Decode.lean, Adsg/Proofs/DecodeAct.lean. The manager-level clauses are C10's.
-/
import Adsg.Model.Decode
import Adsg.Proofs.DecodeAct
namespace Adsg.C07
open Adsg

/-- A selection variable is reported active only if its choice exists in the decoded architecture
    (its originating node is in the node set). -/
theorem sel_active_exists (P : Problem) (E : Enc) (h : EncOK P E) (x : List Int) (hx : x.length = E.nVars P)
    (j : Nat) (hj : j < E.selVars.length) (hact : (decode P E x).act.getD j false = true) :
    (P.g.sel.getD (E.selVars.getD j 0) default).origin ∈ decodeNodes P E x := by
  have _ := hx  -- not needed: holds for every vector
  exact decode_sel_active_exists h x j hj hact

/-- A connection variable is reported active only if its connection choice exists in the decoded
    architecture (one of its source connectors is present). `i` is the position in the whole vector,
    `k` the connection choice whose block contains `i`. -/
theorem conn_active_exists (P : Problem) (E : Enc) (h : EncOK P E) (x : List Int) (hx : x.length = E.nVars P)
    (k : Nat) (hk : k < P.conn.length) (i : Nat)
    (hlo : E.selVars.length + ((E.connNOpts.take k).map List.length).sum ≤ i)
    (hhi : i < E.selVars.length + ((E.connNOpts.take (k + 1)).map List.length).sum)
    (hact : (decode P E x).act.getD i false = true) :
    connPresent (decodeNodes P E x) (P.conn.getD k default) = true := by
  exact decode_conn_active_exists h x hx k hk i hlo hhi hact

/-- A design-variable-node variable is active exactly if the node exists in the decoded architecture. -/
theorem dv_active_iff_exists (P : Problem) (E : Enc) (h : EncOK P E) (x : List Int) (hx : x.length = E.nVars P)
    (i : Nat) (hi : i < P.dvs.length) :
    (decode P E x).act.getD (E.dvOff + i) false = true ↔ (P.dvs.getD i default).node ∈ decodeNodes P E x := by
  exact decode_dv_active_iff h x hx i hi

/-- **Every inactive variable is returned at its canonical value** (0 for discrete, mid-bounds for
    continuous), on every path (direct hit or imputed, any input values). -/
theorem inactive_canonical (P : Problem) (E : Enc) (h : EncOK P E) (x : List Int) (hx : x.length = E.nVars P)
    (i : Nat) (hi : i < E.nVars P) (hina : (decode P E x).act.getD i true = false) :
    (decode P E x).x.getD i 0 = (canonVals P E).getD i 0 := by
  exact decode_inactive_canonical h x hx i hi hina

/-- A design-variable node that exists in every feasible architecture (such a node is not flagged as
    conditionally active) is active in every decode. -/
theorem permanent_dv_always_active (P : Problem) (E : Enc) (h : EncOK P E)
    (i : Nat) (hi : i < P.dvs.length)
    (hperm : ∀ a, feasibleAssign P a = true → (P.dvs.getD i default).node ∈ closure P.g a)
    (x : List Int) (hx : x.length = E.nVars P) :
    (decode P E x).act.getD (E.dvOff + i) false = true := by
  exact decode_permanent_dv h x hx i hi hperm

/-- A selection choice whose originating node exists in every feasible architecture and which the
    encoder always shows is active in every decode. -/
theorem permanent_sel_always_active (P : Problem) (E : Enc) (h : EncOK P E)
    (j : Nat) (hj : j < E.selVars.length)
    (hperm : ∀ a, feasibleAssign P a = true → (P.g.sel.getD (E.selVars.getD j 0) default).origin ∈ closure P.g a)
    (hshown : ∀ r, (E.selShown r).getD j true = true)
    (x : List Int) (hx : x.length = E.nVars P) :
    (decode P E x).act.getD j false = true := by
  exact decode_permanent_sel h x hx j hj hperm hshown

/-- **One contract on every path (reference semantics)**: the activeness is a function of the
    corrected vector — whether a design was reached directly or by correction of another vector. -/
theorem activeness_of_corrected_ref (P : Problem) (E : Enc) (h : EncOK P E) (x y : List Int)
    (hx : x.length = E.nVars P) (hy : y.length = E.nVars P)
    (heq : (decodeRef P E x).x = (decodeRef P E y).x) :
    (decodeRef P E x).act = (decodeRef P E y).act := by
  exact decodeRef_act_of_corrected h x y hx hy heq

/-- The code as it is: the activeness of selection and design-variable-node variables is a function of
    the corrected vector … -/
theorem activeness_of_corrected_partial (P : Problem) (E : Enc) (h : EncOK P E) (x y : List Int)
    (hx : x.length = E.nVars P) (hy : y.length = E.nVars P)
    (heq : (decode P E x).x = (decode P E y).x)
    (i : Nat) (hi : i < E.selVars.length ∨ E.dvOff ≤ i) :
    (decode P E x).act.getD i false = (decode P E y).act.getD i false := by
  exact decode_act_of_corrected_partial h x y hx hy heq i hi

/-- … and differs from the reference activeness on connection variables only, … -/
theorem activeness_agrees_ref_outside_conn (P : Problem) (E : Enc) (h : EncOK P E) (x : List Int)
    (hx : x.length = E.nVars P) (i : Nat) (hi : i < E.selVars.length ∨ E.dvOff ≤ i) :
    (decode P E x).act.getD i false = (decodeRef P E x).act.getD i false := by
  exact decode_act_agrees_outside_conn h x hx i hi

/-- … where the full property is FALSE of the code as it is: two vectors corrected to the same vector
    are reported with different activeness (known finding KF-C07-eager-direct-hit-activeness). -/
theorem activeness_path_dependent :
    ∃ (P : Problem) (E : Enc) (x y : List Int), EncOK P E ∧ x.length = E.nVars P ∧ y.length = E.nVars P ∧
      (decode P E x).x = (decode P E y).x ∧ (decode P E x).act ≠ (decode P E y).act := by
  exact ⟨wP, wE, [0, 1], [0, 0], witness_path_dependent⟩

end Adsg.C07
