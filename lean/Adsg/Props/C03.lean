/-
  C03 — The corrected design vector is a canonical fixed point describing the instance.
  Model: Adsg/Model/Decode.lean. Helper lemmas: Adsg/Proofs/Decode.lean.
-/
import Adsg.Model.Decode
import Adsg.Proofs.Decode
namespace Adsg.C03
open Adsg

/-- The corrected vector lies inside the declared ranges. -/
theorem corrected_in_range (P : Problem) (E : Enc) (h : EncOK P E) (x : List Int) (hx : x.length = E.nVars P) :
    inBounds (declBounds P E) (decode P E x).x = true := by
  exact decode_in_range h x hx

/-- The code as it is and the reference semantics return the same corrected vector, design and values
    (only the activeness of connection variables can differ, see C10). -/
theorem decode_agrees_ref (P : Problem) (E : Enc) (h : EncOK P E) (x : List Int) (hx : x.length = E.nVars P) :
    (decode P E x).x = (decodeRef P E x).x ∧ (decode P E x).design = (decodeRef P E x).design ∧
    (decode P E x).vals = (decodeRef P E x).vals := by
  exact decode_agrees h x hx

/-- **Fixed point (reference semantics)**: decoding the corrected vector returns the same vector, the
    same activeness and the same architecture. -/
theorem decodeRef_idempotent (P : Problem) (E : Enc) (h : EncOK P E) (x : List Int) (hx : x.length = E.nVars P) :
    decodeRef P E (decodeRef P E x).x = decodeRef P E x := by
  exact decodeRef_idem h x hx

/-- Fixed point of the code as it is: vector, architecture and values (not the activeness). -/
theorem decode_idempotent_partial (P : Problem) (E : Enc) (h : EncOK P E) (x : List Int) (hx : x.length = E.nVars P) :
    (decode P E (decode P E x).x).x = (decode P E x).x ∧
    (decode P E (decode P E x).x).design = (decode P E x).design ∧
    (decode P E (decode P E x).x).vals = (decode P E x).vals := by
  exact decode_idem_partial h x hx

/-- The full fixed-point property is FALSE of the code as it is: the activeness of a connection
    variable can change when the corrected vector is decoded again (known finding
    KF-C03-eager-direct-hit-activeness). -/
theorem decode_activeness_not_idempotent :
    ∃ (P : Problem) (E : Enc) (x : List Int), EncOK P E ∧ x.length = E.nVars P ∧
      (decode P E (decode P E x).x).act ≠ (decode P E x).act := by
  exact ⟨wP, wE, [0, 1], witness_activeness⟩

/-- Equal corrected vectors denote the same architecture. -/
theorem corrected_determines_design (P : Problem) (E : Enc) (h : EncOK P E) (x y : List Int)
    (hx : x.length = E.nVars P) (hy : y.length = E.nVars P)
    (heq : (decode P E x).x = (decode P E y).x) :
    (decode P E x).design = (decode P E y).design ∧ (decode P E x).vals = (decode P E y).vals := by
  exact decode_design_of_corrected h x y hx hy heq

/-- **Two different corrected vectors never denote the same architecture.** -/
theorem design_determines_corrected (P : Problem) (E : Enc) (h : EncOK P E) (x y : List Int)
    (hx : x.length = E.nVars P) (hy : y.length = E.nVars P)
    (hd : (decode P E x).design = (decode P E y).design) (hv : (decode P E x).vals = (decode P E y).vals) :
    (decode P E x).x = (decode P E y).x := by
  exact decode_corrected_of_design h x y hx hy hd hv

/-- The vector describes the selection: an active selection variable holds the option index recorded
    for its choice in the architecture. -/
theorem sel_describes (P : Problem) (E : Enc) (h : EncOK P E) (x : List Int) (hx : x.length = E.nVars P)
    (j : Nat) (hj : j < E.selVars.length) (hact : (decode P E x).act.getD j false = true) :
    0 ≤ (decode P E x).x.getD j 0 ∧
    (decode P E x).design.row.getD (E.selVars.getD j 0) none = some ((decode P E x).x.getD j 0).toNat := by
  have _ := hx  -- not needed: holds for every vector
  exact decode_sel_describes h x j hj hact

/-- … and the option recorded in a row is the option node wired to the choice's originating node in
    the architecture. -/
theorem selected_option_wired (g : DSG) (a : Assign) (hadm : admissible g a = true) (c k : Nat)
    (hr : (row g a).getD c none = some k) :
    ∃ ch nd, g.sel[c]? = some ch ∧ ch.opts[k]? = some nd ∧ a.get c = some k ∧
      ch.origin ∈ closure g a ∧ nd ∈ succs g a ch.origin := by
  exact selected_option_wired' g a hadm c k hr

/-- Design-variable nodes carry the reported values. -/
theorem dv_describes (P : Problem) (E : Enc) (h : EncOK P E) (x : List Int) (hx : x.length = E.nVars P)
    (i : Nat) (hi : i < P.dvs.length) :
    (decode P E x).vals.getD i none =
      (if (decode P E x).act.getD (E.dvOff + i) false then some ((decode P E x).x.getD (E.dvOff + i) 0) else none) := by
  exact decode_dv_describes h x hx i hi

end Adsg.C03
