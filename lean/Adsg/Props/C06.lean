/-
  C06 — Incompatibility constraints are enforced and never over-prune.
-/
import Adsg.Model.Steps
import Adsg.Proofs.Closure
import Adsg.Proofs.Steps
namespace Adsg.C06
open Adsg

/-- No enumerated architecture contains both ends of an incompatibility constraint. -/
theorem arch_conflict_free (g : DSG) (r : List (Option Nat)) (hr : r ∈ allRows g) :
    ∃ a ∈ allAssigns g, admissible g a = true ∧ row g a = r ∧
      ∀ e ∈ g.incompat, ¬ (e.1 ∈ closure g a ∧ e.2 ∈ closure g a) :=
  arch_conflict_free_aux g r hr

/-- If the nodes confirmed by the picks made so far already contain an incompatible pair, no
    admissible architecture extends these picks. -/
theorem forced_conflict_never_feasible (g : DSG) (hw : g.WF = true) (p a : Assign)
    (hext : ∀ c k, p.get c = some k → a.get c = some k)
    (e : Node × Node) (he : e ∈ g.incompat) (h1 : e.1 ∈ closure g p) (h2 : e.2 ∈ closure g p) :
    admissible g a = false :=
  forced_conflict_aux g hw p a hext e he h1 h2

/-- An option whose selection necessarily confirms two incompatible nodes is not viable, hence by
    the sandwich it may be dropped and is in no feasible result. -/
theorem conflicting_option_not_viable (g : DSG) (hw : g.WF = true) (ops : Picks) (c k : Nat)
    (e : Node × Node) (he : e ∈ g.incompat)
    (h1 : e.1 ∈ closure g (assignOf g ((c, k) :: ops)))
    (h2 : e.2 ∈ closure g (assignOf g ((c, k) :: ops))) :
    k ∉ viable g (assignOf g ops) c :=
  conflicting_option_not_viable_aux g hw ops c k e he h1 h2

/-- What `viable` means: the option has an admissible total completion. -/
theorem mem_viable_iff (g : DSG) (a : Assign) (c k : Nat) :
    k ∈ viable g a c ↔ k < nOpts g c ∧ ∃ b ∈ allAssigns g, admissible g b = true ∧
      extendsB g a b = true ∧ b.get c = some k :=
  mem_viable_iff_aux g a c k

/-- Never over-prunes: along the canonical run towards any admissible assignment every option it
    needs is viable (so it is offered by every oracle in the sandwich). -/
theorem needed_option_viable (g : DSG) (a b : Assign) (c k : Nat) (hb : b ∈ allAssigns g)
    (hadm : admissible g b = true) (hext : extendsB g a b = true) (hk : b.get c = some k)
    (hc : c < g.sel.length) : k ∈ viable g a c :=
  needed_option_viable_aux g a b c k hb hadm hext hk hc

/-- A graph has no architecture iff every assignment is inadmissible. -/
theorem infeasible_iff_all_conflict (g : DSG) :
    allRows g = [] ↔ ∀ a ∈ allAssigns g, admissible g a = false :=
  allRows_eq_nil_iff g

/-- Every admissible assignment's row is enumerated (nothing admissible is lost). -/
theorem admissible_row_enumerated (g : DSG) (a : Assign) (ha : a ∈ allAssigns g)
    (hadm : admissible g a = true) : row g a ∈ allRows g :=
  admissible_row_enumerated_aux g a ha hadm

/-! Non-vacuity -/
def exG : DSG := { n := 6, derives := [(0, 1), (3, 4)], sel := [⟨1, [2, 3]⟩, ⟨4, [5, 0]⟩],
                   start := [0], incompat := [(2, 0), (5, 3)] }
example : exG.WF = true := by decide
example : allRows exG = [[some 1, some 1]] := by decide
example : viable exG [] 0 = [1] := by decide
example : viable exG [some 1, none] 1 = [1] := by decide

end Adsg.C06
