/-
  C17 — Metrics are classified and evaluated according to the documented contract.
  Model: Adsg/Model/Metrics.lean. `perm` is the set of permanent nodes the implementation uses
  (`get_confirmed_graph` of the initial graph); `permanent_in_every_arch` shows that a confirmed set
  of any partial assignment is contained in every architecture that extends it.
-/
import Adsg.Model.Metrics
import Adsg.Proofs.Closure
import Mathlib.Data.List.Sort
namespace Adsg.C17
open Adsg

/-- objective ⇒ has a direction and is a permanent node. -/
theorem objective_only_if (perm : List Node) (m : Metric) (h : roleOf perm m = .objective) :
    m.hasDir = true ∧ m.node ∈ perm := by
  unfold roleOf metricType canObj canCon at h
  rcases m with ⟨name, node, hasDir, hasRef, decl⟩
  cases hasDir <;> cases hasRef <;> rcases decl with _ | (_ | _ | _ | _) <;>
    by_cases hp : perm.contains node = true <;> simp_all

/-- constraint ⇒ has a direction and a reference value. -/
theorem constraint_only_if (perm : List Node) (m : Metric) (h : roleOf perm m = .constraint) :
    m.hasDir = true ∧ m.hasRef = true := by
  unfold roleOf metricType canObj canCon at h
  rcases m with ⟨name, node, hasDir, hasRef, decl⟩
  cases hasDir <;> cases hasRef <;> rcases decl with _ | (_ | _ | _ | _) <;>
    by_cases hp : perm.contains node = true <;> simp_all

/-- A metric declared to have no role is never used. -/
theorem declared_none_unused (perm : List Node) (m : Metric) (h : m.decl = some .none_) :
    roleOf perm m = .unused := by
  simp [roleOf, metricType, h]

/-- When both roles are possible the declared role decides. -/
theorem both_possible_declared_decides (perm : List Node) (m : Metric)
    (ho : canObj perm m = true) (hc : canCon m = true) :
    (m.decl = some .objective → roleOf perm m = .objective) ∧
    (m.decl = some .constraint → roleOf perm m = .constraint) := by
  constructor <;> intro hd <;> simp [roleOf, metricType, hd, ho, hc]

/-- An undeclared metric that could be both is ambiguous … -/
theorem undeclared_ambiguous (perm : List Node) (m : Metric)
    (ho : canObj perm m = true) (hc : canCon m = true) (hd : m.decl = none) :
    roleOf perm m = .ambiguous := by
  simp [roleOf, metricType, hd, ho, hc]

theorem mem_insertMetric (m x : Metric) (l : List Metric) : x ∈ insertMetric m l ↔ x = m ∨ x ∈ l := by
  induction l with
  | nil => simp [insertMetric]
  | cons y ys ih =>
    simp only [insertMetric]
    split
    · simp
    · simp [ih]; tauto

theorem mem_sortMetrics (x : Metric) (l : List Metric) : x ∈ sortMetrics l ↔ x ∈ l := by
  induction l with
  | nil => simp [sortMetrics]
  | cons y ys ih =>
    simp only [sortMetrics, List.foldr_cons] at ih ⊢
    rw [mem_insertMetric, ih]; simp

/-- … and an ambiguous metric makes classification fail (explicit error), and only that does. -/
theorem ambiguous_rejected (perm : List Node) (ms : List Metric) :
    classify perm ms = none ↔ ∃ m ∈ ms, roleOf perm m = .ambiguous := by
  unfold classify
  simp only
  split
  · rename_i h
    simp only [List.any_eq_true, beq_iff_eq] at h
    obtain ⟨m, hm, hr⟩ := h
    simp only [true_iff]
    exact ⟨m, (mem_sortMetrics m ms).1 hm, hr⟩
  · rename_i h
    simp only [List.any_eq_true, beq_iff_eq, not_exists, not_and] at h
    simp only [reduceCtorEq, false_iff, not_exists, not_and]
    intro m hm
    exact h m ((mem_sortMetrics m ms).2 hm)

/-- The classified lists contain exactly the metrics with that role. -/
theorem classify_members (perm : List Node) (ms : List Metric) (objs cons : List Metric)
    (h : classify perm ms = some (objs, cons)) (m : Metric) :
    (m ∈ objs ↔ m ∈ ms ∧ roleOf perm m = .objective) ∧
    (m ∈ cons ↔ m ∈ ms ∧ roleOf perm m = .constraint) := by
  unfold classify at h
  simp only at h
  split at h
  · cases h
  · simp only [Option.some.injEq, Prod.mk.injEq] at h
    obtain ⟨rfl, rfl⟩ := h
    simp [List.mem_filter, mem_sortMetrics]

/-- `evaluate` returns one value per objective and one per constraint, in their order. -/
theorem evaluate_shape (arch : List Node) (objs cons : List Metric) (vals : List (Nat × Nat)) :
    (evaluate arch objs cons vals).1.length = objs.length ∧
    (evaluate arch objs cons vals).2.length = cons.length := by
  simp [evaluate]

/-- Values: the evaluator's value where given, NaN where missing; a constraint whose node is absent
    from the architecture reports exactly its reference value. -/
theorem evaluate_values (arch : List Node) (objs cons : List Metric) (vals : List (Nat × Nat)) :
    (∀ i (h : i < objs.length), ((evaluate arch objs cons vals).1)[i]? = some (lookupVal vals objs[i].name)) ∧
    (∀ i (h : i < cons.length), ((evaluate arch objs cons vals).2)[i]? =
        some (if arch.contains cons[i].node then lookupVal vals cons[i].name else .ref)) := by
  constructor <;> intro i h <;> simp [evaluate, h]

theorem absent_constraint_ref (arch : List Node) (objs cons : List Metric) (vals : List (Nat × Nat))
    (i : Nat) (h : i < cons.length) (habs : cons[i].node ∉ arch) :
    ((evaluate arch objs cons vals).2)[i]? = some .ref := by
  have := (evaluate_values arch objs cons vals).2 i h
  simpa [habs] using this

theorem lookupVal_given_or_nan (vals : List (Nat × Nat)) (name : Nat) :
    (∃ v, (name, v) ∈ vals ∧ lookupVal vals name = .given v) ∨
    ((∀ v, (name, v) ∉ vals) ∧ lookupVal vals name = .nan) := by
  unfold lookupVal
  cases hf : vals.find? (fun p => decide (p.1 = name)) with
  | some p =>
    left
    have h1 := List.find?_some hf
    have h2 := List.mem_of_find?_eq_some hf
    simp only [decide_eq_true_eq] at h1
    exact ⟨p.2, by rw [← h1]; exact h2, rfl⟩
  | none =>
    right
    refine ⟨?_, rfl⟩
    intro v hv
    have := List.find?_eq_none.1 hf (name, v) hv
    simp at this

/-! #### Stable order: the result does not depend on the order in which metric nodes are met -/

def nameLE (a b : Metric) : Prop := a.name ≤ b.name

theorem sorted_insertMetric (m : Metric) (l : List Metric) (h : l.Pairwise nameLE) :
    (insertMetric m l).Pairwise nameLE := by
  induction l with
  | nil => simp [insertMetric]
  | cons y ys ih =>
    simp only [insertMetric]
    rw [List.pairwise_cons] at h
    split
    · rename_i hle
      refine List.pairwise_cons.2 ⟨?_, List.pairwise_cons.2 h⟩
      intro x hx
      rcases List.mem_cons.1 hx with rfl | hx
      · exact hle
      · exact Nat.le_trans hle (h.1 x hx)
    · rename_i hle
      refine List.pairwise_cons.2 ⟨?_, ih h.2⟩
      intro x hx
      rcases (mem_insertMetric m x ys).1 hx with rfl | hx
      · unfold nameLE; omega
      · exact h.1 x hx

theorem sorted_sortMetrics (l : List Metric) : (sortMetrics l).Pairwise nameLE := by
  induction l with
  | nil => simp [sortMetrics]
  | cons y ys ih => simpa [sortMetrics] using sorted_insertMetric y _ ih

theorem perm_insertMetric (m : Metric) (l : List Metric) : (insertMetric m l).Perm (m :: l) := by
  induction l with
  | nil => simp [insertMetric]
  | cons y ys ih =>
    simp only [insertMetric]
    split
    · exact List.Perm.refl _
    · exact (List.Perm.cons y ih).trans (List.Perm.swap m y ys)

theorem perm_sortMetrics (l : List Metric) : (sortMetrics l).Perm l := by
  induction l with
  | nil => simp [sortMetrics]
  | cons y ys ih =>
    simp only [sortMetrics, List.foldr_cons] at ih ⊢
    exact (perm_insertMetric y _).trans (List.Perm.cons y ih)

/-- With distinct names, sorting by name is insensitive to the input order, hence so are the
    objective and constraint lists (and therefore the order of the values `evaluate` returns). -/
theorem classify_order_independent (perm : List Node) (ms ms' : List Metric) (hp : ms.Perm ms')
    (hn : ∀ a ∈ ms, ∀ b ∈ ms, a.name = b.name → a = b) :
    classify perm ms = classify perm ms' := by
  have hs : sortMetrics ms = sortMetrics ms' := by
    apply List.Perm.eq_of_pairwise (le := nameLE) ?_ (sorted_sortMetrics ms) (sorted_sortMetrics ms')
    · exact (perm_sortMetrics ms).trans (hp.trans (perm_sortMetrics ms').symm)
    · intro a b ha hb hab hba
      have ha' := (mem_sortMetrics a ms).1 ha
      have hb' : b ∈ ms := hp.symm.subset ((mem_sortMetrics b ms').1 hb)
      exact hn a ha' b hb' (Nat.le_antisymm hab hba)
  simp [classify, hs]

/-- "Exists in every architecture": the nodes confirmed under a partial assignment `p` are contained
    in the node set of every assignment that extends `p` – in particular (p = []) the nodes confirmed
    before any choice is taken are in every architecture. -/
theorem permanent_in_every_arch (g : DSG) (hw : g.WF = true) (p a : Assign)
    (hext : ∀ c k, p.get c = some k → a.get c = some k) :
    ∀ v ∈ closure g p, v ∈ closure g a :=
  closure_mono g hw p a hext

theorem objective_in_every_arch (g : DSG) (hw : g.WF = true) (m : Metric)
    (h : roleOf (closure g []) m = .objective) (a : Assign) : m.node ∈ closure g a := by
  refine permanent_in_every_arch g hw [] a ?_ _ (objective_only_if _ m h).2
  intro c k hk; simp [Assign.get] at hk

/-! #### Shape of the classification: sorted, disjoint, exhaustive; objectives never report a reference value -/

/-- Both classified lists come out sorted by metric name (the documented stable order). -/
theorem classify_sorted (perm : List Node) (ms objs cons : List Metric)
    (h : classify perm ms = some (objs, cons)) :
    objs.Pairwise nameLE ∧ cons.Pairwise nameLE := by
  unfold classify at h
  simp only at h
  split at h
  · cases h
  · simp only [Option.some.injEq, Prod.mk.injEq] at h
    obtain ⟨rfl, rfl⟩ := h
    exact ⟨(sorted_sortMetrics ms).filter _, (sorted_sortMetrics ms).filter _⟩

/-- No metric is reported both as an objective and as a constraint. -/
theorem classify_disjoint (perm : List Node) (ms objs cons : List Metric)
    (h : classify perm ms = some (objs, cons)) (m : Metric) (ho : m ∈ objs) : m ∉ cons := by
  have hm := classify_members perm ms objs cons h m
  intro hc
  have h1 := (hm.1.1 ho).2
  have h2 := (hm.2.1 hc).2
  rw [h1] at h2
  cases h2

/-- When classification succeeds every metric is an objective, a constraint, or unused: nothing is
    dropped silently and nothing ambiguous survives. -/
theorem classify_exhaustive (perm : List Node) (ms objs cons : List Metric)
    (h : classify perm ms = some (objs, cons)) (m : Metric) (hm : m ∈ ms) :
    m ∈ objs ∨ m ∈ cons ∨ roleOf perm m = .unused := by
  have hmem := classify_members perm ms objs cons h m
  have hamb : ¬ (classify perm ms = none) := by rw [h]; simp
  rw [ambiguous_rejected] at hamb
  cases hr : roleOf perm m with
  | unused => exact Or.inr (Or.inr rfl)
  | objective => exact Or.inl (hmem.1.2 ⟨hm, hr⟩)
  | constraint => exact Or.inr (Or.inl (hmem.2.2 ⟨hm, hr⟩))
  | ambiguous => exact absurd ⟨m, hm, hr⟩ hamb

/-- The classified lists never hold more entries than there are metric nodes (no duplication). -/
theorem classify_length (perm : List Node) (ms objs cons : List Metric)
    (h : classify perm ms = some (objs, cons)) :
    objs.length + cons.length ≤ ms.length := by
  unfold classify at h
  simp only at h
  split at h
  · cases h
  · simp only [Option.some.injEq, Prod.mk.injEq] at h
    obtain ⟨rfl, rfl⟩ := h
    have hl : (sortMetrics ms).length = ms.length := (perm_sortMetrics ms).length_eq
    rw [← hl]
    generalize sortMetrics ms = s
    induction s with
    | nil => simp
    | cons x xs ih =>
      simp only [List.filter_cons, List.length_cons]
      cases hr : roleOf perm x <;> simp <;> omega

/-- An objective is only ever reported with the evaluator's value or NaN – never with a reference
    value (that substitution is reserved for constraints whose node is absent). -/
theorem objective_never_ref (arch : List Node) (objs cons : List Metric) (vals : List (Nat × Nat)) :
    ∀ v ∈ (evaluate arch objs cons vals).1, v ≠ .ref := by
  intro v hv
  simp only [evaluate, List.mem_map] at hv
  obtain ⟨m, _, rfl⟩ := hv
  rcases lookupVal_given_or_nan vals m.name with ⟨w, _, hw⟩ | ⟨_, hw⟩ <;> rw [hw] <;> simp

/-- A constraint whose node is present reports the evaluator's value or NaN, never the reference. -/
theorem present_constraint_not_ref (arch : List Node) (objs cons : List Metric) (vals : List (Nat × Nat))
    (i : Nat) (h : i < cons.length) (hpres : cons[i].node ∈ arch) :
    ((evaluate arch objs cons vals).2)[i]? = some (lookupVal vals cons[i].name) ∧
    lookupVal vals cons[i].name ≠ .ref := by
  refine ⟨?_, ?_⟩
  · have := (evaluate_values arch objs cons vals).2 i h
    simpa [hpres] using this
  · rcases lookupVal_given_or_nan vals cons[i].name with ⟨w, _, hw⟩ | ⟨_, hw⟩ <;> rw [hw] <;> simp

/-! Non-vacuity -/
example : roleOf [0, 1] ⟨0, 1, true, true, some .constraint⟩ = .constraint := by decide
example : roleOf [0, 1] ⟨0, 1, true, true, none⟩ = .ambiguous := by decide
example : roleOf [0, 1] ⟨0, 5, true, false, none⟩ = .unused := by decide
example : classify [0] [⟨1, 0, true, false, none⟩, ⟨0, 7, true, true, none⟩] =
    some ([⟨1, 0, true, false, none⟩], [⟨0, 7, true, true, none⟩]) := by decide
example : evaluate [0] [⟨1, 0, true, false, none⟩] [⟨0, 7, true, true, none⟩] [(1, 42)] = ([.given 42], [.ref]) := by decide
example : classify [0, 3] [⟨2, 3, true, false, none⟩, ⟨1, 0, true, false, none⟩, ⟨0, 7, true, true, none⟩, ⟨5, 9, false, false, none⟩] =
    some ([⟨1, 0, true, false, none⟩, ⟨2, 3, true, false, none⟩], [⟨0, 7, true, true, none⟩]) := by decide

end Adsg.C17
