/-
  C18 — Identity, equality and serialization of graphs are structural and stable.
  Model: Adsg/Model/Identity.lean. What is proved is the *structural* part: equality is equality of
  canonical forms, a copy is equal, every effective single edit makes the graphs unequal. Pickle,
  cross-process behaviour and export text are exercised by the correspondence check only.
-/
import Adsg.Model.Identity
import Adsg.Proofs.Identity
namespace Adsg.C18
open Adsg

/-- Equality is exactly "same multiset of nodes, same multiset of keyed edges, same multiset of start
    nodes, same constraint list" – independent of the order in which the graph library stores them. -/
theorem eqG_iff_perm (a b : GS) :
    eqG a b = true ↔ a.nodes.Perm b.nodes ∧ a.edges.Perm b.edges ∧ a.start.Perm b.start ∧ a.cons = b.cons := by
  exact Adsg.eqG_iff_perm a b

theorem eqG_refl (a : GS) : eqG a a = true := by
  exact (Adsg.eqG_iff_perm a a).2 ⟨List.Perm.refl _, List.Perm.refl _, List.Perm.refl _, rfl⟩

theorem eqG_symm (a b : GS) : eqG a b = eqG b a := by
  exact Adsg.eqG_symm a b

theorem eqG_trans (a b c : GS) (h1 : eqG a b = true) (h2 : eqG b c = true) : eqG a c = true := by
  obtain ⟨n1, e1, s1, c1⟩ := (Adsg.eqG_iff_perm a b).1 h1
  obtain ⟨n2, e2, s2, c2⟩ := (Adsg.eqG_iff_perm b c).1 h2
  exact (Adsg.eqG_iff_perm a c).2 ⟨n1.trans n2, e1.trans e2, s1.trans s2, c1.trans c2⟩

/-- Equal graphs have equal canonical forms, hence equal hashes (the hash is a function of the
    canonical form). -/
theorem eq_same_canon (a b : GS) (h : eqG a b = true) : a.canon = b.canon := by
  exact of_decide_eq_true h

/-- A copy (same content, any storage order) is equal to the original. -/
theorem copy_eq (g : GS) (nodes' : List Nat) (edges' : List (Nat × Nat × Nat))
    (hn : nodes'.Perm g.nodes) (he : edges'.Perm g.edges) : eqG (g.copyWith nodes' edges') g = true := by
  exact (Adsg.eqG_iff_perm _ _).2 ⟨hn, he, List.Perm.refl _, rfl⟩

/-- Gaining a node makes the graphs unequal … -/
theorem add_node_neq (g : GS) (v : Nat) : eqG (g.addNode v) g = false := by
  refine eqG_false_of_not _ _ (fun h' => ?_)
  have := h'.1.length_eq
  simp [GS.addNode] at this

/-- … as does losing one, … -/
theorem remove_node_neq (g : GS) (v : Nat) (h : v ∈ g.nodes) : eqG (g.removeNode v) g = false := by
  refine eqG_false_of_not _ _ (fun h' => ?_)
  have := h'.1.length_eq
  have hpos := List.length_pos_of_mem h
  simp only [GS.removeNode, List.length_erase_of_mem h] at this
  omega

/-- … gaining an edge, … -/
theorem add_edge_neq (g : GS) (e : Nat × Nat × Nat) : eqG (g.addEdge e) g = false := by
  refine eqG_false_of_not _ _ (fun h' => ?_)
  have := h'.2.1.length_eq
  simp [GS.addEdge] at this

/-- … losing an edge, … -/
theorem remove_edge_neq (g : GS) (e : Nat × Nat × Nat) (h : e ∈ g.edges) : eqG (g.removeEdge e) g = false := by
  refine eqG_false_of_not _ _ (fun h' => ?_)
  have := h'.2.1.length_eq
  have hpos := List.length_pos_of_mem h
  simp only [GS.removeEdge, List.length_erase_of_mem h] at this
  omega

/-- … gaining a start node … -/
theorem add_start_neq (g : GS) (v : Nat) : eqG (g.addStart v) g = false := by
  refine eqG_false_of_not _ _ (fun h' => ?_)
  have := h'.2.2.1.length_eq
  simp [GS.addStart] at this

/-- … or a constraint. -/
theorem add_cons_neq (g : GS) (c : Nat) : eqG (g.addCons c) g = false := by
  refine eqG_false_of_not _ _ (fun h' => ?_)
  have := congrArg List.length h'.2.2.2
  simp [GS.addCons] at this

/-- Edits on either side: inequality is symmetric, so it does not matter whether the copy or the
    original was edited. -/
theorem edit_either_side (g h : GS) (hne : eqG g h = false) : eqG h g = false := by
  rw [Adsg.eqG_symm]; exact hne

/-- Losing a start node or a constraint also makes the two sides unequal. -/
theorem remove_start_neq (g : GS) (v : Nat) (h : v ∈ g.start) : eqG (g.removeStart v) g = false := by
  refine eqG_false_of_not _ _ (fun h' => ?_)
  have := h'.2.2.1.length_eq
  have hpos := List.length_pos_of_mem h
  simp [GS.removeStart, List.length_erase_of_mem h] at this
  omega

theorem remove_cons_neq (g : GS) (c : Nat) (h : c ∈ g.cons) : eqG (g.removeCons c) g = false := by
  refine eqG_false_of_not _ _ (fun h' => ?_)
  have := congrArg List.length h'.2.2.2
  have hpos := List.length_pos_of_mem h
  simp [GS.removeCons, List.length_erase_of_mem h] at this
  omega

/-- Undoing an edit restores equality (identity is a function of the current structure only, not of
    the history of edits): adding and removing the same edge, or a fresh isolated node. -/
theorem add_remove_edge_eq (g : GS) (e : Nat × Nat × Nat) : eqG ((g.addEdge e).removeEdge e) g = true := by
  have : (g.addEdge e).removeEdge e = g := by
    cases g; simp [GS.addEdge, GS.removeEdge]
  rw [this]; exact eqG_refl g

theorem add_remove_node_eq (g : GS) (v : Nat) (hfresh : ∀ e ∈ g.edges, e.1 ≠ v ∧ e.2.1 ≠ v) :
    eqG ((g.addNode v).removeNode v) g = true := by
  have hf : g.edges.filter (fun e => e.1 != v && e.2.1 != v) = g.edges := by
    rw [List.filter_eq_self]
    intro e he
    have := hfresh e he
    simp [this.1, this.2]
  have : (g.addNode v).removeNode v = g := by
    cases g
    simp only [GS.addNode, GS.removeNode] at hf ⊢
    simp [hf]
  rw [this]; exact eqG_refl g

/-- Two *different* graphs never become equal by the same edit applied to both … unless they were
    equal already: adding the same node to both sides preserves (in)equality. -/
theorem add_node_both (g h : GS) (v : Nat) : eqG (g.addNode v) (h.addNode v) = eqG g h := by
  have hiff : eqG (g.addNode v) (h.addNode v) = true ↔ eqG g h = true := by
    rw [Adsg.eqG_iff_perm, Adsg.eqG_iff_perm]
    simp [GS.addNode, List.perm_cons]
  cases h1 : eqG (g.addNode v) (h.addNode v) <;> cases h2 : eqG g h <;> simp_all

/-! Non-vacuity -/
def exG : GS := { nodes := [3, 1, 2], edges := [(1, 2, 0), (3, 1, 0), (1, 2, 1)], start := [3], cons := [0] }
example : eqG exG { exG with nodes := [1, 2, 3], edges := [(3, 1, 0), (1, 2, 1), (1, 2, 0)] } = true := by decide
example : eqG (exG.removeEdge (1, 2, 1)) exG = false := by decide
example : eqG (exG.removeNode 2) exG = false := by decide

end Adsg.C18
