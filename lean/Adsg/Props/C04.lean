/-
  C04 — The enumerated valid design vectors are exactly the architectures, one each.
  Model: Adsg/Model/Design.lean. `allDesigns` is the semantic content of the enumeration; `validDesign`
  is the independent decidable specification ("some admissible assignment has this row, each matrix is a
  valid connection set of its architecture, each DV value is a value of an existing node / absent").
-/
import Adsg.Model.Design
import Adsg.Proofs.Closure
import Adsg.Proofs.Steps
import Adsg.Proofs.ConnGraph
import Adsg.Proofs.Design
import Adsg.Proofs.DecodeAct
namespace Adsg.C04
open Adsg

/-- Nothing extra: every enumerated design is a valid design. -/
theorem design_valid (P : Problem) (hw : P.g.WF = true) (d : Design) (h : d ∈ allDesigns P) :
    validDesign P d = true := by
  have _ := hw  -- not needed: holds for every problem
  exact design_valid_aux P d h

/-- Nothing missing: every valid design is enumerated. -/
theorem design_complete (P : Problem) (hw : P.g.WF = true) (d : Design) (h : validDesign P d = true) :
    d ∈ allDesigns P :=
  design_complete_aux P hw d h

/-- No duplicates: every design is listed once. -/
theorem allDesigns_nodup (P : Problem) (hw : P.g.WF = true) : (allDesigns P).Nodup := by
  have _ := hw  -- not needed: holds for every problem
  exact allDesigns_nodup_aux P

/-- Distinct enumerated entries are distinct architectures in at least one component. -/
theorem design_ext (d e : Design) (h1 : d.row = e.row) (h2 : d.mats = e.mats) (h3 : d.dvals = e.dvals) : d = e := by
  cases d; cases e; simp_all

/-- The number of valid designs equals the number of enumerated designs, and counting without
    enumerating (per architecture: product of the numbers of connection sets and of the option counts
    of the existing DV nodes) gives the same number. -/
theorem nValid_eq_formula (P : Problem) : nValid P = nValidFormula P :=
  nValid_eq_formula_aux P

/-- One representative per architecture: the representatives' rows are exactly `allRows`, each once. -/
theorem repAssigns_rows (g : DSG) : (repAssigns g).map (row g) = allRows g :=
  repAssigns_rows' g

theorem repAssigns_admissible (g : DSG) (a : Assign) (h : a ∈ repAssigns g) :
    a ∈ allAssigns g ∧ admissible g a = true :=
  repAssigns_admissible' g a h

/-- The declared size is the product of the option counts and the imputation ratio their quotient
    (definitions of get_n_design_space / get_imputation_ratio; stated for completeness). -/
theorem declared_product (nOpts : List Nat) : prodNat nOpts = nOpts.foldl (· * ·) 1 := rfl

/-! Non-vacuity -/
def exG : DSG := { n := 6, derives := [(0, 3), (1, 4), (2, 5)], sel := [⟨0, [1, 2]⟩], start := [0], incompat := [] }
def exK : ConnChoice := { src := [{ node := 3, deg := .list [0, 1], rep := false }], tgt := [{ node := 4, deg := .atLeast 0, rep := true }] }
def exP : Problem := { g := exG, conn := [exK], dvs := [⟨5, .discrete 3⟩] }
example : nValid exP = 5 ∧ nValidFormula exP = 5 := by decide
example : (allDesigns exP).all (validDesign exP) = true := by decide
example : validDesign exP ⟨[some 0], [[[1]]], [some 0]⟩ = false := by decide

end Adsg.C04

/-! ### Part 2: every enumerated design is the decode of a vector that decoding leaves unchanged
    (Adsg/Model/Decode.lean; helper lemmas in Adsg/Proofs/DecodeAct.lean) -/
namespace Adsg.C04
open Adsg

/-- **Every admissible architecture is the decode of some row, and that row decodes to itself**: for
    every enumerated design there is a vector of the declared length, inside the declared ranges,
    which decoding (as implemented, and in the reference semantics) returns unchanged and maps to the
    design. -/
theorem decode_onto (P : Problem) (E : Enc) (h : EncOK P E) (d : Design) (hd : d ∈ allDesigns P) :
    ∃ x : List Int, x.length = E.nVars P ∧ inBounds (declBounds P E) x = true ∧
      (decode P E x).design = d ∧ (decode P E x).x = x ∧
      (decodeRef P E x).design = d ∧ (decodeRef P E x).x = x := by
  exact decode_onto_aux h d hd

/-- Distinct fixed-point rows give distinct architectures (discrete problems: every DV node discrete,
    so that the design records every value). -/
theorem fixed_rows_injective (P : Problem) (E : Enc) (h : EncOK P E)
    (hdisc : ∀ dv ∈ P.dvs, ∃ n, dv.dom = .discrete n)
    (x y : List Int) (hx : x.length = E.nVars P) (hy : y.length = E.nVars P)
    (hfx : (decode P E x).x = x) (hfy : (decode P E y).x = y)
    (hd : (decode P E x).design = (decode P E y).design) : x = y := by
  exact fixed_rows_injective_aux h hdisc x y hx hy hfx hfy hd

end Adsg.C04
