/-
  C13 — Choice constraints admit exactly the documented index combinations.
  Property theorems only; helper lemmas in Adsg/Proofs/Constraints.lean.
-/
import Adsg.Model.Constraints
import Adsg.Proofs.Closure
import Adsg.Proofs.Constraints
namespace Adsg.C13
open Adsg

/-- The row filter used by the complete encoder accepts exactly the documented relation on the
    sub-vector of the choices that are active together (all equal / pairwise different /
    non-decreasing / strictly increasing). -/
theorem validIdx_iff_consRel (ty : ConsType) (v : List (Option Nat)) :
    validIdxRow ty false v = consRel ty (v.filterMap id) :=
  validIdxRow_eq ty v

/-- With all choices permanent a non-replacing constraint is tested with `≤` … -/
theorem validIdx_norepl_allPermanent (v : List (Option Nat)) :
    validIdxRow .unorderedNorepl true v = consRel .unordered (v.filterMap id) :=
  validIdxRow_norepl_perm v

/-- … which is correct because options are pre-removed and re-indexed: for index vectors with
    `t ≤ v[t]` (the kept options of choice `t` start at position `t`), strict increase of the original
    positions is the same as non-decrease of the re-indexed ones. -/
theorem norepl_reindex (v : List Nat) (h : ∀ t (ht : t < v.length), t ≤ v[t]) :
    consRel .unorderedNorepl v = consRel .unordered (v.zipIdx.map (fun p => p.1 - p.2)) :=
  norepl_reindex_aux v h

/-- Option `j'` of choice `i'` is removed after choice `i` took option `j` iff the pair violates the
    documented relation (equal option counts `n`). -/
theorem removed_iff_notR (ty : ConsType) (n i j i' j' : Nat) (hne : i ≠ i') (hj : j < n) (hj' : j' < n) :
    j' ∈ removedFrom ty n i' i j ↔ Rcons ty i j i' j' = false :=
  removed_iff_notR_aux ty n i j i' j' hne hj hj'

/-- The relation is symmetric, so it does not matter which of two choices is taken first. -/
theorem Rcons_symm (ty : ConsType) (i j i' j' : Nat) : Rcons ty i j i' j' = Rcons ty i' j' i j :=
  Rcons_symm_aux ty i j i' j'

/-- The documented relation on a whole vector is the pairwise relation. -/
theorem consRel_iff_pairwise (ty : ConsType) (v : List Nat) :
    consRel ty v = true ↔ ∀ i i' (hi : i < v.length) (hi' : i' < v.length), i ≠ i' →
      Rcons ty i v[i] i' v[i'] = true :=
  consRel_iff_index ty v

/-- **Order independence of constraint handling.** Taking the constrained choices one after the
    other in *any* order, each time only an option not removed by the picks already made, admits
    exactly the index vectors the documentation lists. -/
theorem seq_removal_iff_valid (ty : ConsType) (m n : Nat) (v order : List Nat)
    (hv : v.length = m) (hvn : ∀ x ∈ v, x < n) (ho : order.Perm (List.range m)) :
    seqAccepted ty (List.replicate m n) v order [] = consRel ty v :=
  seq_removal_aux ty m n v order hv hvn ho

/-- Pre-removal for an all-permanent non-replacing constraint removes exactly the options that
    occur in no strictly increasing index vector. -/
theorem preRemoved_exact (m n i j : Nat) (hi : i < m) (hj : j < n) :
    (∀ r, (i, r) ∈ preRemoved .unorderedNorepl (List.replicate m n) true → j ∉ r) ↔
    ∃ v : List Nat, v.length = m ∧ (∀ x ∈ v, x < n) ∧ consRel .unorderedNorepl v = true ∧ v[i]? = some j :=
  preRemoved_exact_aux m n i j hi hj

/-- A permutation constraint over `m` simultaneously active choices with `n` options each has a
    valid vector iff `m ≤ n`; otherwise the branch is infeasible. -/
theorem perm_feasible_iff (m n : Nat) :
    (∃ v : List Nat, v.length = m ∧ (∀ x ∈ v, x < n) ∧ consRel .permutation v = true) ↔ m ≤ n :=
  perm_feasible_aux m n

theorem norepl_feasible_iff (m n : Nat) :
    (∃ v : List Nat, v.length = m ∧ (∀ x ∈ v, x < n) ∧ consRel .unorderedNorepl v = true) ↔ m ≤ n :=
  norepl_feasible_aux m n

/-- When a permutation constraint has more *permanent* choices than options the code pre-removes
    every option (branch infeasible); conditional choices are not counted (they need not be active
    together). -/
theorem perm_preRemoved_all (m n : Nat) (h : n < m) (i : Nat) (hi : i < m) :
    (i, List.range n) ∈ preRemoved .permutation (List.replicate m n) true :=
  perm_preRemoved_all_aux m n h i hi

/-- Architecture level: every enumerated architecture satisfies every constraint on the choices
    that are active together in it … -/
theorem arch_satisfies_constraints (g : DSG) (a : Assign) (ha : admissible g a = true)
    (k : ChoiceCons) (hk : k ∈ g.cons) :
    consRel k.ty ((k.choices.filter ((activeChoices g a).contains ·)).filterMap (a.get ·)) = true :=
  arch_satisfies_aux g a ha k hk

/-- … and choices that are not active together are unconstrained. -/
theorem not_active_together_unconstrained (ty : ConsType) (idx : List Nat) (h : idx.length ≤ 1) :
    consRel ty idx = true :=
  consRel_of_length_le_one ty idx h

/-- No pre-removal for a permutation constraint none of whose choices is permanent. -/
theorem perm_no_preRemoval_when_conditional (nOpts : List Nat) :
    preRemoved .permutation nOpts false = [] := by
  have h : ((List.replicate nOpts.length false).filter id).length = 0 := by
    induction nOpts.length with
    | zero => simp
    | succ m ih => simpa [List.replicate_succ] using ih
  simp [preRemoved, preRemovedP, h]

/-! #### The four relations in standard vocabulary, and their hierarchy -/

private theorem pairwiseB_iff {α} (r : α → α → Bool) (l : List α) :
    pairwiseB r l = true ↔ l.Pairwise (fun a b => r a b = true) := by
  induction l with
  | nil => simp [pairwiseB]
  | cons x xs ih => simp [pairwiseB, ih, List.all_eq_true]

/-- The documented relations in standard vocabulary: a permutation constraint means the active
    choices take pairwise distinct option indices (no option twice) … -/
theorem permutation_iff_nodup (v : List Nat) : consRel .permutation v = true ↔ v.Nodup := by
  simp only [consRel, pairwiseB_iff, List.Nodup, bne_iff_ne]

/-- … a linked constraint that they all take the same index … -/
theorem linked_iff_all_equal (v : List Nat) :
    consRel .linked v = true ↔ ∀ a ∈ v, ∀ b ∈ v, a = b := by
  simp only [consRel, pairwiseB_iff, beq_iff_eq]
  constructor
  · intro h a ha b hb
    induction v with
    | nil => cases ha
    | cons x xs ih =>
      rw [List.pairwise_cons] at h
      rcases List.mem_cons.1 ha with rfl | ha' <;> rcases List.mem_cons.1 hb with rfl | hb'
      · rfl
      · exact h.1 b hb'
      · exact (h.1 a ha').symm
      · exact ih h.2 ha' hb'
  · intro h
    induction v with
    | nil => exact List.Pairwise.nil
    | cons x xs ih =>
      refine List.pairwise_cons.2 ⟨fun b hb => h x List.mem_cons_self b (List.mem_cons_of_mem _ hb), ?_⟩
      exact ih (fun a ha b hb => h a (List.mem_cons_of_mem _ ha) b (List.mem_cons_of_mem _ hb))

/-- … an unordered combination that the indices are non-decreasing in constraint order, and an
    unordered non-replacing combination that they are strictly increasing. -/
theorem unordered_iff_sorted (v : List Nat) :
    (consRel .unordered v = true ↔ v.Pairwise (· ≤ ·)) ∧
    (consRel .unorderedNorepl v = true ↔ v.Pairwise (· < ·)) := by
  constructor <;> simp only [consRel, pairwiseB_iff, decide_eq_true_eq]

/-- Hierarchy of the constraint types: strictly increasing indices satisfy both the permutation and
    the unordered relation; linked indices are an unordered combination. -/
theorem norepl_implies_perm_and_unordered (v : List Nat) (h : consRel .unorderedNorepl v = true) :
    consRel .permutation v = true ∧ consRel .unordered v = true := by
  rw [(unordered_iff_sorted v).2] at h
  refine ⟨(permutation_iff_nodup v).2 ?_, (unordered_iff_sorted v).1.2 ?_⟩
  · exact h.imp (fun hab => Nat.ne_of_lt hab)
  · exact h.imp (fun hab => Nat.le_of_lt hab)

theorem linked_implies_unordered (v : List Nat) (h : consRel .linked v = true) :
    consRel .unordered v = true := by
  simp only [consRel, pairwiseB_iff, beq_iff_eq, decide_eq_true_eq] at h ⊢
  exact h.imp (fun hab => Nat.le_of_eq hab)

/-! Non-vacuity / concrete instances -/
example : validIdxRow .linked false [some 1, none, some 1] = true := by decide
example : validIdxRow .permutation false [some 1, some 2, some 1] = false := by decide
example : validIdxRow .unordered false [some 0, none, some 2, some 2] = true := by decide
example : validIdxRow .unorderedNorepl false [some 0, some 2, some 2] = false := by decide
example : removedFrom .unorderedNorepl 4 2 1 1 = [0, 1] := by decide
example : preRemoved .unorderedNorepl [3, 3] true = [(0, [2]), (1, [0])] := by decide
example : seqAccepted .unordered [3, 3, 3] [0, 1, 1] [2, 0, 1] [] = true := by decide
example : seqAccepted .unordered [3, 3, 3] [1, 0, 1] [2, 0, 1] [] = false := by decide

end Adsg.C13
