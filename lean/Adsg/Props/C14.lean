/-
  C14 — The fast selection-choice encoder is sound and covers the design space.
  Model: Adsg/Model/Fast.lean on Steps.lean; proved for EVERY offered-options oracle inside the sandwich
  `viable ⊆ offered ⊆ declared` and every chooser of the next active choice.
-/
import Adsg.Model.Fast
import Adsg.Proofs.Steps
import Adsg.Proofs.Fast
namespace Adsg.C14
open Adsg

/-- The neighbourhood of a vector inside the box enumerates exactly the box (respecting fixed entries),
    without repetition, starting with the vector itself. -/
theorem neighborhood_perm_box (nOpts x : List Nat) (fx : List Bool)
    (hx : x.length = nOpts.length) (hin : ∀ i, i < nOpts.length → x.getD i 0 < nOpts.getD i 0) :
    (neighborhood nOpts x fx).Nodup ∧
    (∀ v, v ∈ neighborhood nOpts x fx ↔ inBox nOpts x fx v = true) ∧
    (neighborhood nOpts x fx).head? = some x :=
  neighborhood_spec nOpts x fx hx hin

/-- **Soundness**: whatever the fast encoder returns is an architecture admitted by the graph semantics. -/
theorem fast_sound (g : DSG) (hw : g.WF = true) (off : Offered) (hs : Sandwich g off)
    (choose : List Nat → Option Nat) (hc : ChooserOK choose) (nOpts x : List Nat) (fx : List Bool)
    (v : List Nat) (s : Picks) (h : fastDecode g off choose nOpts x fx = some (v, s)) :
    row g (assignOf g s) ∈ allRows g :=
  fast_sound_aux g hw off hs choose hc nOpts x fx v s h

/-- **A valid vector is returned unchanged**: if applying `x` itself yields a feasible architecture,
    that is the result (no neighbour is tried). -/
theorem fast_valid_unchanged (g : DSG) (off : Offered) (choose : List Nat → Option Nat) (nOpts x : List Nat)
    (fx : List Bool) (hx : x.length = nOpts.length) (hin : ∀ i, i < nOpts.length → x.getD i 0 < nOpts.getD i 0)
    (s : Picks) (hg : greedy g off choose x g.sel.length [] = some s) (hf : feasibleRun g s = true) :
    fastDecode g off choose nOpts x fx = some (x, s) :=
  fast_valid_unchanged_aux g off choose nOpts x fx hx hin s hg hf

/-- **Coverage**: every admissible assignment is reached by applying its own option indices. -/
theorem fast_reaches (g : DSG) (hw : g.WF = true) (off : Offered) (hs : Sandwich g off)
    (choose : List Nat → Option Nat) (hc : ChooserOK choose) (a : Assign) (ha : a ∈ allAssigns g)
    (hadm : admissible g a = true) :
    ∃ s, greedy g off choose (a.map (fun o => o.getD 0)) g.sel.length [] = some s ∧ feasibleRun g s = true ∧
      row g (assignOf g s) = row g a :=
  fast_reaches_aux g hw off hs choose hc a ha hadm

/-- Hence the set of architectures the fast encoder can return is exactly `allRows g` – the same set
    the complete encoder enumerates (C04). -/
theorem fast_cover (g : DSG) (hw : g.WF = true) (off : Offered) (hs : Sandwich g off)
    (choose : List Nat → Option Nat) (hc : ChooserOK choose) (r : List (Option Nat)) (hr : r ∈ allRows g) :
    ∃ x s, fastDecode g off choose (g.sel.map (fun c => max c.opts.length 1)) x (List.replicate g.sel.length false) = some (x, s) ∧
      row g (assignOf g s) = r :=
  fast_cover_aux g hw off hs choose hc r hr

/-- **Totality** (nothing fixed): if the graph has an architecture at all, every vector of the box
    decodes to one. -/
theorem fast_total (g : DSG) (hw : g.WF = true) (off : Offered) (hs : Sandwich g off)
    (choose : List Nat → Option Nat) (hc : ChooserOK choose) (hne : allRows g ≠ [])
    (x : List Nat) (hx : x.length = g.sel.length)
    (hin : ∀ i, i < g.sel.length → x.getD i 0 < (g.sel.map (fun c => max c.opts.length 1)).getD i 0) :
    (fastDecode g off choose (g.sel.map (fun c => max c.opts.length 1)) x (List.replicate g.sel.length false)).isSome = true :=
  fast_total_aux g hw off hs choose hc hne x hx hin

/-! Non-vacuity -/
def exG : DSG := { n := 6, derives := [(0, 1), (3, 4)], sel := [⟨1, [2, 3]⟩, ⟨4, [5, 0]⟩], start := [0], incompat := [(2, 0)] }
def fullOff (g : DSG) : Offered := fun _ c => List.range (nOpts g c)
example : (fastDecode exG (fullOff exG) List.head? [2, 2] [0, 0] [false, false]).map (·.1) = some [1, 0] := by decide
example : iterValues 5 2 false = [2, 3, 1, 4, 0] := by decide
example : neighborhood [2, 3] [1, 1] [true, false] = [[1, 1], [1, 2], [1, 0]] := by decide

end Adsg.C14
