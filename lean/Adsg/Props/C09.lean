/-
  C09 — Connection-set enumeration is exact.
  Property theorems only; helper lemmas in Adsg/Proofs/Conn.lean.
-/
import Adsg.Model.Conn
import Adsg.Proofs.Conn
namespace Adsg.C09
open Adsg

/- `LeCaps v caps` (pointwise `≤` with equal length) is defined in `Adsg/Proofs/Conn.lean`:
     | [], [] => True | v :: vs, c :: cs => v ≤ c ∧ LeCaps vs cs | _, _ => False -/
example : LeCaps [1, 2] [1, 3] ∧ ¬ LeCaps [1] [1, 3] ∧ ¬ LeCaps [2] [1] := by simp [LeCaps]

/-- `count_src_to_target` yields exactly the compositions of `n` bounded by `caps`, each once. -/
theorem mem_boundedComp (caps : List Nat) (n : Nat) (v : List Nat) :
    v ∈ boundedComp n caps ↔ LeCaps v caps ∧ v.sum = n :=
  mem_boundedComp' caps n v

theorem nodup_boundedComp (caps : List Nat) (n : Nat) : (boundedComp n caps).Nodup :=
  nodup_boundedComp' caps n

/-- The reference enumeration lists exactly the valid matrices, each once. -/
theorem mem_enumSpec_iff (s : ConnSettings) (e : Existence) (M : Matrix) :
    M ∈ enumSpec s e ↔ validMatrix s e M = true :=
  mem_enumSpec s e M

theorem nodup_enumSpec (s : ConnSettings) (e : Existence) : (enumSpec s e).Nodup :=
  nodup_enumSpec' s e

/-- The limits matrix has shape `r.length × c.length`. -/
def Shape (mx : Matrix) (nr nc : Nat) : Prop := mx.length = nr ∧ ∀ row ∈ mx, row.length = nc

/-- **Column-wise recursion is exact**: for degree tuples with equal totals it produces exactly the
    matrices within the limits that have these row and column sums, each once. -/
theorem colRec_exact (r c : List Nat) (mx : Matrix) (hs : Shape mx r.length c.length)
    (hsum : r.sum = c.sum) (M : Matrix) :
    M ∈ colRec r c mx ↔ (leMat M mx = true ∧ rowSums M = r ∧ colSums c.length M = c) := by
  rw [colRec_eq_colRecU]; exact colRecU_exact c r mx hs.1 hs.2 hsum M

theorem colRec_nodup (r c : List Nat) (mx : Matrix) (hs : Shape mx r.length c.length) :
    (colRec r c mx).Nodup := by
  rw [colRec_eq_colRecU]; exact colRecU_nodup c r mx hs.1

/-- **The library's enumeration is exactly the specification**, for every connector specification,
    exclusion list and existence pattern: same members … -/
theorem enumLib_eq_enumSpec (s : ConnSettings) (e : Existence) (M : Matrix) :
    M ∈ enumLib s e ↔ M ∈ enumSpec s e := by
  rw [mem_enumSpec, mem_enumLib_iff_valid]

/-- … each listed once, provided the effective degree lists of the sources are duplicate-free
    (`WFConn`, defined in `Adsg/Proofs/Conn.lean`; without it the statement is false, see below). -/
theorem enumLib_nodup (s : ConnSettings) (e : Existence) (wf : WFConn s e) : (enumLib s e).Nodup :=
  nodup_enumLib wf

/-- Counterexample to `enumLib_nodup` without `WFConn`: a duplicate in a source degree list (or in a
    source override) makes the library list every matrix twice. -/
example : ¬ (enumLib { src := [⟨.list [1, 1], true⟩], tgt := [⟨.list [1], true⟩] } {}).Nodup := by decide
example : ¬ (enumLib { src := [⟨.list [1], true⟩], tgt := [⟨.list [1], true⟩] }
    { srcOv := [some [1, 1]] }).Nodup := by decide

/-- The validity test accepts a matrix iff it is in the enumerated set. -/
theorem validate_iff_enumerated (s : ConnSettings) (e : Existence) (M : Matrix) :
    validMatrix s e M = true ↔ M ∈ enumLib s e :=
  (mem_enumLib_iff_valid s e M).symm

/-- Counting without generating (recursion and the special cases) gives the same number. -/
theorem colCount_eq_length (r c : List Nat) (mx : Matrix) : colCount r c mx = (colRec r c mx).length :=
  colCount_eq_length' c r mx

theorem count_eq_length (s : ConnSettings) (e : Existence) : countAll s e = (enumLib s e).length :=
  countAll_eq_length s e

/-- The list → open-ended rewrite of `get_effective_settings` does not change which degrees
    `≤ nMax` are allowed (degree lists are strictly increasing). -/
theorem open_list_rewrite_sound (nMax : Nat) (ds : List Nat) (hsorted : ds.Pairwise (· < ·)) (d : Nat)
    (hd : d ≤ nMax) : (openRewrite nMax (.list ds)).allows d = (Deg.list ds).allows d :=
  openRewrite_sound nMax ds hsorted d hd

/-! Non-vacuity -/
def exS : ConnSettings := { src := [⟨.list [0, 1, 2], true⟩, ⟨.atLeast 1, false⟩],
                            tgt := [⟨.list [1, 2], true⟩, ⟨.atLeast 0, true⟩], excluded := [(1, 1)] }
def exE : Existence := { srcOv := [none, none], tgtOv := [none, some [1, 2]] }
example : maxMat exS exE = [[2, 2], [1, 0]] := by decide
example : (enumSpec exS exE).length = 3 := by decide
example : (enumLib exS exE).length = 3 ∧ countAll exS exE = 3 := by decide
example : boundedComp 3 [2, 1, 2] = [[0, 1, 2], [1, 0, 2], [1, 1, 1], [2, 0, 1], [2, 1, 0]] := by decide
example : openRewrite 3 (.list [1, 2, 3, 7]) = .atLeast 1 := by decide
example : WFConn exS exE := WFConn_of_nodup _ _ (by simp [exS]) (by simp [exE])

end Adsg.C09
