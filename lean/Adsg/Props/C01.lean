/-
  C01 — Every design vector decodes to a valid architecture instance.
  Model: Adsg/Model/Decode.lean (`decode` = GraphProcessor.get_graph as it is, `decodeRef` = with the
  reference manager semantics) over Design.lean / ConnGraph.lean / Graph.lean. The encoder oracles
  (`Enc`) satisfy the validated contract `EncOK`. Helper lemmas: Adsg/Proofs/Decode.lean.
-/
import Adsg.Model.Decode
import Adsg.Proofs.Decode
namespace Adsg.C01
open Adsg

/-- **Every vector of the declared length decodes to a valid design**: the selection part is the row
    of an admissible assignment, every connection choice carries one of the valid connection sets of
    that architecture, every design-variable node a value of its domain iff it exists. No hypothesis
    on the values of `x` (out-of-range values are clamped). -/
theorem decode_valid (P : Problem) (E : Enc) (h : EncOK P E) (x : List Int) (hx : x.length = E.nVars P) :
    validDesign P (decode P E x).design = true := by
  exact decode_valid' h x hx

theorem decodeRef_valid (P : Problem) (E : Enc) (h : EncOK P E) (x : List Int) (hx : x.length = E.nVars P) :
    validDesign P (decodeRef P E x).design = true := by
  exact decodeRef_valid' h x hx

/-- … and hence it is one of the enumerated designs (C04). -/
theorem decode_enumerated (P : Problem) (E : Enc) (h : EncOK P E) (x : List Int) (hx : x.length = E.nVars P) :
    (decode P E x).design ∈ allDesigns P := by
  exact design_complete_aux P h.g_wf _ (decode_valid P E h x hx)

/-- The architecture of the decode spelled out: the node set is the closure of a feasible assignment,
    and the matrices are valid connection sets for the connectors that exist in it. -/
theorem decode_arch (P : Problem) (E : Enc) (h : EncOK P E) (x : List Int) (hx : x.length = E.nVars P) :
    ∃ a, feasibleAssign P a = true ∧ decodeNodes P E x = closure P.g a ∧
      (decode P E x).design.row = row P.g a ∧
      (decode P E x).design.mats.length = P.conn.length ∧
      ∀ k, k < P.conn.length →
        (decode P E x).design.mats.getD k [] ∈ connSets (closure P.g a) (P.conn.getD k default) := by
  exact decode_arch' h x hx

/-- The outputs have the declared length. -/
theorem decode_shape (P : Problem) (E : Enc) (h : EncOK P E) (x : List Int) (hx : x.length = E.nVars P) :
    (decode P E x).x.length = E.nVars P ∧ (decode P E x).act.length = E.nVars P ∧
    (decode P E x).vals.length = P.dvs.length := by
  exact decode_shape' h x hx

/-- Decoding can only be impossible when there is no feasible architecture at all: an encoder
    satisfying the contract exists only for a non-empty design space … -/
theorem no_feasible_no_decoder (P : Problem) (E : Enc) (hnone : ∀ a, feasibleAssign P a = false) :
    ¬ EncOK P E := by
  intro h
  have := h.pick_feasible []
  rw [hnone] at this
  cases this

/-- … and "no feasible architecture" is exactly "no valid design" (for well-formed DV domains). -/
theorem feasible_iff_designs (P : Problem) (hw : P.g.WF = true)
    (hdv : ∀ d ∈ P.dvs, d.dom.WF = true) :
    (∃ a, feasibleAssign P a = true) ↔ allDesigns P ≠ [] :=
  feasible_iff_designs' P hw hdv

/-- The hypothesis on the DV domains is needed: a present design-variable node with an empty domain
    leaves a feasible architecture without any valid design. -/
def cexP : Problem :=
  { g := { n := 1, derives := [], sel := [], start := [0], incompat := [] }, conn := [],
    dvs := [⟨0, .discrete 0⟩] }
example : cexP.g.WF = true ∧ (∃ a, feasibleAssign cexP a = true) ∧ allDesigns cexP = [] :=
  ⟨by decide, ⟨[], by decide⟩, by decide⟩

end Adsg.C01
