/-
  C10 — Every connection encoder is a faithful, total and onto coding of connection sets.
  Theorems about the generic manager layer (Adsg/Model/Enc.lean) for EVERY table satisfying the
  decidable predicate `Table.WF` and EVERY imputer that returns a row index of the table. The
  encoder-specific tables are validated per instance by the correspondence check (the driver evaluates
  `Table.WF`, `twoValuesEach` and "matrices of the table = enumSpec of the pattern" on the real tables).
-/
import Adsg.Model.Enc
import Adsg.Proofs.Enc
namespace Adsg.C10
open Adsg

/-- Hypotheses shared by the theorems: a well-formed non-empty table, positive option counts, an
    imputer that stays inside the table. -/
structure Ctx (t : Table) (nOpts : List Nat) (imp : List Int → Nat) : Prop where
  wf : t.WF nOpts = true
  nonempty : t ≠ []
  pos : ∀ n ∈ nOpts, 0 < n
  imp_lt : ∀ v, imp v < t.length

/-- Total and valid: every vector (any values, any length ≥ the declared one) decodes to a row of
    the table, i.e. to a valid matrix of the pattern. -/
theorem get_valid (t : Table) (nOpts : List Nat) (imp : List Int → Nat) (h : Ctx t nOpts imp)
    (x : List Int) (hx : nOpts.length ≤ x.length) :
    ∃ i, i < t.length ∧ (eagerGet (some t) nOpts imp x).2 = some i ∧
      (managerGet (some t) nOpts imp x).2.2 = some (t.getD i ([], [])).2 :=
  get_valid' h.imp_lt x hx

/-- The corrected vector has the length of the input and lies within the declared ranges; entries
    beyond the declared variables are inactive zeros. -/
theorem get_in_range (t : Table) (nOpts : List Nat) (imp : List Int → Nat) (h : Ctx t nOpts imp)
    (x : List Int) (hx : nOpts.length ≤ x.length) :
    let r := managerGet (some t) nOpts imp x
    r.1.length = x.length ∧ r.2.1.length = x.length ∧
    (∀ i (hi : i < nOpts.length), 0 ≤ r.1.getD i 0 ∧ r.1.getD i 0 < (nOpts[i] : Int)) ∧
    (∀ i, nOpts.length ≤ i → i < x.length → r.1.getD i 7 = 0 ∧ r.2.1.getD i true = false) :=
  get_in_range' (WFP.of_wf h.wf) h.pos h.imp_lt x hx

/-- Decoding the corrected vector reproduces it, with the same activeness and the same matrix. -/
theorem get_idempotent (t : Table) (nOpts : List Nat) (imp : List Int → Nat) (h : Ctx t nOpts imp)
    (x : List Int) (hx : nOpts.length ≤ x.length) :
    managerGet (some t) nOpts imp (managerGet (some t) nOpts imp x).1 = managerGet (some t) nOpts imp x :=
  get_idempotent' (WFP.of_wf h.wf) h.pos h.imp_lt x hx

/-- Onto: every row's matrix is the decode of that row's own (zero-imputed, padded) vector, which is
    returned unchanged. -/
theorem get_onto (t : Table) (nOpts : List Nat) (imp : List Int → Nat) (h : Ctx t nOpts imp)
    (i : Nat) (hi : i < t.length) :
    let v := zeroImp (padTo nOpts.length (t.getD i ([], [])).1)
    (managerGet (some t) nOpts imp v).1 = v ∧
    (managerGet (some t) nOpts imp v).2.2 = some (t.getD i ([], [])).2 :=
  get_onto' (WFP.of_wf h.wf) h.pos i hi

/-- Equal corrected vectors mean equal matrices (and equal activeness). -/
theorem get_injective (t : Table) (nOpts : List Nat) (imp : List Int → Nat) (h : Ctx t nOpts imp)
    (x y : List Int) (hx : nOpts.length ≤ x.length) (hy : nOpts.length ≤ y.length)
    (heq : (managerGet (some t) nOpts imp x).1 = (managerGet (some t) nOpts imp y).1) :
    managerGet (some t) nOpts imp x = managerGet (some t) nOpts imp y :=
  get_injective' (WFP.of_wf h.wf) h.imp_lt x y hx hy heq

/-- The listed "all design vectors" are exactly the vectors decoding can return (with their −1
    marks), for vectors of the declared length. -/
theorem all_vectors_exact (t : Table) (nOpts : List Nat) (imp : List Int → Nat) (h : Ctx t nOpts imp)
    (dv : List Int) :
    dv ∈ allDesignVectors t nOpts ↔
      ∃ x : List Int, x.length = nOpts.length ∧ (eagerGet (some t) nOpts imp x).1 = dv :=
  all_vectors_exact' (WFP.of_wf h.wf) h.pos h.imp_lt dv

/-- Activeness is the same on every path: what decoding reports is what the enumeration lists
    (the −1 marks of the row that was selected), whether the row was hit directly or imputed. -/
theorem activeness_is_table_marks (t : Table) (nOpts : List Nat) (imp : List Int → Nat) (h : Ctx t nOpts imp)
    (x : List Int) (hx : x.length = nOpts.length) :
    ∃ dv ∈ allDesignVectors t nOpts, (eagerGet (some t) nOpts imp x).1 = dv ∧
      managerGet (some t) nOpts imp x = ((correctIsActive dv).1, (correctIsActive dv).2,
        (managerGet (some t) nOpts imp x).2.2) :=
  activeness_is_table_marks' h.imp_lt x hx

/-- A variable reported active has an in-range non-negative stored value; inactive ones are 0. -/
theorem inactive_canonical (dv : List Int) (i : Nat) (hi : i < dv.length) :
    ((correctIsActive dv).2.getD i true = false → (correctIsActive dv).1.getD i 7 = 0) :=
  inactive_canonical' dv i hi

/-- `twoValuesEach` means what it says: every declared variable has two rows (possibly of different
    patterns) with different active values. -/
theorem two_values_each (ts : List Table) (nOpts : List Nat) (h : twoValuesEach ts nOpts = true)
    (i : Nat) (hi : i < nOpts.length) :
    ∃ t₁ ∈ ts, ∃ t₂ ∈ ts, ∃ r₁ ∈ t₁, ∃ r₂ ∈ t₂, ∃ a b : Int,
      r₁.1[i]? = some a ∧ r₂.1[i]? = some b ∧ a ≠ -1 ∧ b ≠ -1 ∧ a ≠ b :=
  two_values_each' ts nOpts h i hi

/-- A pattern unknown to the encoder decodes to "all inactive, no connections". -/
theorem unknown_pattern_inactive (nOpts : List Nat) (imp : List Int → Nat) (x : List Int)
    (hx : nOpts.length ≤ x.length) :
    (managerGet none nOpts imp x).2.1 = List.replicate x.length false ∧
    (managerGet none nOpts imp x).2.2 = none :=
  unknown_pattern_inactive' nOpts imp x hx

/-! Non-vacuity -/
def exT : Table := [([0, -1], [[0, 0]]), ([1, 0], [[1, 0]]), ([1, 1], [[0, 1]])]
def exImp : List Int → Nat := fun _ => 2
example : exT.WF [2, 2] = true := by decide
example : twoValuesEach [exT] [2, 2] = true := by decide
example : managerGet (some exT) [2, 2] exImp [0, 0, 5] = ([0, 0, 0], [true, false, false], some [[0, 0]]) := by decide
example : managerGet (some exT) [2, 2] exImp [0, 1, 5] = ([1, 1, 0], [true, true, false], some [[0, 1]]) := by decide
example : managerGet (some exT) [2, 2] exImp [7, -3] = ([1, 0], [true, true], some [[1, 0]]) := by decide
example : allDesignVectors exT [2, 2] = [[0, -1], [1, 0], [1, 1]] := by decide

end Adsg.C10

/-! ### The code as it is today (`managerGetImpl`): same vector and matrix, different activeness on a direct hit -/
namespace Adsg.C10
open Adsg

/-- The implemented decode returns the same corrected vector and the same matrix as the reference
    semantics, for every vector; only the reported activeness can differ. Hence totality, validity,
    range, onto-ness and injectivity (`get_valid`, `get_in_range`, `get_onto`, `get_injective`) carry
    over to the code as it is. -/
theorem impl_same_vector_and_matrix (t : Table) (nOpts : List Nat) (imp : List Int → Nat) (h : Ctx t nOpts imp)
    (x : List Int) (hx : nOpts.length ≤ x.length) :
    (managerGetImpl (some t) nOpts imp x).1 = (managerGet (some t) nOpts imp x).1 ∧
    (managerGetImpl (some t) nOpts imp x).2.2 = (managerGet (some t) nOpts imp x).2.2 :=
  managerGetImpl_same' (WFP.of_wf h.wf) x hx

/-- Vector and matrix are a fixed point of the implemented decode as well. -/
theorem impl_idempotent_vector_matrix (t : Table) (nOpts : List Nat) (imp : List Int → Nat) (h : Ctx t nOpts imp)
    (x : List Int) (hx : nOpts.length ≤ x.length) :
    let r := managerGetImpl (some t) nOpts imp x
    (managerGetImpl (some t) nOpts imp r.1).1 = r.1 ∧ (managerGetImpl (some t) nOpts imp r.1).2.2 = r.2.2 := by
  have w := WFP.of_wf h.wf
  obtain ⟨h1, h2⟩ := managerGetImpl_same' (imp := imp) w x hx
  have hlen : nOpts.length ≤ (managerGet (some t) nOpts imp x).1.length := by
    rw [(get_in_range' w h.pos h.imp_lt x hx).1]; exact hx
  obtain ⟨h3, h4⟩ := managerGetImpl_same' (imp := imp) w _ hlen
  have hid := get_idempotent' w h.pos h.imp_lt x hx
  intro r
  show (managerGetImpl (some t) nOpts imp (managerGetImpl (some t) nOpts imp x).1).1 =
      (managerGetImpl (some t) nOpts imp x).1 ∧
    (managerGetImpl (some t) nOpts imp (managerGetImpl (some t) nOpts imp x).1).2.2 =
      (managerGetImpl (some t) nOpts imp x).2.2
  rw [h1, h2, h3, h4, hid]
  exact ⟨rfl, rfl⟩

/-- On the imputation path (no direct hit) the implemented activeness is the table's marks … -/
theorem impl_activeness_imputed (t : Table) (nOpts : List Nat) (imp : List Int → Nat) (h : Ctx t nOpts imp)
    (x : List Int) (hx : nOpts.length ≤ x.length) (hmiss : t.hit (clampVec nOpts x) = none) :
    managerGetImpl (some t) nOpts imp x = managerGet (some t) nOpts imp x := by
  -- holds for every table and vector; `h`, `hx` are only the shared context of the family
  have _ := h; have _ := hx
  exact managerGetImpl_of_miss x hmiss

/-- … but on a direct hit every variable of the pattern is reported active: the full property
    "activeness is the same on every path" is FALSE of the code as it is. Concrete witness: the
    vector `[0, 0]` hits the row `[0, −1]` directly and is reported `[active, active]`, while the
    enumeration lists that design with the second variable inactive (and `[0, 1]`, which is imputed
    to the same row, is reported `[active, inactive]`). -/
theorem impl_direct_hit_activeness_mismatch :
    ∃ (t : Table) (nOpts : List Nat) (imp : List Int → Nat) (x y : List Int),
      Ctx t nOpts imp ∧
      (managerGetImpl (some t) nOpts imp x).1 = (managerGetImpl (some t) nOpts imp y).1 ∧
      (managerGetImpl (some t) nOpts imp x).2.1 ≠ (managerGetImpl (some t) nOpts imp y).2.1 := by
  refine ⟨exT, [2, 2], fun _ => 0, [0, 0], [0, 1], ⟨by decide, by decide, by decide, ?_⟩,
    by decide, by decide⟩
  intro _; decide

example : managerGetImpl (some exT) [2, 2] (fun _ => 0) [0, 0] = ([0, 0], [true, true], some [[0, 0]]) := by decide
example : managerGetImpl (some exT) [2, 2] (fun _ => 0) [0, 1] = ([0, 0], [true, false], some [[0, 0]]) := by decide

end Adsg.C10
