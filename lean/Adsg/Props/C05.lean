/-
  C05 — Decoding is a pure function of graph, fixed values and vector.
  Model: Adsg/Model/Proc.lean. The clause "returned instances are independent objects" is about the
  Python heap and is checked by the correspondence check only.
-/
import Adsg.Model.Proc
import Adsg.Proofs.Proc
namespace Adsg.C05
open Adsg.Proc

/-- Candidates are row indices. -/
def CandsOK (P : Problem) : Prop := ∀ x, ∀ i ∈ P.cands x, i < P.rows.length

/-- **The retry loop is history-free**: started with ANY feasibility mask that excludes only infeasible
    rows, it returns the first candidate that is compatible with the fixed values and feasible, and
    leaves a mask that again excludes only infeasible rows. -/
theorem retry_first_feasible (P : Problem) (hc : CandsOK P) (f : Fixed) (x : List Int) (mask : List Bool)
    (hm : MaskOK P mask) :
    (retry P f x (P.rows.length + 1) mask).1 = decodePure P f x ∧
    MaskOK P (retry P f x (P.rows.length + 1) mask).2 := by
  exact retry_top P hc f x mask hm

/-- Two processors with different histories (different masks) decode identically. -/
theorem decode_independent_of_mask (P : Problem) (hc : CandsOK P) (f : Fixed) (x : List Int)
    (m₁ m₂ : List Bool) (h₁ : MaskOK P m₁) (h₂ : MaskOK P m₂) :
    (retry P f x (P.rows.length + 1) m₁).1 = (retry P f x (P.rows.length + 1) m₂).1 := by
  rw [(retry_first_feasible P hc f x m₁ h₁).1, (retry_first_feasible P hc f x m₂ h₂).1]

/-- **Purity over every history**: for every sequence of decode / fix / free / enumerate / statistics
    operations on a fresh processor, every output equals the pure function of the fixed values at that
    moment and the input. -/
theorem proc_pure (P : Problem) (hc : CandsOK P) (ops : List Op) :
    (runOps P (init P) ops).2 = specOuts P [] ops := by
  exact (runOps_pure P hc ops (init P) (maskOK_replicate P)).1

/-- The same from any reachable state: a used processor behaves like a fresh one with the same fixed
    values. -/
theorem proc_pure_from (P : Problem) (hc : CandsOK P) (s : St) (hm : MaskOK P s.mask) (ops : List Op) :
    (runOps P s ops).2 = specOuts P s.fixed ops ∧ MaskOK P (runOps P s ops).1.mask := by
  exact runOps_pure P hc ops s hm

/-- Why the invariant matters (the defect repaired in the implementation): a loop that also stores the
    fixed-value mask into the persistent mask is history dependent. `retryInPlace` is that variant; after
    a decode under a fixed value, the same vector decodes differently once the value is freed. -/
def retryInPlace (P : Problem) (f : Fixed) (x : List Int) (mask : List Bool) : Option Nat × List Bool :=
  let m := (List.range mask.length).map (fun i => mask.getD i false && consistent P f (P.rows.getD i []))
  retry P [] x (P.rows.length + 1) m

/-- The example problem (witness below and non-vacuity checks at the end). -/
def exP : Problem :=
  { kinds := [.sel, .sel], nOpts := [2, 2], rows := [[some 0, none], [some 1, some 0], [some 1, some 1]],
    feasible := fun i => i != 1,
    cands := fun x => if x.headD 0 = 0 then [0, 1, 2] else [1, 2, 0] }

theorem inplace_mask_breaks_purity :
    ∃ (P : Problem) (x : List Int),
      (retryInPlace P [] x (retryInPlace P [(0, 1)] x (init P).mask).2).1 ≠ decodePure P [] x :=
  ⟨exP, [0, 0], by decide⟩

/-! Non-vacuity -/
example : decodePure exP [] [1, 0] = some 2 := by decide
example : (runOps exP (init exP) [.decode [1, 0], .fix 0 0, .decode [1, 0], .free 0, .decode [1, 0]]).2 =
    [.decoded (some 2), .ok, .decoded (some 0), .ok, .decoded (some 2)] := by decide

end Adsg.C05
