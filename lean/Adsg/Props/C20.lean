/-
  C20 — A supplementary graph resolves to the mapped option for each source architecture.
  Model: Adsg/Model/Sup.lean on top of the closure semantics.
-/
import Adsg.Model.Sup
import Adsg.Proofs.Closure
import Adsg.Proofs.Sup
namespace Adsg.C20
open Adsg

/-- A successful resolution is final: every choice that is active in the resolved graph has taken an
    option (no choice is left), and the graph is exactly the closure under the mapped assignment. -/
theorem resolve_final (s : SupSpec) (X : List Node) (r : List (Option Nat)) (N : List Node)
    (h : resolve s X r = some N) :
    N = closure s.sup (supAssign s X r) ∧ activeResolved s.sup (supAssign s X r) = true ∧ initOK s = true :=
  resolve_eq_some h

/-- Each mapped choice takes exactly the option its mapping assigns to the source situation. -/
theorem resolve_takes_mapped (s : SupSpec) (X : List Node) (r : List (Option Nat)) (c : Nat) (m : SupMapping)
    (hc : c < s.sup.sel.length) (hm : (c, m) ∈ s.maps) (hinit : initOK s = true) :
    (supAssign s X r).get c = mapTarget X r m :=
  supAssign_get_mapped s X r c m hc hm hinit

/-- Option mapping: the option of the source's selected option when the source choice is active, the
    `none` entry when it is inactive. -/
theorem optMap_target (X : List Node) (r : List (Option Nat)) (m : OptMap) (k : Nat)
    (h : mapTarget X r (.opt m) = some k) : (r.getD m.srcChoice none, k) ∈ m.table :=
  mapTarget_opt_mem X r m k h

/-- Existence mapping: the option of the FIRST listed source node that exists, else the default. -/
theorem existMap_target (X : List Node) (r : List (Option Nat)) (m : ExistMap) :
    (∃ pre e post, m.entries = pre ++ e :: post ∧ (∀ p ∈ pre, p.1 ∉ X) ∧ e.1 ∈ X ∧
        mapTarget X r (.exist m) = some e.2) ∨
    ((∀ p ∈ m.entries, p.1 ∉ X) ∧ mapTarget X r (.exist m) = some m.dflt) :=
  mapTarget_exist_cases X r m

/-- Incomplete or duplicate mappings are rejected – no partially resolved graph is produced. -/
theorem resolve_rejects_bad_mappings (s : SupSpec) (X : List Node) (r : List (Option Nat))
    (h : initOK s = false) : resolve s X r = none :=
  resolve_of_initOK_false X r h

theorem initOK_iff (s : SupSpec) :
    initOK s = true ↔ (s.maps.map (·.1)).Nodup ∧ ∀ c, c < s.sup.sel.length → ∃ m, (c, m) ∈ s.maps :=
  initOK_iff' s

/-- A mapping without an entry for the source situation of an ACTIVE supplementary choice is rejected. -/
theorem resolve_rejects_missing_case (s : SupSpec) (X : List Node) (r : List (Option Nat)) (c : Nat)
    (hact : c ∈ activeChoices s.sup (supAssign s X r)) (hnone : (supAssign s X r).get c = none) :
    resolve s X r = none :=
  resolve_of_not_activeResolved (activeResolved_false_of_active_none _ _ c hact hnone)

/-- Nested supplementary choices: what is mapped for a choice that ends up inactive (its originating
    node was removed by an earlier resolution) has no influence on the result. -/
theorem resolve_nested_irrelevant (s : SupSpec) (hw : s.sup.WF = true) (a b : Assign)
    (hag : ∀ c ∈ activeChoices s.sup a, a.get c = b.get c) (v : Node) :
    v ∈ closure s.sup a ↔ v ∈ closure s.sup b :=
  mem_closure_congr_active s.sup hw a b hag v

/-- Registration precondition: `mapsWF` holds exactly if every node mentioned by an existence mapping
    is a node of the source graph. -/
theorem mapsWF_iff (s : SupSpec) (srcNodes : List Node) :
    mapsWF s srcNodes = true ↔
      ∀ c e, (c, SupMapping.exist e) ∈ s.maps → ∀ p ∈ e.entries, p.1 ∈ srcNodes := by
  unfold mapsWF
  rw [List.all_eq_true]
  constructor
  · intro h c e hm p hp
    have := h (c, .exist e) hm
    simp only [List.all_eq_true] at this
    simpa using this p hp
  · intro h m hm
    rcases m with ⟨c, mp⟩
    cases mp with
    | opt _ => rfl
    | exist e =>
      simp only [List.all_eq_true]
      intro p hp
      simpa using h c e hm p hp

/-- Complete characterisation of `resolve` (converse of `resolve_final`): a resolution succeeds with
    node set `N` exactly when the mappings are complete and unique, no active supplementary choice is
    left without a target, and `N` is the closure under the mapped assignment. -/
theorem resolve_some_iff (s : SupSpec) (X : List Node) (r : List (Option Nat)) (N : List Node) :
    resolve s X r = some N ↔
      initOK s = true ∧ activeResolved s.sup (supAssign s X r) = true ∧
      N = closure s.sup (supAssign s X r) := by
  constructor
  · intro h
    obtain ⟨h1, h2, h3⟩ := resolve_final s X r N h
    exact ⟨h3, h2, h1⟩
  · rintro ⟨h1, h2, rfl⟩
    simp [resolve, h1, h2]

/-- `resolve` is rejected exactly when the registration is incomplete/duplicated or some active
    supplementary choice has no target: there is no third outcome. -/
theorem resolve_none_iff (s : SupSpec) (X : List Node) (r : List (Option Nat)) :
    resolve s X r = none ↔
      initOK s = false ∨ activeResolved s.sup (supAssign s X r) = false := by
  unfold resolve
  cases h1 : initOK s <;> cases h2 : activeResolved s.sup (supAssign s X r) <;> simp [h2]

private theorem find?_congr' {α} (l : List α) (p q : α → Bool) (h : ∀ x ∈ l, p x = q x) :
    l.find? p = l.find? q := by
  induction l with
  | nil => rfl
  | cons x xs ih =>
    have hx := h x (List.mem_cons_self)
    have ih' := ih (fun y hy => h y (List.mem_cons_of_mem _ hy))
    simp only [List.find?_cons, hx, ih']

/-- The target of a mapping depends on the source architecture only through what the mapping
    mentions: the selected option of its source choice, or the existence of its listed nodes. -/
theorem mapTarget_congr (X X' : List Node) (r r' : List (Option Nat)) (m : SupMapping)
    (hX : ∀ e, m = .exist e → ∀ p ∈ e.entries, X.contains p.1 = X'.contains p.1)
    (hr : ∀ o, m = .opt o → r.getD o.srcChoice none = r'.getD o.srcChoice none) :
    mapTarget X r m = mapTarget X' r' m := by
  cases m with
  | opt o => simp only [mapTarget, hr o rfl]
  | exist e =>
    have hf : e.entries.find? (fun p => X.contains p.1) = e.entries.find? (fun p => X'.contains p.1) :=
      find?_congr' _ _ _ (fun p hp => hX e rfl p hp)
    simp only [mapTarget, hf]

/-- Non-interference: two source architectures that agree on everything the registered mappings
    mention (selected options of mapped source choices, existence of mapped source nodes) resolve the
    supplementary graph identically – nothing else of the source leaks into the result. -/
theorem resolve_depends_only_on_mapped (s : SupSpec) (X X' : List Node) (r r' : List (Option Nat))
    (hX : ∀ c e, (c, SupMapping.exist e) ∈ s.maps → ∀ p ∈ e.entries, X.contains p.1 = X'.contains p.1)
    (hr : ∀ c o, (c, SupMapping.opt o) ∈ s.maps → r.getD o.srcChoice none = r'.getD o.srcChoice none) :
    resolve s X r = resolve s X' r' := by
  have ha : supAssign s X r = supAssign s X' r' := by
    unfold supAssign
    apply List.map_congr_left
    intro c _
    cases hf : s.maps.find? (fun m => m.1 == c) with
    | none => rfl
    | some m =>
      have hm : m ∈ s.maps := List.mem_of_find?_eq_some hf
      rcases m with ⟨c', mp⟩
      exact mapTarget_congr X X' r r' mp
        (fun e he => by subst he; exact hX c' e hm)
        (fun o ho => by subst ho; exact hr c' o hm)
  unfold resolve
  rw [ha]

/-! Non-vacuity: outer choice mapped from a source choice, nested choice from node existence. -/
def exSup : SupSpec :=
  { sup := { n := 6, derives := [], sel := [⟨0, [1, 2]⟩, ⟨2, [3, 4, 5]⟩], start := [0], incompat := [] },
    maps := [(1, .exist ⟨[(7, 2), (3, 0)], 1⟩), (0, .opt ⟨0, [(some 0, 0), (some 1, 1), (none, 0)]⟩)] }
example : initOK exSup = true := by decide
example : (resolve exSup [0, 3] [some 1]).map sortNat = some [0, 2, 3] := by decide
example : (resolve exSup [0, 7] [some 0]).map sortNat = some [0, 1] := by decide
example : resolve { exSup with maps := exSup.maps.take 1 } [0, 3] [some 1] = none := by decide
-- non-interference instance: node 9 and a second source choice are not mentioned by any mapping
example : resolve exSup [0, 3, 9] [some 1, some 4] = resolve exSup [3, 0] [some 1] := by decide

end Adsg.C20
