/-
  C15 — Fixing a design variable restricts the design space exactly; freeing restores it.
  Model: Adsg/Model/Proc.lean (`consistent`, `restrictRows`, `setFixed`, `step`).
-/
import Adsg.Model.Proc
import Adsg.Proofs.Proc
namespace Adsg.C15
open Adsg.Proc

/-- **The sandwich of the property**: every valid design of the restricted problem is an original
    design in which the variable has the fixed value or is inactive; every original design in which it
    is active with that value is present; none in which it is active with another value is. -/
theorem fix_sandwich (P : Problem) (i v : Nat) (r : Row) :
    (r ∈ restrictRows P [(i, v)] → r ∈ P.rows ∧ (r.getD i none = some v ∨ r.getD i none = none)) ∧
    (r ∈ P.rows → r.getD i none = some v → r ∈ restrictRows P [(i, v)]) ∧
    (∀ w, r.getD i none = some w → w ≠ v → r ∉ restrictRows P [(i, v)]) := by
  exact fix_sandwich' P i v r

/-- Which side of the sandwich: inactive rows are dropped for a selection-choice variable and kept for
    a design-variable node. -/
theorem inactive_rows (P : Problem) (i v : Nat) (r : Row) (hr : r ∈ P.rows) (hin : r.getD i none = none) :
    (r ∈ restrictRows P [(i, v)] ↔ P.kinds.getD i .sel = .dv) := by
  exact inactive_rows' P i v r hr hin

/-- With several fixed variables the restricted designs are exactly the original designs compatible
    with every fixed value; the restricted list keeps the original order and multiplicity. -/
theorem restrict_exact (P : Problem) (f : Fixed) (r : Row) :
    r ∈ restrictRows P f ↔ r ∈ P.rows ∧ consistent P f r = true := by
  exact mem_restrictRows P f r

theorem restrict_sublist (P : Problem) (f : Fixed) : (restrictRows P f).Sublist P.rows := by
  exact restrict_sublist' P f

/-- Nothing fixed: the original problem. -/
theorem restrict_nil (P : Problem) : restrictRows P [] = P.rows := by
  exact restrict_nil' P

/-- The restriction depends only on WHICH values are fixed, not on the order in which they were fixed. -/
theorem restrict_perm (P : Problem) (f g : Fixed) (h : f.Perm g) : restrictRows P f = restrictRows P g := by
  exact restrict_perm' P f g h

/-- Fixing a variable again replaces its value (one entry per variable). -/
theorem setFixed_get (f : Fixed) (i v j : Nat) :
    (setFixed f i v).get j = if j = i then some v else f.get j := by
  exact setFixed_get' f i v j

/-- **Freeing restores**: fixing `i` and freeing it again gives the problem that had `i` free. -/
theorem fix_then_free (P : Problem) (f : Fixed) (i v : Nat) :
    restrictRows P ((setFixed f i v).filter (fun p => p.1 != i)) = restrictRows P (f.filter (fun p => p.1 != i)) := by
  rw [setFixed_filter]

/-- After any sequence of fix / free operations (with decodes, enumerations and statistics in between)
    the enumeration and the count are those of the fixed map that the sequence leaves – in particular a
    sequence that frees everything it fixed restores the original problem exactly. -/
theorem fix_free_history (P : Problem) (ops : List Op) :
    (step P (runOps P (init P) ops).1 .enumerate).2 = .rows (restrictRows P (runOps P (init P) ops).1.fixed) ∧
    (step P (runOps P (init P) ops).1 .stats).2 = .count (restrictRows P (runOps P (init P) ops).1.fixed).length := by
  exact ⟨rfl, rfl⟩

theorem all_freed_restores (P : Problem) (ops : List Op) (h : (runOps P (init P) ops).1.fixed = []) :
    (step P (runOps P (init P) ops).1 .enumerate).2 = .rows P.rows := by
  rw [step_enumerate, h, restrict_nil']

/-- Fixing a connection-choice variable or an out-of-range value is rejected and changes nothing. -/
theorem fix_rejects (P : Problem) (s : St) (i v : Nat)
    (h : P.kinds.getD i .conn = .conn ∨ P.nOpts.getD i 0 ≤ v) : step P s (.fix i v) = (s, .rejected) := by
  exact fix_rejects' P s i v h

/-- Decodes of the restricted problem stay inside the restricted set. -/
theorem decode_in_restricted (P : Problem) (f : Fixed) (x : List Int) (k : Nat)
    (h : decodePure P f x = some k) (hk : k < P.rows.length) : P.rows.getD k [] ∈ restrictRows P f := by
  exact decode_in_restricted' P f x k h hk

/-! #### Monotonicity and composition of restrictions -/

/-- **Monotone**: fixing more variables can only shrink the design space – every design of the more
    restricted problem is a design of the less restricted one. -/
theorem restrict_mono (P : Problem) (f g : Fixed) (hsub : ∀ p ∈ f, p ∈ g) (r : Row)
    (h : r ∈ restrictRows P g) : r ∈ restrictRows P f := by
  rw [restrict_exact] at h ⊢
  refine ⟨h.1, ?_⟩
  have hg := h.2
  unfold consistent at hg ⊢
  rw [List.all_eq_true] at hg ⊢
  intro p hp
  exact hg p (hsub p hp)

/-- Fixing commutes: restricting by `f` and then (on the result) by `g` is restricting by both. -/
theorem restrict_append (P : Problem) (f g : Fixed) (r : Row) :
    r ∈ restrictRows P (f ++ g) ↔ r ∈ restrictRows P f ∧ r ∈ restrictRows P g := by
  simp only [restrict_exact, consistent, List.all_append, Bool.and_eq_true]
  constructor
  · rintro ⟨h1, h2, h3⟩; exact ⟨⟨h1, h2⟩, ⟨h1, h3⟩⟩
  · rintro ⟨⟨h1, h2⟩, ⟨_, h3⟩⟩; exact ⟨h1, h2, h3⟩

/-- The restricted design count never exceeds the original one. -/
theorem restrict_count_le (P : Problem) (f : Fixed) : (restrictRows P f).length ≤ P.rows.length :=
  (restrict_sublist P f).length_le

/-! Non-vacuity -/
def exP : Problem :=
  { kinds := [.sel, .dv], nOpts := [2, 2], rows := [[some 0, none], [some 1, some 0], [some 1, some 1]],
    feasible := fun _ => true, cands := fun _ => [0, 1, 2] }
example : restrictRows exP [(1, 0)] = [[some 0, none], [some 1, some 0]] := by decide
example : restrictRows exP [(0, 0)] = [[some 0, none]] := by decide
example : restrictRows { exP with kinds := [.sel, .sel] } [(1, 0)] = [[some 1, some 0]] := by decide

end Adsg.C15
