/-
  C02 — An architecture instance is exactly the derivation closure of the choices made.
  Property theorems only; helper lemmas live in Adsg/Proofs/Closure.lean and Adsg/Proofs/Steps.lean.
-/
import Adsg.Model.Steps
import Adsg.Proofs.Closure
import Adsg.Proofs.Steps
namespace Adsg.C02
open Adsg

/-- The instance is exactly the set reachable from the start nodes over derivation edges and
    origin → selected-option edges: nothing required is missing, nothing unreachable remains. -/
theorem instance_is_reachable_set (g : DSG) (hw : g.WF = true) (a : Assign) (v : Node) :
    v ∈ closure g a ↔ Reach g a v :=
  mem_closure_iff_reach g hw a v

/-- … and it is the least such set. -/
theorem instance_least (g : DSG) (hw : g.WF = true) (a : Assign) (S : Node → Prop)
    (hs : ∀ v ∈ g.start, S v) (hc : ∀ u, S u → ∀ v ∈ succs g a u, S v) :
    ∀ v ∈ closure g a, S v :=
  closure_least g hw a S hs hc

/-- The instance has no duplicate nodes. -/
theorem instance_nodup (g : DSG) (hw : g.WF = true) (a : Assign) : (closure g a).Nodup :=
  closure_nodup g hw a

/-- **Order independence.** Two valid runs that take the same picks in different orders end in the
    same assignment – hence the same instance, the same active choices and the same row. -/
theorem run_perm (g : DSG) (off : Offered) (ops₁ ops₂ s₁ s₂ : Picks)
    (h₁ : run g off ops₁ [] = some s₁) (h₂ : run g off ops₂ [] = some s₂) (hp : ops₁.Perm ops₂) :
    assignOf g s₁ = assignOf g s₂ ∧ nextChoices g s₁ = nextChoices g s₂ :=
  run_perm_aux g off ops₁ ops₂ s₁ s₂ h₁ h₂ hp

/-- When no active choice is left, the confirmed node set is the closure of *every* total
    assignment extending the picks (values of inactive choices are irrelevant). -/
theorem complete_run_eq_closure (g : DSG) (hw : g.WF = true) (s : Picks)
    (hdone : nextChoices g s = []) (a : Assign)
    (hext : ∀ c k, (assignOf g s).get c = some k → a.get c = some k) (v : Node) :
    v ∈ closure g a ↔ v ∈ closure g (assignOf g s) :=
  complete_run_eq_closure_aux g hw s hdone a hext v

/-- Every admissible assignment is reached by a valid run (the one that always takes the first
    active choice), for every oracle inside the sandwich: the run is accepted, ends with no active
    choice, and its instance and row are those of the assignment. -/
theorem canonical_run_exists (g : DSG) (hw : g.WF = true) (off : Offered) (hs : Sandwich g off)
    (a : Assign) (ha : a ∈ allAssigns g) (hadm : admissible g a = true) :
    ∃ ops s, run g off ops [] = some s ∧ nextChoices g s = [] ∧
      (∀ v, v ∈ closure g (assignOf g s) ↔ v ∈ closure g a) ∧
      row g (assignOf g s) = row g a :=
  canonical_run_exists_aux g hw off hs a ha hadm

/-- Conversely every complete valid run whose instance is conflict-free and satisfies the choice
    constraints is one of the enumerated architectures. Together with `canonical_run_exists`:
    {feasible instances reachable by valid runs} = `allRows g`. -/
theorem feasible_final_is_arch (g : DSG) (hw : g.WF = true) (off : Offered) (hs : Sandwich g off)
    (ops s : Picks) (hr : run g off ops [] = some s) (hdone : nextChoices g s = [])
    (hcf : conflictFreeB g (closure g (assignOf g s)) = true)
    (hcons : consOK g (assignOf g s) = true) :
    row g (assignOf g s) ∈ allRows g :=
  feasible_final_is_arch_aux g hw off hs ops s hr hdone hcf hcons

theorem arch_is_reachable (g : DSG) (hw : g.WF = true) (off : Offered) (hs : Sandwich g off)
    (r : List (Option Nat)) (hr : r ∈ allRows g) :
    ∃ ops s, run g off ops [] = some s ∧ nextChoices g s = [] ∧ row g (assignOf g s) = r :=
  arch_is_reachable_aux g hw off hs r hr

/-! Non-vacuity: a graph with a cycle and a nested choice; the full-options oracle is in the sandwich. -/
def exG : DSG := { n := 6, derives := [(0, 1), (1, 0), (3, 4)], sel := [⟨1, [2, 3]⟩, ⟨4, [5, 0]⟩],
                   start := [0], incompat := [(2, 5)] }
def fullOff (g : DSG) : Offered := fun _ c => List.range (nOpts g c)
example : exG.WF = true := by decide
example : run exG (fullOff exG) [(0, 1), (1, 0)] [] = some [(1, 0), (0, 1)] := by decide
example : nextChoices exG [(1, 0), (0, 1)] = [] := by decide
example : sortNat (closure exG (assignOf exG [(1, 0), (0, 1)])) = [0, 1, 3, 4, 5] := by decide
example : (allRows exG).length = 3 := by decide

end Adsg.C02
