/-
  C02 — An architecture instance is exactly the derivation closure of the choices made.
  Property theorems only; helper lemmas live in Adsg/Proofs/Closure.lean and Adsg/Proofs/Steps.lean.
-/
import Adsg.Model.Steps
import Adsg.Model.Traversal
import Adsg.Model.Cache
import Adsg.Proofs.Cache
import Adsg.Proofs.Closure
import Adsg.Proofs.Steps
import Adsg.Proofs.Traversal
namespace Adsg.C02
open Adsg

/-- The instance is exactly the set reachable from the start nodes over derivation edges and
    origin → selected-option edges: nothing required is missing, nothing unreachable remains. -/
theorem instance_is_reachable_set (g : DSG) (hw : g.WF = true) (a : Assign) (v : Node) :
    v ∈ closure g a ↔ Reach g a v :=
  mem_closure_iff_reach g hw a v

/-- … and it is the least such set. -/
theorem instance_least (g : DSG) (hw : g.WF = true) (a : Assign) (S : Node → Prop)
    (hs : ∀ v ∈ g.start, S v) (hc : ∀ u, S u → ∀ v ∈ succs g a u, S v) :
    ∀ v ∈ closure g a, S v :=
  closure_least g hw a S hs hc

/-- The instance has no duplicate nodes. -/
theorem instance_nodup (g : DSG) (hw : g.WF = true) (a : Assign) : (closure g a).Nodup :=
  closure_nodup g hw a

/-- **Order independence.** Two valid runs that take the same picks in different orders end in the
    same assignment – hence the same instance, the same active choices and the same row. -/
theorem run_perm (g : DSG) (off : Offered) (ops₁ ops₂ s₁ s₂ : Picks)
    (h₁ : run g off ops₁ [] = some s₁) (h₂ : run g off ops₂ [] = some s₂) (hp : ops₁.Perm ops₂) :
    assignOf g s₁ = assignOf g s₂ ∧ nextChoices g s₁ = nextChoices g s₂ :=
  run_perm_aux g off ops₁ ops₂ s₁ s₂ h₁ h₂ hp

/-- When no active choice is left, the confirmed node set is the closure of *every* total
    assignment extending the picks (values of inactive choices are irrelevant). -/
theorem complete_run_eq_closure (g : DSG) (hw : g.WF = true) (s : Picks)
    (hdone : nextChoices g s = []) (a : Assign)
    (hext : ∀ c k, (assignOf g s).get c = some k → a.get c = some k) (v : Node) :
    v ∈ closure g a ↔ v ∈ closure g (assignOf g s) :=
  complete_run_eq_closure_aux g hw s hdone a hext v

/-- Every admissible assignment is reached by a valid run (the one that always takes the first
    active choice), for every oracle inside the sandwich: the run is accepted, ends with no active
    choice, and its instance and row are those of the assignment. -/
theorem canonical_run_exists (g : DSG) (hw : g.WF = true) (off : Offered) (hs : Sandwich g off)
    (a : Assign) (ha : a ∈ allAssigns g) (hadm : admissible g a = true) :
    ∃ ops s, run g off ops [] = some s ∧ nextChoices g s = [] ∧
      (∀ v, v ∈ closure g (assignOf g s) ↔ v ∈ closure g a) ∧
      row g (assignOf g s) = row g a :=
  canonical_run_exists_aux g hw off hs a ha hadm

/-- Conversely every complete valid run whose instance is conflict-free and satisfies the choice
    constraints is one of the enumerated architectures. Together with `canonical_run_exists`:
    {feasible instances reachable by valid runs} = `allRows g`. -/
theorem feasible_final_is_arch (g : DSG) (hw : g.WF = true) (off : Offered) (hs : Sandwich g off)
    (ops s : Picks) (hr : run g off ops [] = some s) (hdone : nextChoices g s = [])
    (hcf : conflictFreeB g (closure g (assignOf g s)) = true)
    (hcons : consOK g (assignOf g s) = true) :
    row g (assignOf g s) ∈ allRows g :=
  feasible_final_is_arch_aux g hw off hs ops s hr hdone hcf hcons

theorem arch_is_reachable (g : DSG) (hw : g.WF = true) (off : Offered) (hs : Sandwich g off)
    (r : List (Option Nat)) (hr : r ∈ allRows g) :
    ∃ ops s, run g off ops [] = some s ∧ nextChoices g s = [] ∧ row g (assignOf g s) = r :=
  arch_is_reachable_aux g hw off hs r hr

/-! Non-vacuity: a graph with a cycle and a nested choice; the full-options oracle is in the sandwich. -/
def exG : DSG := { n := 6, derives := [(0, 1), (1, 0), (3, 4)], sel := [⟨1, [2, 3]⟩, ⟨4, [5, 0]⟩],
                   start := [0], incompat := [(2, 5)] }
def fullOff (g : DSG) : Offered := fun _ c => List.range (nOpts g c)
example : exG.WF = true := by decide
example : run exG (fullOff exG) [(0, 1), (1, 0)] [] = some [(1, 0), (0, 1)] := by decide
example : nextChoices exG [(1, 0), (0, 1)] = [] := by decide
example : sortNat (closure exG (assignOf exG [(1, 0), (0, 1)])) = [0, 1, 3, 4, 5] := by decide
example : (allRows exG).length = 3 := by decide

/-! ### Function level: what a node confirms (graph/traversal.py) -/

/-- `DerivReach g vs v`: `v` is reachable from `vs` over derivation edges only (no choice taken). -/
abbrev DerivReach (g : DSG) (vs : List Node) (v : Node) : Prop := Reach (g.from vs) [] v

theorem from_wf (g : DSG) (hw : g.WF = true) (vs : List Node) (hv : ∀ v ∈ vs, v < g.n) : (g.from vs).WF = true := by
  unfold DSG.WF DSG.from at *
  simp only [Bool.and_eq_true, List.all_eq_true, decide_eq_true_eq] at hw ⊢
  exact ⟨⟨⟨⟨hw.1.1.1.1, hw.1.1.1.2⟩, hv⟩, hw.1.2⟩, hw.2⟩

/-- The nodes a set of nodes confirms are exactly those reachable over derivation edges. -/
theorem confirmedFrom_exact (g : DSG) (hw : g.WF = true) (vs : List Node) (hv : ∀ v ∈ vs, v < g.n) (v : Node) :
    v ∈ confirmedFrom g vs ↔ DerivReach g vs v :=
  mem_closure_iff_reach (g.from vs) (from_wf g hw vs hv) [] v

/-- **The confirmed edges of a node are complete and sound**: a derivation edge is confirmed by `v`
    exactly if its source is reachable from `v` over derivation edges - whatever was asked before
    (the function has no state in the model; the implementation's cache must be transparent). -/
theorem confirmedEdges_exact (g : DSG) (hw : g.WF = true) (v : Node) (hv : v < g.n) (e : Node × Node) :
    e ∈ confirmedEdges g v ↔ e ∈ g.derives ∧ DerivReach g [v] e.1 := by
  unfold confirmedEdges
  rw [List.mem_filter]
  constructor
  · rintro ⟨he, hc⟩
    exact ⟨he, (confirmedFrom_exact g hw [v] (by simpa using hv) e.1).1 (by simpa using hc)⟩
  · rintro ⟨he, hr⟩
    exact ⟨he, by simpa using (confirmedFrom_exact g hw [v] (by simpa using hv) e.1).2 hr⟩

/-- Confirmation is monotone along derivation: what a confirmed node confirms is confirmed. -/
theorem confirmedEdges_trans (g : DSG) (hw : g.WF = true) (u v : Node) (hu : u < g.n) (hv : v < g.n)
    (huv : DerivReach g [u] v) (e : Node × Node) (he : e ∈ confirmedEdges g v) : e ∈ confirmedEdges g u := by
  rw [confirmedEdges_exact g hw v hv] at he
  rw [confirmedEdges_exact g hw u hu]
  refine ⟨he.1, ?_⟩
  -- reachability composes
  have key : ∀ w, Reach (g.from [v]) [] w → Reach (g.from [u]) [] w := by
    intro w hwr
    induction hwr with
    | @start x hs =>
      have hx : x = v := by simpa [DSG.from] using hs
      rw [hx]; exact huv
    | step _ hs ih => exact Reach.step ih hs
  exact key _ he.2

example : confirmedEdges { n := 5, derives := [(0, 1), (1, 2), (3, 4), (2, 1)], sel := [⟨2, [3]⟩], start := [0], incompat := [] } 1
    = [(1, 2), (2, 1)] := by decide

/-! ### `set_start_nodes`: pruning to the derivable nodes (graph/adsg_basic.py:67-105) -/

/-- Whatever choices are made, an architecture only contains derivable nodes. -/
theorem closure_sub_derivable (g : DSG) (hw : g.WF = true) (a : Assign) (v : Node) (h : v ∈ closure g a) :
    v ∈ derivable g :=
  mem_derivable_of_mem_closure g hw a v h

/-- The pruned graph is well formed. -/
theorem pruneStart_wf (g : DSG) (hw : g.WF = true) : (pruneStart g).WF = true :=
  pruneStart_wellFormed g hw

/-- **Pruning changes no architecture**: for every assignment the instance of the pruned graph has
    exactly the nodes of the instance of the original graph. -/
theorem pruneStart_closure (g : DSG) (hw : g.WF = true) (a : Assign) (v : Node) :
    v ∈ closure (pruneStart g) a ↔ v ∈ closure g a :=
  pruneStart_mem_closure g hw a v

/-- … the same choices are active, … -/
theorem pruneStart_activeChoices (g : DSG) (hw : g.WF = true) (a : Assign) :
    activeChoices (pruneStart g) a = activeChoices g a :=
  pruneStart_activeChoices_eq g hw a

/-- … and the same assignments are admissible. -/
theorem pruneStart_admissible (g : DSG) (hw : g.WF = true) (a : Assign) :
    admissible (pruneStart g) a = admissible g a :=
  pruneStart_admissible_eq g hw a

/-- Nothing underivable is left: every edge, every choice with options, every incompatibility of the
    pruned graph lies inside the derivable nodes. -/
theorem pruneStart_only_derivable (g : DSG) :
    (∀ e ∈ (pruneStart g).derives, e.1 ∈ derivable g ∧ e.2 ∈ derivable g) ∧
    (∀ c ∈ (pruneStart g).sel, c.opts ≠ [] → c.origin ∈ derivable g) ∧
    (∀ e ∈ (pruneStart g).incompat, e.1 ∈ derivable g ∧ e.2 ∈ derivable g) :=
  pruneStart_only_derivable_all g

def exPrune : DSG := { n := 8, derives := [(0,1),(4,3),(3,5),(5,4),(6,7),(7,2)], sel := [⟨1,[2,6]⟩, ⟨5,[0,1]⟩], start := [0], incompat := [(2,3)] }
example : derivable exPrune = [0, 1, 2, 6, 7] := by decide

/-! ### The confirmed-edge cache (graph/traversal.py:379-386, 445-450) -/

/-- **A cache that only ever stores complete answers is transparent**: for every sequence of requests
    (and resets / forced recomputations), in any order and with any repetitions, the answers handed out
    through a per-node cache of `confirmedEdges g` are the freshly computed ones. This is the behaviour
    of the code since fix 00072a1, which stores only the requested node's (complete) edge set. -/
theorem confirmed_edge_cache_transparent (g : DSG) (ops : List (CacheOp Node)) :
    (runCache (fun v : Node => v) (confirmedEdges g) ops []).1 = specOutputs (confirmedEdges g) ops :=
  runCache_transparent (fun v : Node => v) (confirmedEdges g) (fun _ _ h => by rw [h]) ops []
    (fun _ hp => nomatch hp)

/-- … and from any store all of whose entries are complete. -/
theorem confirmed_edge_cache_transparent_from (g : DSG) (st : Store Node (List (Node × Node)))
    (hst : ∀ p ∈ st, p.2 = confirmedEdges g p.1) (ops : List (CacheOp Node)) :
    (runCache (fun v : Node => v) (confirmedEdges g) ops st).1 = specOutputs (confirmedEdges g) ops :=
  runCache_transparent (fun v : Node => v) (confirmedEdges g) (fun _ _ h => by rw [h]) ops st
    (fun p hp => ⟨p.1, rfl, (hst p hp).symm⟩)

/-- The completeness of the entries is necessary: a store holding a partial edge set for a node (what
    the code before 00072a1 wrote for nodes traversed on the way) hands out a wrong answer. -/
def exChain : DSG := { n := 3, derives := [(0, 1), (1, 2)], sel := [], start := [0], incompat := [] }
theorem partial_entry_breaks_transparency :
    (runCache (fun v : Node => v) (confirmedEdges exChain) [.get 0] [(0, [(0, 1)])]).1 ≠
      specOutputs (confirmedEdges exChain) [.get 0] := by
  decide

end Adsg.C02
