/-
  C16 — Design-variable nodes receive in-range values exactly when they exist.
  Property theorems only (helper lemmas are local `private`); model: Adsg/Model/DV.lean.
-/
import Adsg.Model.DV
namespace Adsg.C16
open Adsg

/-- The corrected value is inside the declared domain (discrete: a valid option index). -/
theorem correct_in_domain (d : DVDom) (h : d.WF = true) (v : Int) : d.inDom (d.correct v) = true := by
  cases d with
  | discrete n =>
    simp only [DVDom.WF, decide_eq_true_eq] at h
    simp only [DVDom.correct, DVDom.inDom, correctDiscrete]
    split <;> (try split) <;> simp <;> omega
  | cont lo hi =>
    simp only [DVDom.WF, decide_eq_true_eq] at h
    simp only [DVDom.correct, DVDom.inDom, correctCont, clampG]
    split <;> (try split) <;> simp <;> omega

/-- A value that already lies in the domain is unchanged. -/
theorem correct_id_on_domain (d : DVDom) (v : Int) (h : d.inDom v = true) : d.correct v = v := by
  cases d with
  | discrete n =>
    simp only [DVDom.inDom, Bool.and_eq_true, decide_eq_true_eq] at h
    simp only [DVDom.correct, correctDiscrete]
    split
    · omega
    · split <;> omega
  | cont lo hi =>
    simp only [DVDom.inDom, Bool.and_eq_true, decide_eq_true_eq] at h
    simp only [DVDom.correct, correctCont, clampG]
    split
    · omega
    · split <;> omega

/-- Correction is idempotent. -/
theorem correct_idempotent (d : DVDom) (h : d.WF = true) (v : Int) :
    d.correct (d.correct v) = d.correct v :=
  correct_id_on_domain d _ (correct_in_domain d h v)

/-- Correction is monotone (clamping never reorders values). -/
theorem correct_monotone (d : DVDom) (h : d.WF = true) (v w : Int) (hvw : v ≤ w) :
    d.correct v ≤ d.correct w := by
  cases d with
  | discrete n =>
    simp only [DVDom.WF, decide_eq_true_eq] at h
    simp only [DVDom.correct, correctDiscrete]
    split <;> split <;> (try split) <;> (try split) <;> omega
  | cont lo hi =>
    simp only [DVDom.WF, decide_eq_true_eq] at h
    simp only [DVDom.correct, correctCont, clampG]
    split <;> split <;> (try split) <;> (try split) <;> omega

/-- The corrected continuous value is one of the three inputs (so the float the code returns is one
    of `value`, `lower`, `upper` – no arithmetic, no rounding). -/
theorem cont_is_pick (lo hi v : Int) : correctCont lo hi v = (pickCont lo hi v).eval lo hi v := by
  simp only [correctCont, clampG, pickCont]
  split
  · rfl
  · split <;> rfl

/-- Python's `int()` on a value already integral is the identity (so integral in-range design
    variable values reach the node unchanged). -/
theorem trunc_integral (k : Int) : pyTrunc k 1 = k := by
  simp [pyTrunc]

/-- Truncation moves toward zero and by less than one: the index the node gets for a non-integer
    input `num/den` is the integer part. -/
theorem trunc_bounds (num : Int) (den : Nat) (hd : 0 < den) (hn : 0 ≤ num) :
    pyTrunc num den * den ≤ num ∧ num < (pyTrunc num den + 1) * den := by
  have hd' : (0 : Int) < den := by exact_mod_cast hd
  simp only [pyTrunc]
  rw [Int.tdiv_eq_ediv_of_nonneg hn]
  constructor
  · exact Int.ediv_mul_le num (Int.ne_of_gt hd')
  · have := Int.lt_ediv_add_one_mul_self num hd'
    simpa using this

/-- Decode contract of one DV variable: active iff the node exists; active ⇒ in-domain corrected
    value; absent ⇒ canonical inactive value. -/
theorem decode_dv_iff_exists (d : DVDom) (ex : Bool) (v : Int) :
    (∃ w, decodeDV d ex v = .active w) ↔ ex = true := by
  cases ex <;> cases d <;> simp [decodeDV]

theorem decode_dv_active_value (d : DVDom) (h : d.WF = true) (v w : Int)
    (hd : decodeDV d true v = .active w) : w = d.correct v ∧ d.inDom w = true := by
  simp only [decodeDV, if_true, DVOut.active.injEq] at hd
  subst hd
  exact ⟨rfl, correct_in_domain d h v⟩

theorem decode_dv_absent_canonical (d : DVDom) (v : Int) :
    decodeDV d false v = (match d with | .discrete _ => .inactiveZero | .cont _ _ => .inactiveMid) := by
  cases d <;> simp [decodeDV]

/-- The decode of a DV variable is a fixed point: feeding the reported value back gives the same
    report. -/
theorem decode_dv_idempotent (d : DVDom) (h : d.WF = true) (ex : Bool) (v w : Int)
    (hd : decodeDV d ex v = .active w) : decodeDV d ex w = .active w := by
  cases ex with
  | false => cases d <;> simp [decodeDV] at hd
  | true =>
    obtain ⟨rfl, _⟩ := decode_dv_active_value d h v w hd
    simp [decodeDV, correct_idempotent d h v]

/-- Linked discrete nodes (same option count) carry the same index, which is in the domain of both. -/
theorem linked_discrete_same_index (n : Nat) (h : 1 ≤ n) (v : Int) :
    (DVDom.discrete n).inDom (correctDiscrete n v) = true :=
  correct_in_domain (.discrete n) (by simpa [DVDom.WF] using h) v

/-- Correction is the *nearest* in-domain value (a projection): no other admissible value is closer
    to the input than the one the node receives. -/
theorem correct_nearest (d : DVDom) (h : d.WF = true) (v w : Int) (hw : d.inDom w = true) :
    (d.correct v - v).natAbs ≤ (w - v).natAbs := by
  cases d with
  | discrete n =>
    simp only [DVDom.WF, decide_eq_true_eq] at h
    simp only [DVDom.inDom, Bool.and_eq_true, decide_eq_true_eq] at hw
    simp only [DVDom.correct, correctDiscrete]
    split <;> (try split) <;> omega
  | cont lo hi =>
    simp only [DVDom.WF, decide_eq_true_eq] at h
    simp only [DVDom.inDom, Bool.and_eq_true, decide_eq_true_eq] at hw
    simp only [DVDom.correct, correctCont, clampG]
    split <;> (try split) <;> omega

/-- A value is changed by correction only when it lies outside the domain. -/
theorem correct_changes_only_outside (d : DVDom) (v : Int) (hne : d.correct v ≠ v) :
    d.inDom v = false := by
  cases hd : d.inDom v with
  | false => rfl
  | true => exact absurd (correct_id_on_domain d v hd) hne

/-- Truncation of a negative input also moves toward zero and by less than one (Python's `int()`
    is not `floor`): `int(-0.5) = 0`, so a slightly negative value selects option 0 directly. -/
theorem trunc_bounds_neg (num : Int) (den : Nat) (hd : 0 < den) (hn : num ≤ 0) :
    num ≤ pyTrunc num den * den ∧ (pyTrunc num den - 1) * den < num := by
  have hd' : (0 : Int) < den := by exact_mod_cast hd
  obtain ⟨m, rfl⟩ : ∃ m : Int, num = -m := ⟨-num, by omega⟩
  have hm : 0 ≤ m := by omega
  simp only [pyTrunc]
  rw [Int.neg_tdiv, Int.tdiv_eq_ediv_of_nonneg hm]
  have h1 := Int.ediv_mul_le m (Int.ne_of_gt hd')
  have h2 := Int.lt_ediv_add_one_mul_self m hd'
  constructor
  · rw [Int.neg_mul]; omega
  · have : (-(m / (den : Int)) - 1) * (den : Int) = -((m / (den : Int) + 1) * (den : Int)) := by
      rw [← Int.neg_mul]; congr 1; omega
    rw [this]; omega

/-- Truncation never leaves the sign class: a non-negative input gives a non-negative index and a
    non-positive input a non-positive one (which `correct_value` then clamps to 0). -/
theorem trunc_sign (num : Int) (den : Nat) :
    (0 ≤ num → 0 ≤ pyTrunc num den) ∧ (num ≤ 0 → pyTrunc num den ≤ 0) := by
  constructor
  · intro hn
    simp only [pyTrunc]
    rw [Int.tdiv_eq_ediv_of_nonneg hn]
    exact Int.ediv_nonneg hn (Int.natCast_nonneg den)
  · intro hn
    obtain ⟨m, rfl⟩ : ∃ m : Int, num = -m := ⟨-num, by omega⟩
    have hm : 0 ≤ m := by omega
    simp only [pyTrunc]
    rw [Int.neg_tdiv, Int.tdiv_eq_ediv_of_nonneg hm]
    have := Int.ediv_nonneg hm (Int.natCast_nonneg den)
    omega

/-! Non-vacuity: concrete non-trivial instances of the hypotheses / conclusions. -/
example : (DVDom.discrete 3).WF = true ∧ (DVDom.discrete 3).correct 7 = 2 ∧ (DVDom.discrete 3).correct (-4) = 0 := by decide
example : (DVDom.cont (-5) 7).WF = true ∧ (DVDom.cont (-5) 7).correct 9 = 7 ∧ (DVDom.cont (-5) 7).correct 1 = 1 := by decide
example : pyTrunc (-1) 2 = 0 ∧ pyTrunc 7 2 = 3 ∧ pyTrunc (-7) 2 = -3 := by decide
example : decodeDV (.discrete 3) true 5 = .active 2 ∧ decodeDV (.cont 0 4) false 3 = .inactiveMid := by decide

end Adsg.C16
