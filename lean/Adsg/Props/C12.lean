/-
  C12 — Encoder selection always succeeds and disk caches are transparent.
  Model: Adsg/Model/Cache.lean (store algebra, structured key), Adsg/Model/Select.lean (decision
  logic). What is NOT in the model: time limits, scoring floats, pickling, md5/hash digests.
-/
import Adsg.Model.Cache
import Adsg.Model.Select
import Adsg.Proofs.Cache
namespace Adsg.C12
open Adsg

/-- **Cache transparency.** If equal keys imply equal computed values, then for every history of
    get / reset / uncached-get operations starting from the empty store every value handed out is
    the freshly computed one. -/
theorem cache_transparent {S K V : Type} [BEq K] [LawfulBEq K] (keyOf : S → K) (compute : S → V)
    (hinj : ∀ s s', keyOf s = keyOf s' → compute s = compute s') (ops : List (CacheOp S)) :
    (runCache keyOf compute ops []).1 = specOutputs compute ops :=
  runCache_transparent keyOf compute hinj ops [] (fun _ hp => nomatch hp)

/-- The same from any store all of whose entries are genuine (written by earlier runs, also of other
    processes, for settings with that key). -/
theorem cache_transparent_from {S K V : Type} [BEq K] [LawfulBEq K] (keyOf : S → K) (compute : S → V)
    (hinj : ∀ s s', keyOf s = keyOf s' → compute s = compute s') (st : Store K V)
    (hst : ∀ p ∈ st, ∃ s, keyOf s = p.1 ∧ compute s = p.2) (ops : List (CacheOp S)) :
    (runCache keyOf compute ops st).1 = specOutputs compute ops :=
  runCache_transparent keyOf compute hinj ops st hst

/-- Sorting the excluded pairs keeps exactly the same pairs. -/
theorem mem_sortPairs (l : List (Nat × Nat)) (e : Nat × Nat) : e ∈ sortPairs l ↔ e ∈ l :=
  mem_sortPairs' l e

/-- **Two different settings never share a cache entry**: equal structured keys mean the same nodes,
    patterns and parallel limit and the same *set* of excluded pairs … -/
theorem keyOf_injective (a b : FullSettings) (h : keyOf a = keyOf b) :
    a.s.src = b.s.src ∧ a.s.tgt = b.s.tgt ∧ a.pats = b.pats ∧ a.s.parallel = b.s.parallel ∧
    (∀ e, e ∈ a.s.excluded ↔ e ∈ b.s.excluded) :=
  keyOf_inj a b h

/-- … hence exactly the same valid connection sets in every pattern (the cached matrices are
    interchangeable). -/
theorem equal_keys_same_connection_sets (a b : FullSettings) (h : keyOf a = keyOf b)
    (e : Existence) (M : Matrix) : validMatrix a.s e M = validMatrix b.s e M :=
  validMatrix_of_keyOf_eq a b h e M

/-- The key does not depend on the order in which excluded pairs were given. -/
theorem keyOf_perm_excluded (f : FullSettings) (ex' : List (Nat × Nat)) (hp : f.s.excluded.Perm ex') :
    keyOf { f with s := { f.s with excluded := ex' } } = keyOf f :=
  keyOf_perm f ex' hp

/-- Whatever `_get_best` returns is an index of the score table. -/
theorem getBest_in_range (p : SelParams) (scores : List Score) (byInf : Bool) (np : Option Nat) (i : Nat)
    (h : getBest p scores byInf np = some i) : i < scores.length :=
  getBest_lt p scores byInf np i h

/-- **The last stage always selects**: on a non-empty score table "by information index, no priority
    limit" returns an index – so selection fails only if no candidate could be instantiated at all. -/
theorem getBest_total (p : SelParams) (scores : List Score) (h : scores ≠ []) :
    ∃ i, getBest p scores true none = some i ∧ i < scores.length :=
  getBest_true_none p scores h

theorem selectStaged_total (p : SelParams) (stages : List (List Score × Bool × Option Nat)) (final : List Score)
    (h : final ≠ []) : ∃ i, selectStaged p stages final = some i :=
  selectStaged_isSome p stages final h

/-! #### Store algebra: a repeated lookup is a no-op, a reset forgets exactly one key -/

/-- A second cached lookup of the same settings returns the same value and leaves the store as it
    is (nothing is recomputed or rewritten). -/
theorem cachedGet_idempotent {S K V : Type} [BEq K] [LawfulBEq K] (keyOf : S → K) (compute : S → V)
    (st : Store K V) (s : S) :
    cachedGet keyOf compute (cachedGet keyOf compute st s).2 s = cachedGet keyOf compute st s := by
  unfold cachedGet
  cases h : st.get? (keyOf s) with
  | some v => simp [h]
  | none => simp [Store.get?]

/-- A cached lookup never drops or changes an entry: every key present before is still present
    with the same value. -/
theorem cachedGet_preserves {S K V : Type} [BEq K] [LawfulBEq K] (keyOf : S → K) (compute : S → V)
    (st : Store K V) (s : S) (k : K) (v : V) (hk : st.get? k = some v) :
    (cachedGet keyOf compute st s).2.get? k = some v := by
  unfold cachedGet
  cases h : st.get? (keyOf s) with
  | some w => simpa using hk
  | none =>
    by_cases hks : keyOf s = k
    · subst hks; rw [h] at hk; cases hk
    · simp only [Store.get?, List.find?_cons]
      have : (keyOf s == k) = false := by simpa using hks
      simp only [this]
      exact hk

/-- Resetting the cache for some settings forgets that key … -/
theorem reset_forgets {K V : Type} [BEq K] [LawfulBEq K] (st : Store K V) (k : K) :
    Store.get? (st.filter (fun p => !(p.1 == k))) k = none := by
  unfold Store.get?
  rw [Option.map_eq_none_iff, List.find?_eq_none]
  intro p hp
  have := (List.mem_filter.1 hp).2
  simpa using this

/-- … and only that key: every other entry is untouched. -/
theorem reset_keeps_others {K V : Type} [BEq K] [LawfulBEq K] (st : Store K V) (k k' : K) (hne : k' ≠ k) :
    Store.get? (st.filter (fun p => !(p.1 == k))) k' = Store.get? st k' := by
  unfold Store.get?
  congr 1
  induction st with
  | nil => rfl
  | cons p ps ih =>
    simp only [List.filter_cons]
    by_cases hp : p.1 = k
    · have h1 : (p.1 == k) = true := by simpa using hp
      have h2 : (p.1 == k') = false := by
        simp only [beq_eq_false_iff_ne, ne_eq]; rw [hp]; exact fun h => hne h.symm
      simp [h1, h2, ih]
    · have h1 : (p.1 == k) = false := by simpa using hp
      simp only [h1, Bool.not_false, if_true, List.find?_cons, ih]

/-! Non-vacuity -/
def exP : SelParams := { one := 100, limits := [1000, 4000], minCorr := 70 }
def exScores : List Score := [⟨250, 40, none⟩, ⟨100, 10, some 20⟩, ⟨100, 30, none⟩]
example : getBest exP exScores false (some 4) = none := by decide
example : getBest exP exScores true none = some 0 := by decide
example : getBest exP exScores false none = some 1 := by decide
example : (runCache (fun n : Nat => n % 3) (fun n : Nat => (n % 3) * 10)
    [.get 4, .get 7, .reset 1, .fresh 10, .get 5] []).1 = [10, 10, 10, 20] := by decide
example : keyOf ⟨{ src := [], tgt := [], excluded := [(1, 0), (0, 2)] }, []⟩ =
          keyOf ⟨{ src := [], tgt := [], excluded := [(0, 2), (1, 0)] }, []⟩ := by decide

end Adsg.C12
