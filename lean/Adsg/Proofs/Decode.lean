/-
  Helper lemmas for the decode model (Adsg/Model/Decode.lean): structure of the corrected vector,
  lifting of the manager-layer (C10) and DV-layer (C16) lemmas to whole vectors.
-/
import Adsg.Model.Decode
import Adsg.Proofs.Design
import Adsg.Proofs.Enc
import Adsg.Props.C10
import Adsg.Props.C16
namespace Adsg

/-! ### `slices` -/

theorem slices_length (ns : List Nat) (x : List Int) : (slices ns x).length = ns.length := by
  induction ns generalizing x with
  | nil => rfl
  | cons n ns ih => simp [slices, ih]

/-- A long enough vector is cut into slices of exactly the requested lengths. -/
theorem slices_getD_length (ns : List Nat) (x : List Int) (h : ns.sum ≤ x.length) (k : Nat)
    (hk : k < ns.length) : ((slices ns x).getD k []).length = ns.getD k 0 := by
  induction ns generalizing x k with
  | nil => simp at hk
  | cons n ns ih =>
    simp only [List.sum_cons] at h
    cases k with
    | zero => simp [slices]; omega
    | succ k =>
      simp only [slices, List.getD_cons_succ]
      exact ih _ (by simp; omega) k (by simpa using hk)

/-- Cutting a concatenation of blocks at the block lengths returns the blocks. -/
theorem slices_blocks (bs : List (List Int)) (rest : List Int) :
    slices (bs.map List.length) (bs.flatten ++ rest) = bs := by
  induction bs with
  | nil => rfl
  | cons b bs ih => simp [slices, ih]

/-! ### normal form of `decodeWith` -/

/-- The assignment a vector decodes to. -/
def Enc.asg (E : Enc) (x : List Int) : Assign := E.pick (x.take E.selVars.length)
/-- Declared lengths of the connection slices. -/
def Enc.connLens (E : Enc) : List Nat := E.connNOpts.map List.length
/-- The slice of connection choice `k` of a vector. -/
def Enc.connIn (E : Enc) (x : List Int) (k : Nat) : List Int :=
  (slices E.connLens (x.drop E.selVars.length)).getD k []
/-- The input value of design-variable node `i` of a vector. -/
def Enc.dvIn (E : Enc) (x : List Int) (i : Nat) : Int := (x.drop E.dvOff).getD i 0

/-- `decodeWith` as a function of the three things it reads off the vector: the assignment, the
    connection slices, the DV values. -/
def assemble (mgr : Mgr) (P : Problem) (E : Enc) (a : Assign) (cs : Nat → List Int) (dv : Nat → Int) :
    Decoded :=
  let X := closure P.g a
  let co := fun k => decodeConn mgr P E X k (cs k)
  let dvo := fun i => decodeDVVar X (P.dvs.getD i default) (dv i)
  { design := { row := row P.g a, mats := (List.range P.conn.length).map (fun k => (co k).2.2),
                dvals := (List.range P.dvs.length).map (fun i => (dvo i).2.2) },
    vals := (List.range P.dvs.length).map (fun i => if (dvo i).2.1 then some (dvo i).1 else none),
    x := selVec P.g E a ++ (List.range P.conn.length).flatMap (fun k => (co k).1) ++
          (List.range P.dvs.length).map (fun i => (dvo i).1),
    act := selAct P.g E a ++ (List.range P.conn.length).flatMap (fun k => (co k).2.1) ++
          (List.range P.dvs.length).map (fun i => (dvo i).2.1) }

/-- Unfold `decodeWith` once; everything else is stated about `assemble`. -/
theorem decodeWith_eq (mgr : Mgr) (P : Problem) (E : Enc) (x : List Int) :
    decodeWith mgr P E x = assemble mgr P E (E.asg x) (E.connIn x) (E.dvIn x) := by
  simp only [decodeWith, assemble, List.map_map, List.flatMap_map]
  rfl

/-! ### manager layer: two more facts -/

theorem mats_nodup_of_wf {t : Table} {nOpts : List Nat} (h : t.WF nOpts = true) :
    (t.map (·.2)).Nodup := by
  simp only [Table.WF, Bool.and_eq_true] at h
  exact (pairwiseDistinct_iff_nodup _).1 h.2

/-- The matrix determines the whole manager output (for inputs of equal length): matrices of a
    well-formed table are pairwise distinct. -/
theorem managerGet_eq_of_mat (t : Table) (nOpts : List Nat) (imp : List Int → Nat)
    (h : C10.Ctx t nOpts imp) (x y : List Int) (hx : nOpts.length ≤ x.length)
    (hxy : x.length = y.length)
    (heq : (managerGet (some t) nOpts imp x).2.2 = (managerGet (some t) nOpts imp y).2.2) :
    managerGet (some t) nOpts imp x = managerGet (some t) nOpts imp y := by
  have w := WFP.of_wf h.wf
  obtain ⟨i, hi, hex, hmx⟩ := managerGet_row w h.imp_lt x hx
  obtain ⟨j, hj, hey, hmy⟩ := managerGet_row w h.imp_lt y (hxy ▸ hx)
  rw [hmx, hmy] at heq
  have hnd := mats_nodup_of_wf h.wf
  have hij : i = j := by
    have e : (t.map (·.2))[i]'(by simpa using hi) = (t.map (·.2))[j]'(by simpa using hj) := by
      simpa [List.getD_eq_getElem?_getD, List.getElem?_eq_getElem hi, List.getElem?_eq_getElem hj]
        using heq
    exact (hnd.getElem_inj_iff).1 e
  subst hij
  apply managerGet_congr
  rw [hex, hey, hxy]

theorem managerGetImpl_act_length (t : Option Table) (nOpts : List Nat) (imp : List Int → Nat)
    (x : List Int) :
    (managerGetImpl t nOpts imp x).2.1.length = (managerGetImpl t nOpts imp x).1.length := by
  simp [managerGetImpl, correctIsActive]

/-! ### feasible assignments and the per-connection context -/

theorem feasibleAssign_iff (P : Problem) (a : Assign) :
    feasibleAssign P a = true ↔ a ∈ allAssigns P.g ∧ admissible P.g a = true ∧
      ∀ k ∈ P.conn, connSets (closure P.g a) k ≠ [] := by
  simp [feasibleAssign, and_assoc]

/-- Per connection choice of a feasible architecture: if present, the table exists, satisfies the hypotheses of
    the C10 theorems, and its matrices are exactly the valid connection sets. -/
theorem EncOK.ctx {P : Problem} {E : Enc} (h : EncOK P E) {a : Assign}
    (ha : feasibleAssign P a = true) {k : Nat} (hk : k < P.conn.length)
    (hp : connPresent (closure P.g a) (P.conn.getD k default) = true) :
    ∃ t, (E.tables.getD k (fun _ => none)) (closure P.g a) = some t ∧
      C10.Ctx t (E.connNOpts.getD k []) ((E.imps.getD k (fun _ _ => 0)) (closure P.g a)) ∧
      (∀ M, M ∈ t.map (·.2) ↔ M ∈ connSets (closure P.g a) (P.conn.getD k default)) := by
  obtain ⟨t, ht, hwf, hm, hpos, himp⟩ := h.table_ok a ha k hk hp
  refine ⟨t, ht, ⟨hwf, ?_, hpos, himp⟩, hm⟩
  intro e
  have := himp []
  simp [e] at this

/-- A connection choice that is present is decoded through its manager. -/
theorem decodeConn_of_present (mgr : Mgr) (P : Problem) (E : Enc) (X : List Node) (k : Nat)
    (xk : List Int) (t : Table) (hp : connPresent X (P.conn.getD k default) = true)
    (ht : (E.tables.getD k (fun _ => none)) X = some t) :
    decodeConn mgr P E X k xk =
      ((mgr (some t) (E.connNOpts.getD k []) ((E.imps.getD k (fun _ _ => 0)) X) xk).1,
       (mgr (some t) (E.connNOpts.getD k []) ((E.imps.getD k (fun _ _ => 0)) X) xk).2.1,
       (mgr (some t) (E.connNOpts.getD k []) ((E.imps.getD k (fun _ _ => 0)) X) xk).2.2.getD []) := by
  simp only [decodeConn, ht, hp, if_true]

/-- A connection choice that is absent: inactive zeros, the (single) empty connection set. -/
theorem decodeConn_of_absent (mgr : Mgr) (P : Problem) (E : Enc) (X : List Node) (k : Nat)
    (xk : List Int) (hp : connPresent X (P.conn.getD k default) = false) :
    decodeConn mgr P E X k xk = (List.replicate xk.length 0, List.replicate xk.length false,
      (connSets X (P.conn.getD k default)).headD []) := by
  simp only [decodeConn, hp]
  rfl

theorem connPresent_congr (X Y : List Node) (h : ∀ v, X.contains v = Y.contains v) (k : ConnChoice) :
    connPresent X k = connPresent Y k := by
  simp only [connPresent, h]

/-- `decodeConn` depends on the node set only through membership. -/
theorem decodeConn_congr {P : Problem} {E : Enc} (h : EncOK P E) (mgr : Mgr) (X Y : List Node)
    (hXY : ∀ v, v ∈ X ↔ v ∈ Y) (k : Nat) (xk : List Int) :
    decodeConn mgr P E X k xk = decodeConn mgr P E Y k xk := by
  have hc := contains_congr_of_mem X Y hXY
  simp only [decodeConn, h.table_congr k X Y hXY, h.imp_congr k X Y hXY,
    connPresent_congr X Y hc, connSets_congr X Y hc]

section conn
variable {P : Problem} {E : Enc} (h : EncOK P E) {a : Assign} (ha : feasibleAssign P a = true)
  {k : Nat} (hk : k < P.conn.length) (xk : List Int)
  (hx : (E.connNOpts.getD k []).length ≤ xk.length)
include h ha hk hx

/-- Reference manager: corrected slice and activeness have the length of the slice. -/
theorem decodeConn_ref_length :
    (decodeConn managerGet P E (closure P.g a) k xk).1.length = xk.length ∧
    (decodeConn managerGet P E (closure P.g a) k xk).2.1.length = xk.length := by
  cases hp : connPresent (closure P.g a) (P.conn.getD k default) with
  | false => simp [decodeConn_of_absent _ _ _ _ _ _ hp]
  | true =>
    obtain ⟨t, ht, c, -⟩ := h.ctx ha hk hp
    rw [decodeConn_of_present _ _ _ _ _ _ t hp ht]
    have := C10.get_in_range t _ _ c xk hx
    exact ⟨this.1, this.2.1⟩

/-- Implemented and reference manager return the same corrected slice and matrix. -/
theorem decodeConn_impl_same :
    (decodeConn managerGetImpl P E (closure P.g a) k xk).1 =
      (decodeConn managerGet P E (closure P.g a) k xk).1 ∧
    (decodeConn managerGetImpl P E (closure P.g a) k xk).2.2 =
      (decodeConn managerGet P E (closure P.g a) k xk).2.2 := by
  cases hp : connPresent (closure P.g a) (P.conn.getD k default) with
  | false => simp [decodeConn_of_absent _ _ _ _ _ _ hp]
  | true =>
    obtain ⟨t, ht, c, -⟩ := h.ctx ha hk hp
    rw [decodeConn_of_present _ _ _ _ _ _ t hp ht, decodeConn_of_present _ _ _ _ _ _ t hp ht]
    obtain ⟨h1, h2⟩ := C10.impl_same_vector_and_matrix t _ _ c xk hx
    exact ⟨h1, by simp only [h2]⟩

theorem decodeConn_impl_length :
    (decodeConn managerGetImpl P E (closure P.g a) k xk).1.length = xk.length ∧
    (decodeConn managerGetImpl P E (closure P.g a) k xk).2.1.length = xk.length := by
  have h1 := (decodeConn_impl_same h ha hk xk hx).1
  have h2 := (decodeConn_ref_length h ha hk xk hx).1
  refine ⟨by rw [h1, h2], ?_⟩
  cases hp : connPresent (closure P.g a) (P.conn.getD k default) with
  | false => simp [decodeConn_of_absent _ _ _ _ _ _ hp]
  | true =>
    rw [← h2, ← h1]
    simp only [decodeConn, hp, if_true]
    exact managerGetImpl_act_length _ _ _ _

/-- The decoded matrix is one of the valid connection sets of the architecture. -/
theorem decodeConn_mat_mem :
    (decodeConn managerGet P E (closure P.g a) k xk).2.2 ∈
      connSets (closure P.g a) (P.conn.getD k default) := by
  cases hp : connPresent (closure P.g a) (P.conn.getD k default) with
  | false =>
    rw [decodeConn_of_absent _ _ _ _ _ _ hp]
    have hne := ((feasibleAssign_iff P a).1 ha).2.2 (P.conn.getD k default)
      (by simp [List.getD_eq_getElem?_getD, hk])
    cases hcs : connSets (closure P.g a) (P.conn.getD k default) with
    | nil => exact absurd hcs hne
    | cons M _ => simp
  | true =>
    obtain ⟨t, ht, c, hm⟩ := h.ctx ha hk hp
    rw [decodeConn_of_present _ _ _ _ _ _ t hp ht]
    obtain ⟨i, hi, -, he⟩ := C10.get_valid t _ _ c xk hx
    simp only [he, Option.getD_some]
    rw [← hm]
    exact List.mem_map.2 ⟨_, getD_mem t i hi, rfl⟩

/-- Decoding the corrected slice again changes nothing (reference manager). -/
theorem decodeConn_idem :
    decodeConn managerGet P E (closure P.g a) k (decodeConn managerGet P E (closure P.g a) k xk).1 =
      decodeConn managerGet P E (closure P.g a) k xk := by
  cases hp : connPresent (closure P.g a) (P.conn.getD k default) with
  | false => simp [decodeConn_of_absent _ _ _ _ _ _ hp]
  | true =>
    obtain ⟨t, ht, c, -⟩ := h.ctx ha hk hp
    simp only [decodeConn_of_present _ _ _ _ _ _ t hp ht]
    rw [C10.get_idempotent t _ _ c xk hx]

/-- The corrected slice lies in the declared ranges. -/
theorem decodeConn_range (i : Nat) (hi : i < (E.connNOpts.getD k []).length) :
    0 ≤ (decodeConn managerGet P E (closure P.g a) k xk).1.getD i 0 ∧
    (decodeConn managerGet P E (closure P.g a) k xk).1.getD i 0 < ((E.connNOpts.getD k [])[i] : Int) := by
  cases hp : connPresent (closure P.g a) (P.conn.getD k default) with
  | false =>
    rw [decodeConn_of_absent _ _ _ _ _ _ hp]
    have hk' : k < E.connNOpts.length := h.conn_len.1 ▸ hk
    have hpos := h.conn_pos (E.connNOpts.getD k []) (by simp [List.getD_eq_getElem?_getD, hk'])
      _ (List.getElem_mem hi)
    have : (List.replicate xk.length (0 : Int)).getD i 0 = 0 := by
      simp only [List.getD_eq_getElem?_getD, List.getElem?_replicate]
      split <;> rfl
    rw [this]; omega
  | true =>
    obtain ⟨t, ht, c, -⟩ := h.ctx ha hk hp
    rw [decodeConn_of_present _ _ _ _ _ _ t hp ht]
    exact (C10.get_in_range t _ _ c xk hx).2.2.1 i hi

/-- Equal matrices mean equal decodes of the slice. -/
theorem decodeConn_eq_of_mat (yk : List Int) (hxy : xk.length = yk.length)
    (heq : (decodeConn managerGet P E (closure P.g a) k xk).2.2 =
      (decodeConn managerGet P E (closure P.g a) k yk).2.2) :
    decodeConn managerGet P E (closure P.g a) k xk = decodeConn managerGet P E (closure P.g a) k yk := by
  cases hp : connPresent (closure P.g a) (P.conn.getD k default) with
  | false => simp [decodeConn_of_absent _ _ _ _ _ _ hp, hxy]
  | true =>
    obtain ⟨t, ht, c, -⟩ := h.ctx ha hk hp
    simp only [decodeConn_of_present _ _ _ _ _ _ t hp ht] at heq ⊢
    obtain ⟨i, hi, -, hex⟩ := C10.get_valid t _ _ c xk hx
    obtain ⟨j, hj, -, hey⟩ := C10.get_valid t _ _ c yk (hxy ▸ hx)
    have : (managerGet (some t) (E.connNOpts.getD k []) (E.imps.getD k (fun _ _ => 0) (closure P.g a)) xk).2.2 =
        (managerGet (some t) (E.connNOpts.getD k []) (E.imps.getD k (fun _ _ => 0) (closure P.g a)) yk).2.2 := by
      rw [hex, hey] at heq ⊢
      simpa using heq
    rw [managerGet_eq_of_mat t _ _ c xk yk hx hxy this]

end conn

/-! ### design-variable nodes -/

theorem decodeDVVar_of_mem (X : List Node) (d : DVNodeSpec) (v : Int) (h : X.contains d.node = true) :
    decodeDVVar X d v = (d.dom.correct v, true,
      some (match d.dom with | .discrete _ => d.dom.correct v | .cont lo _ => lo)) := by
  simp only [decodeDVVar, decodeDV, h, if_true]
  cases d.dom <;> rfl

theorem decodeDVVar_of_not_mem (X : List Node) (d : DVNodeSpec) (v : Int)
    (h : X.contains d.node = false) : decodeDVVar X d v = (d.dom.canon, false, none) := by
  cases hd : d.dom <;> simp only [decodeDVVar, decodeDV, h, hd, DVDom.canon] <;> rfl

/-- The recorded design value is one of the node's choices in the architecture. -/
theorem decodeDVVar_mem (X : List Node) (d : DVNodeSpec) (v : Int) (hw : d.dom.WF = true) :
    (decodeDVVar X d v).2.2 ∈ dvChoices X d := by
  cases hc : X.contains d.node with
  | false => simp only [decodeDVVar_of_not_mem X d v hc, dvChoices, hc]; simp
  | true =>
    rw [decodeDVVar_of_mem X d v hc]
    simp only [dvChoices, hc, if_true]
    apply List.mem_map_of_mem
    have hin := C16.correct_in_domain d.dom hw v
    cases hd : d.dom with
    | cont lo hi => simp [DVDom.values]
    | discrete n =>
      rw [hd] at hin
      simp only [DVDom.inDom, Bool.and_eq_true, decide_eq_true_eq] at hin
      simp only [DVDom.values, List.mem_map, List.mem_range]
      exact ⟨(DVDom.correct (.discrete n) v).toNat, by omega, by simp; omega⟩

/-- Decoding the reported value again changes nothing. -/
theorem decodeDVVar_idem (X : List Node) (d : DVNodeSpec) (v : Int) (hw : d.dom.WF = true) :
    decodeDVVar X d (decodeDVVar X d v).1 = decodeDVVar X d v := by
  cases hc : X.contains d.node with
  | false => simp [decodeDVVar_of_not_mem X d _ hc]
  | true =>
    simp only [decodeDVVar_of_mem X d _ hc, C16.correct_idempotent d.dom hw v]

/-- The carried value determines the decode of the variable. -/
theorem decodeDVVar_eq_of_val (X : List Node) (d : DVNodeSpec) (v w : Int)
    (h : (if (decodeDVVar X d v).2.1 then some (decodeDVVar X d v).1 else none) =
      (if (decodeDVVar X d w).2.1 then some (decodeDVVar X d w).1 else none)) :
    decodeDVVar X d v = decodeDVVar X d w := by
  cases hc : X.contains d.node with
  | false => simp [decodeDVVar_of_not_mem X d _ hc]
  | true =>
    simp only [decodeDVVar_of_mem X d _ hc, if_true, Option.some.injEq] at h ⊢
    simp only [h]

/-- The reported value lies within the declared bounds. -/
theorem decodeDVVar_bounds (X : List Node) (d : DVNodeSpec) (v : Int) (hw : d.dom.WF = true) :
    (match d.dom with | .discrete n => ((0 : Int), (n : Int) - 1) | .cont lo hi => (lo, hi)).1 ≤
      (decodeDVVar X d v).1 ∧
    (decodeDVVar X d v).1 ≤
      (match d.dom with | .discrete n => ((0 : Int), (n : Int) - 1) | .cont lo hi => (lo, hi)).2 := by
  have hin := C16.correct_in_domain d.dom hw v
  cases hc : X.contains d.node with
  | false =>
    rw [decodeDVVar_of_not_mem X d v hc]
    cases hd : d.dom with
    | discrete n =>
      rw [hd] at hw; simp only [DVDom.WF, decide_eq_true_eq] at hw
      simp [DVDom.canon]; omega
    | cont lo hi =>
      rw [hd] at hw; simp only [DVDom.WF, decide_eq_true_eq] at hw
      simp only [DVDom.canon]; omega
  | true =>
    rw [decodeDVVar_of_mem X d v hc]
    cases hd : d.dom with
    | discrete n =>
      rw [hd] at hin
      simp only [DVDom.inDom, Bool.and_eq_true, decide_eq_true_eq] at hin
      simp only; omega
    | cont lo hi =>
      rw [hd] at hin
      simp only [DVDom.inDom, Bool.and_eq_true, decide_eq_true_eq] at hin
      simp only; omega

/-! ### layout of a vector -/

theorem Enc.connLens_getD (E : Enc) (k : Nat) : E.connLens.getD k 0 = (E.connNOpts.getD k []).length := by
  simp only [Enc.connLens, List.getD_eq_getElem?_getD, List.getElem?_map]
  cases E.connNOpts[k]? <;> rfl

/-- In a vector of the declared length every connection slice has its declared length. -/
theorem Enc.connIn_length (E : Enc) (P : Problem) (x : List Int) (hx : x.length = E.nVars P) (k : Nat)
    (hk : k < E.connNOpts.length) : (E.connIn x k).length = (E.connNOpts.getD k []).length := by
  rw [← E.connLens_getD, Enc.connIn]
  apply slices_getD_length
  · simp only [List.length_drop, hx, Enc.nVars, Enc.connLens]; omega
  · simpa [Enc.connLens] using hk

theorem map_range_congr {α} {f g : Nat → α} {n : Nat} (h : ∀ k, k < n → f k = g k) :
    (List.range n).map f = (List.range n).map g :=
  List.map_congr_left (fun k hk => h k (List.mem_range.1 hk))

theorem flatMap_range_congr {α} {f g : Nat → List α} {n : Nat} (h : ∀ k, k < n → f k = g k) :
    (List.range n).flatMap f = (List.range n).flatMap g := by
  rw [List.flatMap_def, List.flatMap_def, map_range_congr h]

/-- Blocks of the declared lengths: their lengths are `connLens`. -/
theorem Enc.connLens_eq {α} (E : Enc) (f : Nat → List α) (n : Nat) (hn : E.connNOpts.length = n)
    (hf : ∀ k, k < n → (f k).length = (E.connNOpts.getD k []).length) :
    E.connLens = ((List.range n).map f).map List.length := by
  apply List.ext_getElem
  · simp [Enc.connLens, hn]
  · intro k h1 h2
    have hk : k < n := by simpa using h2
    simp only [Enc.connLens, List.getElem_map, List.getElem_range, hf k hk]
    simp [List.getD_eq_getElem?_getD, hn, hk]

theorem Enc.flatMap_length {α} (E : Enc) (f : Nat → List α) (n : Nat) (hn : E.connNOpts.length = n)
    (hf : ∀ k, k < n → (f k).length = (E.connNOpts.getD k []).length) :
    ((List.range n).flatMap f).length = E.connLens.sum := by
  rw [E.connLens_eq f n hn hf, List.flatMap_def, List.length_flatten]

/-- Reading a vector `selection ++ blocks ++ dv-values` back: the three parts are recovered, provided
    the blocks have the declared lengths. -/
theorem Enc.readback (E : Enc) (S D : List Int) (f : Nat → List Int) (n : Nat)
    (hS : S.length = E.selVars.length) (hn : E.connNOpts.length = n)
    (hf : ∀ k, k < n → (f k).length = (E.connNOpts.getD k []).length) :
    (S ++ (List.range n).flatMap f ++ D).take E.selVars.length = S ∧
    (∀ k, k < n → E.connIn (S ++ (List.range n).flatMap f ++ D) k = f k) ∧
    (∀ i, E.dvIn (S ++ (List.range n).flatMap f ++ D) i = D.getD i 0) := by
  have hlens := E.connLens_eq f n hn hf
  refine ⟨?_, ?_, ?_⟩
  · rw [List.append_assoc, List.take_left' hS]
  · intro k hk
    rw [Enc.connIn, List.append_assoc, List.drop_left' hS, hlens, List.flatMap_def, slices_blocks,
      getD_map_range _ _ _ _ hk]
  · intro i
    have : (S ++ (List.range n).flatMap f).length = E.dvOff := by
      rw [List.length_append, hS, E.flatMap_length f n hn hf]; rfl
    rw [Enc.dvIn, List.drop_left' this]

/-! ### selection part -/

@[simp] theorem selAct_length (g : DSG) (E : Enc) (a : Assign) :
    (selAct g E a).length = E.selVars.length := by simp [selAct]

@[simp] theorem selVec_length (g : DSG) (E : Enc) (a : Assign) :
    (selVec g E a).length = E.selVars.length := by simp [selVec]

/-- Selection vector and activeness depend on the assignment only through its row. -/
theorem selVec_congr (g : DSG) (E : Enc) (a b : Assign) (h : row g a = row g b) :
    selVec g E a = selVec g E b := by unfold selVec selAct; rw [h]

theorem selAct_congr (g : DSG) (E : Enc) (a b : Assign) (h : row g a = row g b) :
    selAct g E a = selAct g E b := by unfold selAct; rw [h]

theorem selAct_getD (g : DSG) (E : Enc) (a : Assign) (j : Nat) (hj : j < E.selVars.length) :
    (selAct g E a).getD j false =
      (((row g a).getD (E.selVars.getD j 0) none).isSome && (E.selShown (row g a)).getD j true) := by
  simp only [selAct]
  exact getD_map_range _ _ _ _ hj

theorem selVec_getD (g : DSG) (E : Enc) (a : Assign) (j : Nat) (hj : j < E.selVars.length) :
    (selVec g E a).getD j 0 =
      if (selAct g E a).getD j false then
        (match (row g a).getD (E.selVars.getD j 0) none with | some k => (k : Int) | none => 0)
      else 0 := by
  simp only [selVec]
  exact getD_map_range _ _ _ _ hj

/-- A `some` entry of a row: the choice is active and the assignment takes that option. -/
theorem row_getD_some (g : DSG) (a : Assign) (c k : Nat) (h : (row g a).getD c none = some k) :
    c < g.sel.length ∧ c ∈ activeChoices g a ∧ a.get c = some k := by
  by_cases hc : c < g.sel.length
  · rw [List.getD_eq_getElem?_getD, row_getElem? g a c hc] at h
    simp only [Option.getD_some] at h
    split at h
    · rename_i hm
      exact ⟨hc, by simpa using hm, h⟩
    · cases h
  · rw [List.getD_eq_getElem?_getD, List.getElem?_eq_none (by simp [row]; omega)] at h
    cases h

/-- An active selection variable holds the option index of the row. -/
theorem selVec_describes (g : DSG) (E : Enc) (a : Assign) (j : Nat) (hj : j < E.selVars.length)
    (hact : (selAct g E a).getD j false = true) :
    0 ≤ (selVec g E a).getD j 0 ∧
    (row g a).getD (E.selVars.getD j 0) none = some ((selVec g E a).getD j 0).toNat := by
  rw [selVec_getD g E a j hj, hact, if_pos rfl]
  rw [selAct_getD g E a j hj] at hact
  simp only [Bool.and_eq_true] at hact
  obtain ⟨k, hk⟩ := Option.isSome_iff_exists.1 hact.1
  rw [hk]
  simp

/-- The selection vector of an assignment of `allAssigns` lies in the declared ranges. -/
theorem selVec_bounds {P : Problem} {E : Enc} (h : EncOK P E) (a : Assign) (ha : a ∈ allAssigns P.g)
    (j : Nat) (hj : j < E.selVars.length) :
    0 ≤ (selVec P.g E a).getD j 0 ∧
    (selVec P.g E a).getD j 0 ≤ ((P.g.sel.getD (E.selVars.getD j 0) default).opts.length : Int) - 1 := by
  have hc : E.selVars.getD j 0 ∈ E.selVars := by simp [List.getD_eq_getElem?_getD, hj]
  obtain ⟨hlt, hpos⟩ := h.sel_lt _ hc
  rw [selVec_getD P.g E a j hj]
  split
  · cases hr : (row P.g a).getD (E.selVars.getD j 0) none with
    | none => simp only; omega
    | some k =>
      obtain ⟨_, _, hget⟩ := row_getD_some _ _ _ _ hr
      have := lt_nOpts_of_mem_allAssigns P.g a ha _ k hlt hget
      rw [nOpts_of_lt _ _ hlt] at this
      have e : P.g.sel.getD (E.selVars.getD j 0) default = P.g.sel[E.selVars.getD j 0] := by
        rw [List.getD_eq_getElem?_getD, List.getElem?_eq_getElem hlt]; rfl
      rw [e]; simp only; omega
  · omega

/-! ### `assemble`: congruences -/

/-- Assignments with the same row (one of them admissible) have closures with the same members. -/
theorem closure_mem_of_row_eq (g : DSG) (hw : g.WF = true) (a b : Assign)
    (ha : admissible g a = true) (hr : row g a = row g b) :
    ∀ v, v ∈ closure g a ↔ v ∈ closure g b :=
  mem_closure_congr_active g hw a b (agree_of_row_eq g a b ha hr)

theorem decodeDVVar_congr (X Y : List Node) (h : ∀ v, X.contains v = Y.contains v) (d : DVNodeSpec)
    (v : Int) : decodeDVVar X d v = decodeDVVar Y d v := by
  simp only [decodeDVVar, h]

/-- `assemble` depends on the assignment only through its row. -/
theorem assemble_congr_row {P : Problem} {E : Enc} (h : EncOK P E) (mgr : Mgr) (a b : Assign)
    (ha : admissible P.g a = true) (hr : row P.g a = row P.g b) (cs : Nat → List Int) (dv : Nat → Int) :
    assemble mgr P E a cs dv = assemble mgr P E b cs dv := by
  have hm := closure_mem_of_row_eq P.g h.g_wf a b ha hr
  have hc := contains_congr_of_mem _ _ hm
  have e1 : ∀ k xk, decodeConn mgr P E (closure P.g a) k xk = decodeConn mgr P E (closure P.g b) k xk :=
    fun k xk => decodeConn_congr h mgr _ _ hm k xk
  have e2 : ∀ d v, decodeDVVar (closure P.g a) d v = decodeDVVar (closure P.g b) d v :=
    fun d v => decodeDVVar_congr _ _ hc d v
  simp only [assemble, e1, e2, hr, selVec_congr _ _ _ _ hr, selAct_congr _ _ _ _ hr]

/-- `assemble` depends on the slices / DV values only through their decodes. -/
theorem assemble_congr_in (mgr : Mgr) (P : Problem) (E : Enc) (a : Assign) (cs cs' : Nat → List Int)
    (dv dv' : Nat → Int)
    (h1 : ∀ k, k < P.conn.length → decodeConn mgr P E (closure P.g a) k (cs k) =
      decodeConn mgr P E (closure P.g a) k (cs' k))
    (h2 : ∀ i, i < P.dvs.length → decodeDVVar (closure P.g a) (P.dvs.getD i default) (dv i) =
      decodeDVVar (closure P.g a) (P.dvs.getD i default) (dv' i)) :
    assemble mgr P E a cs dv = assemble mgr P E a cs' dv' := by
  have c1 : ∀ {β} (φ : List Int × List Bool × Matrix → β),
      (List.range P.conn.length).map (fun k => φ (decodeConn mgr P E (closure P.g a) k (cs k))) =
      (List.range P.conn.length).map (fun k => φ (decodeConn mgr P E (closure P.g a) k (cs' k))) :=
    fun φ => map_range_congr (fun k hk => by rw [h1 k hk])
  have c2 : ∀ {β} (φ : List Int × List Bool × Matrix → List β),
      (List.range P.conn.length).flatMap (fun k => φ (decodeConn mgr P E (closure P.g a) k (cs k))) =
      (List.range P.conn.length).flatMap (fun k => φ (decodeConn mgr P E (closure P.g a) k (cs' k))) :=
    fun φ => flatMap_range_congr (fun k hk => by rw [h1 k hk])
  have c3 : ∀ {β} (φ : Int × Bool × Option Int → β),
      (List.range P.dvs.length).map (fun i => φ (decodeDVVar (closure P.g a) (P.dvs.getD i default) (dv i))) =
      (List.range P.dvs.length).map (fun i => φ (decodeDVVar (closure P.g a) (P.dvs.getD i default) (dv' i))) :=
    fun φ => map_range_congr (fun k hk => by rw [h2 k hk])
  simp only [assemble]
  rw [c1 (·.2.2), c2 (·.1), c2 (·.2.1), c3 (·.2.2), c3 (·.1), c3 (·.2.1),
    c3 (fun o => if o.2.1 then some o.1 else none)]

/-! ### bounds -/

/-- Declared-bounds relation between one bound pair and one value. -/
def InB (b : Int × Int) (v : Int) : Prop := b.1 ≤ v ∧ v ≤ b.2

theorem inBounds_iff (bs : List (Int × Int)) (x : List Int) :
    inBounds bs x = true ↔ List.Forall₂ InB bs x := by
  rw [List.forall₂_iff_zip]
  simp only [inBounds, Bool.and_eq_true, beq_iff_eq, List.all_eq_true, decide_eq_true_eq, InB]
  constructor
  · rintro ⟨h1, h2⟩
    exact ⟨h1.symm, fun {a b} hab => h2 (a, b) hab⟩
  · rintro ⟨h1, h2⟩
    exact ⟨h1.symm, fun p hab => h2 hab⟩

theorem getD_map_lt {α β} (f : α → β) (l : List α) (i : Nat) (d' : β) (d : α) (hi : i < l.length) :
    (l.map f).getD i d' = f (l.getD i d) := by
  simp [List.getD_eq_getElem?_getD, hi]

theorem forall₂_of_getD {α β} {R : α → β → Prop} (l1 : List α) (l2 : List β) (d1 : α) (d2 : β)
    (hl : l1.length = l2.length) (hR : ∀ i, i < l1.length → R (l1.getD i d1) (l2.getD i d2)) :
    List.Forall₂ R l1 l2 := by
  rw [List.forall₂_iff_get]
  refine ⟨hl, fun i h1 h2 => ?_⟩
  have := hR i h1
  simpa [List.getD_eq_getElem?_getD, h1, h2] using this

theorem getD_append_left' {α} (l l' : List α) (d : α) (n : Nat) (h : n < l.length) :
    (l ++ l').getD n d = l.getD n d := by
  simp [List.getD_eq_getElem?_getD, List.getElem?_append_left h]

theorem getD_append_right' {α} (l l' : List α) (d : α) (n : Nat) (h : l.length ≤ n) :
    (l ++ l').getD n d = l'.getD (n - l.length) d := by
  simp [List.getD_eq_getElem?_getD, List.getElem?_append_right h]

/-! ### graph level -/

/-- The option recorded in a row is wired to the choice's originating node. -/
theorem selected_option_wired' (g : DSG) (a : Assign) (hadm : admissible g a = true) (c k : Nat)
    (hr : (row g a).getD c none = some k) :
    ∃ ch nd, g.sel[c]? = some ch ∧ ch.opts[k]? = some nd ∧ a.get c = some k ∧
      ch.origin ∈ closure g a ∧ nd ∈ succs g a ch.origin := by
  obtain ⟨_, hact, hget⟩ := row_getD_some g a c k hr
  obtain ⟨ch, hch, horig⟩ := (mem_activeChoices g a c).1 hact
  have hres := ((admissible_split g a).1 hadm).1
  rw [activeResolved, List.all_eq_true] at hres
  obtain ⟨nd, hnd⟩ := Option.isSome_iff_exists.1 (hres c hact)
  have hnd' : ch.opts[k]? = some nd := by
    simpa only [selectedOpt, hch, hget] using hnd
  refine ⟨ch, nd, hch, hnd', hget, horig, ?_⟩
  simp only [succs, List.mem_append]
  exact Or.inr ((mem_choiceSuccs g a _ _).2 ⟨c, ch, hch, rfl, hnd⟩)

/-! ### feasible architectures and designs -/

theorem prodL_ne_nil {α} : ∀ (ls : List (List α)), (∀ l ∈ ls, l ≠ []) → prodL ls ≠ []
  | [], _ => by simp [prodL]
  | l :: ls, h => by
    have ih := prodL_ne_nil ls (fun l' hl' => h l' (List.mem_cons_of_mem _ hl'))
    have hl := h l List.mem_cons_self
    obtain ⟨x, hx⟩ := List.exists_mem_of_ne_nil l hl
    obtain ⟨v, hv⟩ := List.exists_mem_of_ne_nil _ ih
    intro e
    have : x :: v ∈ prodL (l :: ls) := by
      simp only [prodL, List.mem_flatMap, List.mem_map]
      exact ⟨x, hx, v, hv, rfl⟩
    rw [e] at this
    cases this

theorem ne_nil_of_mem_prodL {α} : ∀ (ls : List (List α)) (v : List α), v ∈ prodL ls → ∀ l ∈ ls, l ≠ []
  | [], _, _ => by simp
  | l :: ls, v, hv => by
    simp only [prodL, List.mem_flatMap, List.mem_map] at hv
    obtain ⟨x, hx, w, hw, -⟩ := hv
    intro l' hl'
    rcases List.mem_cons.1 hl' with rfl | hl'
    · exact List.ne_nil_of_mem hx
    · exact ne_nil_of_mem_prodL ls w hw l' hl'

theorem dvChoices_ne_nil (X : List Node) (d : DVNodeSpec) (hw : d.dom.WF = true) : dvChoices X d ≠ [] := by
  unfold dvChoices
  split
  · cases hd : d.dom with
    | discrete n =>
      rw [hd] at hw; simp only [DVDom.WF, decide_eq_true_eq] at hw
      simp [DVDom.values]; omega
    | cont lo hi => simp [DVDom.values]
  · simp

/-- "Some feasible architecture" is "some valid design" (DV domains well formed). -/
theorem feasible_iff_designs' (P : Problem) (hw : P.g.WF = true) (hdv : ∀ d ∈ P.dvs, d.dom.WF = true) :
    (∃ a, feasibleAssign P a = true) ↔ allDesigns P ≠ [] := by
  constructor
  · rintro ⟨a, ha⟩
    obtain ⟨hall, hadm, hne⟩ := (feasibleAssign_iff P a).1 ha
    obtain ⟨ms, hms⟩ := List.exists_mem_of_ne_nil _ (prodL_ne_nil (P.conn.map (connSets (closure P.g a)))
      (by intro l hl; obtain ⟨k, hk, rfl⟩ := List.mem_map.1 hl; exact hne k hk))
    obtain ⟨dv, hdvs⟩ := List.exists_mem_of_ne_nil _ (prodL_ne_nil (P.dvs.map (dvChoices (closure P.g a)))
      (by intro l hl; obtain ⟨d, hd, rfl⟩ := List.mem_map.1 hl; exact dvChoices_ne_nil _ _ (hdv d hd)))
    have hv : validDesign P { row := row P.g a, mats := ms, dvals := dv } = true :=
      (validDesign_iff P _).2 ⟨a, hall, hadm, rfl, hms, hdvs⟩
    exact List.ne_nil_of_mem (design_complete_aux P hw _ hv)
  · intro hne
    obtain ⟨d, hd⟩ := List.exists_mem_of_ne_nil _ hne
    simp only [allDesigns, List.mem_flatMap] at hd
    obtain ⟨a, ha, hda⟩ := hd
    obtain ⟨-, hm, -⟩ := (mem_designsOf P a d).1 hda
    obtain ⟨h1, h2⟩ := repAssigns_admissible' P.g a ha
    refine ⟨a, (feasibleAssign_iff P a).2 ⟨h1, h2, fun k hk => ?_⟩⟩
    exact ne_nil_of_mem_prodL _ _ hm _ (List.mem_map_of_mem hk)

/-! ### whole vectors -/

section whole
variable {P : Problem} {E : Enc} (h : EncOK P E)
include h

theorem EncOK.asg_feasible (x : List Int) : feasibleAssign P (E.asg x) = true := h.pick_feasible _

/-- In a vector of the declared length the slice of every connection choice is long enough for the
    manager lemmas. -/
theorem EncOK.connIn_le (x : List Int) (hx : x.length = E.nVars P) (k : Nat) (hk : k < P.conn.length) :
    (E.connNOpts.getD k []).length ≤ (E.connIn x k).length :=
  Nat.le_of_eq (E.connIn_length P x hx k (h.conn_len.1 ▸ hk)).symm

theorem EncOK.dv_wf_getD (i : Nat) (hi : i < P.dvs.length) : (P.dvs.getD i default).dom.WF = true :=
  h.dv_wf _ (by simp [List.getD_eq_getElem?_getD, hi])

/-- Code as it is vs. reference semantics: same corrected vector, design and values. -/
theorem decode_agrees (x : List Int) (hx : x.length = E.nVars P) :
    (decode P E x).x = (decodeRef P E x).x ∧ (decode P E x).design = (decodeRef P E x).design ∧
    (decode P E x).vals = (decodeRef P E x).vals := by
  have hs := fun k hk => decodeConn_impl_same h (h.asg_feasible x) hk _ (h.connIn_le x hx k hk)
  have e1 := flatMap_range_congr (fun k hk => (hs k hk).1)
  have e2 := map_range_congr (fun k hk => (hs k hk).2)
  simp only [decode, decodeRef, decodeWith_eq, assemble, e1, e2]
  exact ⟨trivial, trivial, trivial⟩

/-- Lengths of the outputs (reference semantics). -/
theorem decodeRef_shape (x : List Int) (hx : x.length = E.nVars P) :
    (decodeRef P E x).x.length = E.nVars P ∧ (decodeRef P E x).act.length = E.nVars P ∧
    (decodeRef P E x).vals.length = P.dvs.length := by
  have hl := fun k hk => decodeConn_ref_length h (h.asg_feasible x) hk _ (h.connIn_le x hx k hk)
  have hc := fun k hk => (E.connIn_length P x hx k (h.conn_len.1 ▸ hk))
  have l1 := E.flatMap_length _ _ h.conn_len.1 (fun k hk => ((hl k hk).1.trans (hc k hk)))
  have l2 := E.flatMap_length _ _ h.conn_len.1 (fun k hk => ((hl k hk).2.trans (hc k hk)))
  simp only [decodeRef, decodeWith_eq, assemble, List.length_append, List.length_map, List.length_range,
    selVec_length, selAct_length, l1, l2, Enc.nVars, Enc.connLens]
  exact ⟨trivial, trivial, trivial⟩

/-- Lengths of the outputs (code as it is). -/
theorem decode_shape' (x : List Int) (hx : x.length = E.nVars P) :
    (decode P E x).x.length = E.nVars P ∧ (decode P E x).act.length = E.nVars P ∧
    (decode P E x).vals.length = P.dvs.length := by
  have hl := fun k hk => decodeConn_impl_length h (h.asg_feasible x) hk _ (h.connIn_le x hx k hk)
  have hc := fun k hk => (E.connIn_length P x hx k (h.conn_len.1 ▸ hk))
  have l1 := E.flatMap_length _ _ h.conn_len.1 (fun k hk => ((hl k hk).1.trans (hc k hk)))
  have l2 := E.flatMap_length _ _ h.conn_len.1 (fun k hk => ((hl k hk).2.trans (hc k hk)))
  simp only [decode, decodeWith_eq, assemble, List.length_append, List.length_map, List.length_range,
    selVec_length, selAct_length, l1, l2, Enc.nVars, Enc.connLens]
  exact ⟨trivial, trivial, trivial⟩

/-- The architecture of a decode (reference semantics). -/
theorem decodeRef_arch (x : List Int) (hx : x.length = E.nVars P) :
    (decodeRef P E x).design.row = row P.g (E.asg x) ∧
    (decodeRef P E x).design.mats.length = P.conn.length ∧
    (∀ k, k < P.conn.length → (decodeRef P E x).design.mats.getD k [] ∈
      connSets (closure P.g (E.asg x)) (P.conn.getD k default)) ∧
    (decodeRef P E x).design.dvals.length = P.dvs.length ∧
    (∀ i, i < P.dvs.length → (decodeRef P E x).design.dvals.getD i none ∈
      dvChoices (closure P.g (E.asg x)) (P.dvs.getD i default)) := by
  simp only [decodeRef, decodeWith_eq, assemble, List.length_map, List.length_range]
  refine ⟨trivial, trivial, ?_, trivial, ?_⟩
  · intro k hk
    rw [getD_map_range _ _ _ _ hk]
    exact decodeConn_mat_mem h (h.asg_feasible x) hk _ (h.connIn_le x hx k hk)
  · intro i hi
    rw [getD_map_range _ _ _ _ hi]
    exact decodeDVVar_mem _ _ _ (h.dv_wf_getD i hi)

/-- Every vector of the declared length decodes to a valid design (reference semantics). -/
theorem decodeRef_valid' (x : List Int) (hx : x.length = E.nVars P) :
    validDesign P (decodeRef P E x).design = true := by
  obtain ⟨h1, h2, h3, h4, h5⟩ := decodeRef_arch h x hx
  obtain ⟨ha, hadm, -⟩ := (feasibleAssign_iff P _).1 (h.asg_feasible x)
  rw [validDesign_iff]
  refine ⟨E.asg x, ha, hadm, h1.symm, ?_, ?_⟩
  · rw [mem_prodL_map_iff _ _ _ []]
    exact ⟨by simpa using h2, by simpa [List.all_eq_true] using h3⟩
  · rw [mem_prodL_map_iff _ _ _ none]
    exact ⟨by simpa using h4, by simpa [List.all_eq_true] using h5⟩

/-- What is read back from the corrected vector of a decode (reference semantics): the assignment
    of the selection vector, the corrected slices, the reported DV values. -/
theorem decodeRef_readback (x : List Int) (hx : x.length = E.nVars P) :
    E.asg (decodeRef P E x).x = E.pick (selVec P.g E (E.asg x)) ∧
    (∀ k, k < P.conn.length → E.connIn (decodeRef P E x).x k =
      (decodeConn managerGet P E (closure P.g (E.asg x)) k (E.connIn x k)).1) ∧
    (∀ i, i < P.dvs.length → E.dvIn (decodeRef P E x).x i =
      (decodeDVVar (closure P.g (E.asg x)) (P.dvs.getD i default) (E.dvIn x i)).1) := by
  have hl := fun k hk => (decodeConn_ref_length h (h.asg_feasible x) hk _ (h.connIn_le x hx k hk)).1.trans
    (E.connIn_length P x hx k (h.conn_len.1 ▸ hk))
  obtain ⟨r1, r2, r3⟩ := E.readback (selVec P.g E (E.asg x))
    ((List.range P.dvs.length).map (fun i =>
      (decodeDVVar (closure P.g (E.asg x)) (P.dvs.getD i default) (E.dvIn x i)).1))
    (fun k => (decodeConn managerGet P E (closure P.g (E.asg x)) k (E.connIn x k)).1) P.conn.length
    (selVec_length _ _ _) h.conn_len.1 hl
  have ex : (decodeRef P E x).x = selVec P.g E (E.asg x) ++
      (List.range P.conn.length).flatMap
        (fun k => (decodeConn managerGet P E (closure P.g (E.asg x)) k (E.connIn x k)).1) ++
      (List.range P.dvs.length).map (fun i =>
        (decodeDVVar (closure P.g (E.asg x)) (P.dvs.getD i default) (E.dvIn x i)).1) := by
    rw [decodeRef, decodeWith_eq]; rfl
  rw [ex]
  refine ⟨?_, r2, ?_⟩
  · rw [Enc.asg, r1]
  · intro i hi
    rw [r3 i, getD_map_range _ _ _ _ hi]

/-- Fixed point (reference semantics). -/
theorem decodeRef_idem (x : List Int) (hx : x.length = E.nVars P) :
    decodeRef P E (decodeRef P E x).x = decodeRef P E x := by
  obtain ⟨r1, r2, r3⟩ := decodeRef_readback h x hx
  have hf := h.asg_feasible x
  obtain ⟨-, hadm, -⟩ := (feasibleAssign_iff P _).1 hf
  have hrow := h.pick_fixed _ hf
  conv_lhs => rw [decodeRef, decodeWith_eq, r1]
  rw [← assemble_congr_row h managerGet _ _ hadm hrow.symm]
  conv_rhs => rw [decodeRef, decodeWith_eq]
  apply assemble_congr_in
  · intro k hk
    rw [r2 k hk]
    exact decodeConn_idem h hf hk _ (h.connIn_le x hx k hk)
  · intro i hi
    rw [r3 i hi]
    exact decodeDVVar_idem _ _ _ (h.dv_wf_getD i hi)

/-- Design and carried values determine the whole decode (reference semantics). -/
theorem decodeRef_eq_of_design (x y : List Int) (hx : x.length = E.nVars P) (hy : y.length = E.nVars P)
    (hd : (decodeRef P E x).design = (decodeRef P E y).design)
    (hv : (decodeRef P E x).vals = (decodeRef P E y).vals) :
    decodeRef P E x = decodeRef P E y := by
  have hf := h.asg_feasible x
  obtain ⟨-, hadm, -⟩ := (feasibleAssign_iff P _).1 hf
  have hrow : row P.g (E.asg x) = row P.g (E.asg y) := by
    have := congrArg Design.row hd
    simpa only [decodeRef, decodeWith_eq, assemble] using this
  have ey : decodeRef P E y = assemble managerGet P E (E.asg x) (E.connIn y) (E.dvIn y) := by
    rw [decodeRef, decodeWith_eq, assemble_congr_row h managerGet _ _ hadm hrow]
  rw [ey] at hd hv ⊢
  rw [decodeRef, decodeWith_eq] at hd hv ⊢
  apply assemble_congr_in
  · intro k hk
    have hm := congrArg Design.mats hd
    simp only [assemble] at hm
    have := (List.map_inj_left.1 hm) k (List.mem_range.2 hk)
    have hk' : k < E.connNOpts.length := h.conn_len.1 ▸ hk
    exact decodeConn_eq_of_mat h hf hk _ (h.connIn_le x hx k hk) _
      ((E.connIn_length P x hx k hk').trans (E.connIn_length P y hy k hk').symm) this
  · intro i hi
    simp only [assemble] at hv
    exact decodeDVVar_eq_of_val _ _ _ _ ((List.map_inj_left.1 hv) i (List.mem_range.2 hi))

/-- The corrected vector lies inside the declared ranges (reference semantics). -/
theorem decodeRef_in_range (x : List Int) (hx : x.length = E.nVars P) :
    inBounds (declBounds P E) (decodeRef P E x).x = true := by
  have hf := h.asg_feasible x
  obtain ⟨hall, -, -⟩ := (feasibleAssign_iff P _).1 hf
  rw [inBounds_iff, decodeRef, decodeWith_eq]
  simp only [assemble, declBounds]
  refine List.rel_append (List.rel_append ?_ ?_) ?_
  · -- selection variables
    refine forall₂_of_getD _ _ ((0 : Int), (0 : Int)) 0 (by simp) (fun j hj => ?_)
    have hj' : j < E.selVars.length := by simpa using hj
    rw [getD_map_lt _ _ _ _ 0 hj']
    exact selVec_bounds h _ hall j hj'
  · -- connection variables
    rw [List.flatMap_def, List.flatMap_def]
    refine List.rel_flatten (forall₂_of_getD _ _ [] [] (by simp [h.conn_len.1]) (fun k hk => ?_))
    have hk1 : k < E.connNOpts.length := by simpa using hk
    have hk2 : k < P.conn.length := h.conn_len.1 ▸ hk1
    have hle := h.connIn_le x hx k hk2
    have hlen := (decodeConn_ref_length h hf hk2 _ hle).1.trans (E.connIn_length P x hx k hk1)
    rw [getD_map_range _ _ _ _ hk2]
    have e : (E.connNOpts.map (fun ns => ns.map (fun (n : Nat) => ((0 : Int), (n : Int) - 1)))).getD k [] =
        (E.connNOpts.getD k []).map (fun (n : Nat) => ((0 : Int), (n : Int) - 1)) := by
      simp [List.getD_eq_getElem?_getD, hk1]
    rw [e]
    refine forall₂_of_getD _ _ ((0 : Int), (0 : Int)) 0 (by simp [hlen]) (fun i hi => ?_)
    have hi' : i < (E.connNOpts.getD k []).length := by simpa using hi
    have := decodeConn_range h hf hk2 _ hle i hi'
    rw [getD_map_lt _ _ _ _ 0 hi']
    have e2 : (E.connNOpts.getD k []).getD i 0 = (E.connNOpts.getD k [])[i] := by
      rw [List.getD_eq_getElem?_getD, List.getElem?_eq_getElem hi']; rfl
    rw [e2]
    simp only [InB]; omega
  · -- design-variable nodes
    refine forall₂_of_getD _ _ ((0 : Int), (0 : Int)) 0 (by simp) (fun i hi => ?_)
    have hi' : i < P.dvs.length := by simpa using hi
    rw [getD_map_lt _ _ _ _ default hi', getD_map_range _ _ _ _ hi']
    exact decodeDVVar_bounds _ _ _ (h.dv_wf_getD i hi')

/-- An active selection variable holds the option index recorded in the row (code as it is). -/
theorem decode_sel_describes (x : List Int) (j : Nat) (hj : j < E.selVars.length)
    (hact : (decode P E x).act.getD j false = true) :
    0 ≤ (decode P E x).x.getD j 0 ∧
    (decode P E x).design.row.getD (E.selVars.getD j 0) none = some ((decode P E x).x.getD j 0).toNat := by
  have _ := h
  simp only [decode, decodeWith_eq, assemble] at hact ⊢
  rw [List.append_assoc, getD_append_left' _ _ _ _ (by simpa using hj)] at hact ⊢
  exact selVec_describes _ _ _ j hj hact

/-- Design-variable nodes carry the reported values (code as it is). -/
theorem decode_dv_describes (x : List Int) (hx : x.length = E.nVars P) (i : Nat) (hi : i < P.dvs.length) :
    (decode P E x).vals.getD i none =
      (if (decode P E x).act.getD (E.dvOff + i) false then
        some ((decode P E x).x.getD (E.dvOff + i) 0) else none) := by
  have hl := fun k hk => decodeConn_impl_length h (h.asg_feasible x) hk _ (h.connIn_le x hx k hk)
  have hc := fun k hk => (E.connIn_length P x hx k (h.conn_len.1 ▸ hk))
  have l1 := E.flatMap_length _ _ h.conn_len.1 (fun k hk => ((hl k hk).1.trans (hc k hk)))
  have l2 := E.flatMap_length _ _ h.conn_len.1 (fun k hk => ((hl k hk).2.trans (hc k hk)))
  have L1 : (selVec P.g E (E.asg x) ++ (List.range P.conn.length).flatMap fun k =>
      (decodeConn managerGetImpl P E (closure P.g (E.asg x)) k (E.connIn x k)).1).length = E.dvOff := by
    rw [List.length_append, selVec_length, l1]; rfl
  have L2 : (selAct P.g E (E.asg x) ++ (List.range P.conn.length).flatMap fun k =>
      (decodeConn managerGetImpl P E (closure P.g (E.asg x)) k (E.connIn x k)).2.1).length = E.dvOff := by
    rw [List.length_append, selAct_length, l2]; rfl
  simp only [decode, decodeWith_eq, assemble]
  rw [getD_append_right' _ _ _ _ (by rw [L2]; omega), getD_append_right' _ _ _ _ (by rw [L1]; omega),
    L1, L2, Nat.add_sub_cancel_left, getD_map_range _ _ _ _ hi, getD_map_range _ _ _ _ hi,
    getD_map_range _ _ _ _ hi]

/-- Fixed point of the code as it is: vector, design and values. -/
theorem decode_idem_partial (x : List Int) (hx : x.length = E.nVars P) :
    (decode P E (decode P E x).x).x = (decode P E x).x ∧
    (decode P E (decode P E x).x).design = (decode P E x).design ∧
    (decode P E (decode P E x).x).vals = (decode P E x).vals := by
  obtain ⟨a1, a2, a3⟩ := decode_agrees h x hx
  obtain ⟨b1, b2, b3⟩ := decode_agrees h _ (decode_shape' h x hx).1
  have hid := decodeRef_idem h x hx
  rw [b1, b2, b3, a1, a2, a3, hid]
  exact ⟨rfl, rfl, rfl⟩

/-- Equal corrected vectors denote the same design and values. -/
theorem decode_design_of_corrected (x y : List Int) (hx : x.length = E.nVars P)
    (hy : y.length = E.nVars P) (heq : (decode P E x).x = (decode P E y).x) :
    (decode P E x).design = (decode P E y).design ∧ (decode P E x).vals = (decode P E y).vals := by
  obtain ⟨-, d1, v1⟩ := decode_idem_partial h x hx
  obtain ⟨-, d2, v2⟩ := decode_idem_partial h y hy
  rw [heq] at d1 v1
  exact ⟨d1.symm.trans d2, v1.symm.trans v2⟩

/-- Equal designs and values have equal corrected vectors. -/
theorem decode_corrected_of_design (x y : List Int) (hx : x.length = E.nVars P)
    (hy : y.length = E.nVars P) (hd : (decode P E x).design = (decode P E y).design)
    (hv : (decode P E x).vals = (decode P E y).vals) : (decode P E x).x = (decode P E y).x := by
  obtain ⟨a1, a2, a3⟩ := decode_agrees h x hx
  obtain ⟨b1, b2, b3⟩ := decode_agrees h y hy
  rw [a2, b2] at hd
  rw [a3, b3] at hv
  rw [a1, b1, decodeRef_eq_of_design h x y hx hy hd hv]

/-- Every vector of the declared length decodes to a valid design (code as it is). -/
theorem decode_valid' (x : List Int) (hx : x.length = E.nVars P) :
    validDesign P (decode P E x).design = true := by
  rw [(decode_agrees h x hx).2.1]
  exact decodeRef_valid' h x hx

/-- The architecture of the decode spelled out (code as it is). -/
theorem decode_arch' (x : List Int) (hx : x.length = E.nVars P) :
    ∃ a, feasibleAssign P a = true ∧ decodeNodes P E x = closure P.g a ∧
      (decode P E x).design.row = row P.g a ∧
      (decode P E x).design.mats.length = P.conn.length ∧
      ∀ k, k < P.conn.length →
        (decode P E x).design.mats.getD k [] ∈ connSets (closure P.g a) (P.conn.getD k default) := by
  obtain ⟨h1, h2, h3, -, -⟩ := decodeRef_arch h x hx
  rw [(decode_agrees h x hx).2.1]
  exact ⟨E.asg x, h.asg_feasible x, rfl, h1, h2, h3⟩

/-- The corrected vector lies inside the declared ranges (code as it is). -/
theorem decode_in_range (x : List Int) (hx : x.length = E.nVars P) :
    inBounds (declBounds P E) (decode P E x).x = true := by
  rw [(decode_agrees h x hx).1]
  exact decodeRef_in_range h x hx

end whole

/-! ### witness: the activeness is not a fixed point of the code as it is -/

def wG : DSG := { n := 4, derives := [(0,1),(0,2),(0,3)], sel := [], start := [0], incompat := [] }
def wK : ConnChoice :=
  { src := [{ node := 1, deg := .list [0,1], rep := false }],
    tgt := [{ node := 2, deg := .atLeast 0 }, { node := 3, deg := .atLeast 0 }] }
def wP : Problem := { g := wG, conn := [wK], dvs := [] }
def wT : Table := [([0, -1], [[0, 0]]), ([1, 0], [[1, 0]]), ([1, 1], [[0, 1]])]
def wE : Enc :=
  { selVars := [], pick := fun _ => [], selShown := fun _ => [], connNOpts := [[2,2]],
    tables := [fun _ => some wT], imps := [fun _ _ => 0] }

theorem w_feas : ∀ a, feasibleAssign wP a = true → a = [] := by
  intro a ha
  have := ((feasibleAssign_iff wP a).1 ha).1
  have e : allAssigns wP.g = [[]] := by decide
  rw [e] at this
  simpa using this
theorem w_f0 : feasibleAssign wP [] = true := by decide
theorem w_cl : closure wP.g [] = [0, 1, 2, 3] := by decide
theorem w_cs : connSets (closure wP.g []) wK = [[[0, 0]], [[0, 1]], [[1, 0]]] := by
  rw [w_cl]; decide
theorem w_fixed (a) (ha : feasibleAssign wP a = true) : row wP.g (wE.pick (selVec wP.g wE a)) = row wP.g a := by
  rw [w_feas a ha]; rfl
theorem w_len : wE.connNOpts.length = wP.conn.length ∧ wE.tables.length = wP.conn.length ∧ wE.imps.length = wP.conn.length := by decide
theorem w_pos : ∀ ns ∈ wE.connNOpts, ∀ n ∈ ns, 0 < n := by decide
theorem w_tc : ∀ k X Y, (∀ v, v ∈ X ↔ v ∈ Y) → (wE.tables.getD k (fun _ => none)) X = (wE.tables.getD k (fun _ => none)) Y := fun k X Y _ => by cases k <;> rfl
theorem w_ic : ∀ k X Y, (∀ v, v ∈ X ↔ v ∈ Y) → (wE.imps.getD k (fun _ _ => 0)) X = (wE.imps.getD k (fun _ _ => 0)) Y := fun k X Y _ => by cases k <;> rfl
theorem w_wf : wP.g.WF = true := by decide
theorem w_tab : ∀ a, feasibleAssign wP a = true → ∀ k, k < wP.conn.length →
      connPresent (closure wP.g a) (wP.conn.getD k default) = true →
      ∃ t, (wE.tables.getD k (fun _ => none)) (closure wP.g a) = some t ∧ t.WF (wE.connNOpts.getD k []) = true ∧
        (∀ M, M ∈ t.map (·.2) ↔ M ∈ connSets (closure wP.g a) (wP.conn.getD k default)) ∧
        (∀ n ∈ wE.connNOpts.getD k [], 0 < n) ∧ (∀ v, (wE.imps.getD k (fun _ _ => 0)) (closure wP.g a) v < t.length) := by
  intro a ha k hk _
  rw [w_feas a ha, w_cl]
  have hk0 : k = 0 := by
    have : k < 1 := hk
    omega
  subst hk0
  have hwf : wT.WF [2, 2] = true := by decide
  have hpos : ∀ n ∈ [2, 2], 0 < n := by decide
  refine ⟨wT, ?_, ?_, ?_, ?_, ?_⟩
  · rfl
  · exact hwf
  rotate_left
  · exact hpos
  · intro _; show 0 < 3; decide
  intro M
  have hcs := w_cs
  rw [w_cl] at hcs
  show M ∈ wT.map (·.2) ↔ M ∈ connSets [0, 1, 2, 3] wK
  rw [hcs]
  simp only [wT, List.map_cons, List.map_nil, List.mem_cons, List.not_mem_nil, or_false]
  constructor <;> rintro (h | h | h) <;> simp [h]

theorem wE_ok : EncOK wP wE :=
  { pick_feasible := fun _ => w_f0
    pick_fixed := w_fixed
    conn_len := w_len
    conn_pos := w_pos
    table_ok := w_tab
    table_congr := w_tc
    imp_congr := w_ic
    g_wf := w_wf
    sel_lt := fun c hc => by cases hc
    dv_wf := fun d hd => by cases hd }

/-- `[0, 1]` is imputed to the row `[0, −1]` (activeness `[true, false]`); the corrected `[0, 0]` is a
    direct hit and reported `[true, true]`. -/
theorem witness_activeness :
    EncOK wP wE ∧ ([0, 1] : List Int).length = wE.nVars wP ∧
      (decode wP wE (decode wP wE [0, 1]).x).act ≠ (decode wP wE [0, 1]).act :=
  ⟨wE_ok, by decide, by decide⟩

end Adsg
