/- Helper lemmas about Adsg/Model/Enc.lean. -/
import Adsg.Model.Enc
namespace Adsg

/-! ### basic list facts -/

theorem clampVec_length : ∀ (nOpts : List Nat) (x : List Int), nOpts.length ≤ x.length →
    (clampVec nOpts x).length = nOpts.length
  | [], _, _ => by simp [clampVec]
  | _ :: _, [], h => by simp at h
  | n :: ns, x :: xs, h => by
    simp only [clampVec, List.length_cons] at h ⊢
    rw [clampVec_length ns xs (by omega)]

/-- A vector is within the declared ranges. -/
def InRange (nOpts : List Nat) (v : List Int) : Prop :=
  v.length = nOpts.length ∧
    ∀ i (h1 : i < v.length) (h2 : i < nOpts.length), 0 ≤ v[i] ∧ v[i] < (nOpts[i] : Int)

theorem clampVec_inRange : ∀ (nOpts : List Nat) (x : List Int), nOpts.length ≤ x.length →
    (∀ n ∈ nOpts, 0 < n) → InRange nOpts (clampVec nOpts x)
  | [], _, _, _ => by simp [clampVec, InRange]
  | _ :: _, [], h, _ => by simp at h
  | n :: ns, x :: xs, h, hp => by
    have ih := clampVec_inRange ns xs (by simpa using h) (fun m hm => hp m (List.mem_cons_of_mem _ hm))
    have hn : 0 < n := hp n (List.mem_cons_self)
    refine ⟨by simp [clampVec, ih.1], ?_⟩
    intro i h1 h2
    cases i with
    | zero =>
      simp only [clampVec, List.getElem_cons_zero]
      split
      · omega
      · split <;> omega
    | succ i =>
      simp only [clampVec, List.getElem_cons_succ]
      exact ih.2 i (by simpa [clampVec] using h1) (by simpa using h2)

theorem clampVec_of_inRange : ∀ (nOpts : List Nat) (v extra : List Int), InRange nOpts v →
    clampVec nOpts (v ++ extra) = v
  | [], v, _, h => by
    have : v = [] := by simpa [InRange] using h.1
    simp [clampVec, this]
  | n :: ns, [], _, h => by simp [InRange] at h
  | n :: ns, x :: xs, extra, h => by
    have h0 := h.2 0 (by simp) (by simp)
    simp only [List.getElem_cons_zero] at h0
    have ih := clampVec_of_inRange ns xs extra ⟨by simpa using h.1, fun i h1 h2 => by
      have := h.2 (i + 1) (by simpa using h1) (by simpa using h2)
      simpa only [List.getElem_cons_succ] using this⟩
    simp only [List.cons_append, clampVec, ih]
    rw [if_neg (by omega), if_neg (by omega)]


/-! ### zeroImp / padTo / correctIsActive -/

@[simp] theorem zeroImp_length (dv : List Int) : (zeroImp dv).length = dv.length := by
  simp [zeroImp]

theorem zeroImp_append (a b : List Int) : zeroImp (a ++ b) = zeroImp a ++ zeroImp b := by
  simp [zeroImp]

theorem zeroImp_replicate (k : Nat) : zeroImp (List.replicate k (-1)) = List.replicate k 0 := by
  simp [zeroImp]

theorem zeroImp_padTo (n : Nat) (dv : List Int) :
    zeroImp (padTo n dv) = zeroImp dv ++ List.replicate (n - dv.length) 0 := by
  simp [padTo, zeroImp_append, zeroImp_replicate]

theorem padTo_length (n : Nat) (dv : List Int) (h : dv.length ≤ n) : (padTo n dv).length = n := by
  simp [padTo]; omega

theorem take_zeroImp_padTo (n : Nat) (dv : List Int) :
    (zeroImp (padTo n dv)).take dv.length = zeroImp dv := by
  rw [zeroImp_padTo, List.take_left' (by simp)]

theorem correctIsActive_fst (dv : List Int) (h : ∀ a ∈ dv, -1 ≤ a) :
    (correctIsActive dv).1 = zeroImp dv := by
  simp only [correctIsActive, zeroImp]
  apply List.map_congr_left
  intro a ha
  have := h a ha
  split <;> split <;> omega

/-- Row of a table satisfies the range condition of `Table.WF`. -/
structure RowOK (nOpts : List Nat) (row : List Int) : Prop where
  len : row.length ≤ nOpts.length
  rng : ∀ j (h1 : j < row.length) (h2 : j < nOpts.length),
    row[j] = -1 ∨ (0 ≤ row[j] ∧ row[j] < (nOpts[j] : Int))

theorem RowOK.ge (h : RowOK nOpts row) : ∀ a ∈ row, -1 ≤ a := by
  intro a ha
  obtain ⟨j, hj, rfl⟩ := List.getElem_of_mem ha
  have := h.rng j hj (by have := h.len; omega)
  omega

theorem RowOK.padTo_ge (h : RowOK nOpts row) (n k : Nat) :
    ∀ a ∈ padTo n row ++ List.replicate k (-1), -1 ≤ a := by
  intro a ha
  simp only [padTo, List.mem_append, List.mem_replicate] at ha
  rcases ha with (ha | ha) | ha
  · exact h.ge a ha
  · omega
  · omega

theorem RowOK.inRange (h : RowOK nOpts row) (hp : ∀ n ∈ nOpts, 0 < n) :
    InRange nOpts (zeroImp (padTo nOpts.length row)) := by
  have hl := h.len
  refine ⟨by simp [padTo_length _ _ hl], ?_⟩
  intro i h1 h2
  have hpos : 0 < nOpts[i] := hp _ (List.getElem_mem h2)
  simp only [zeroImp_padTo]
  rw [List.getElem_append]
  split
  · rename_i hlt
    simp only [zeroImp_length] at hlt
    have := h.rng i hlt h2
    simp only [zeroImp, List.getElem_map]
    split <;> omega
  · simp; omega


/-! ### well-formedness unpacked -/

theorem pairwiseDistinct_iff_nodup {α} [BEq α] [LawfulBEq α] (l : List α) :
    Table.WF.pairwiseDistinct l = true ↔ l.Nodup := by
  induction l with
  | nil => simp [Table.WF.pairwiseDistinct]
  | cons x xs ih => simp [Table.WF.pairwiseDistinct, ih, List.nodup_cons]

theorem getD_mem (t : Table) (i : Nat) (hi : i < t.length) : t.getD i ([], []) ∈ t := by
  simp [List.getD_eq_getElem?_getD, List.getElem?_eq_getElem hi]

/-- `Table.WF` as propositions. -/
structure WFP (t : Table) (nOpts : List Nat) : Prop where
  len : ∀ r ∈ t, r.1.length = t.width
  width_le : t.width ≤ nOpts.length
  row : ∀ r ∈ t, RowOK nOpts r.1
  inj : ∀ i j, i < t.length → j < t.length →
    zeroImp (t.getD i ([], [])).1 = zeroImp (t.getD j ([], [])).1 → i = j

theorem WFP.of_wf {t : Table} {nOpts : List Nat} (h : t.WF nOpts = true) : WFP t nOpts := by
  simp only [Table.WF, Bool.and_eq_true, List.all_eq_true, beq_iff_eq, decide_eq_true_eq,
    Bool.or_eq_true, pairwiseDistinct_iff_nodup] at h
  obtain ⟨⟨⟨⟨hlen, hw⟩, hr⟩, hnd⟩, -⟩ := h
  refine ⟨hlen, hw, ?_, ?_⟩
  · intro r hr'
    refine ⟨by rw [hlen r hr']; exact hw, ?_⟩
    intro j h1 h2
    have hm : (r.1[j], nOpts[j]) ∈ r.1.zip nOpts := by
      have : j < (r.1.zip nOpts).length := by simp; omega
      have := List.getElem_mem this
      simpa [List.getElem_zip] using this
    simpa using hr r hr' _ hm
  · intro i j hi hj he
    have key : ∀ a b, a < t.length → b < t.length → a < b →
        zeroImp (t.getD a ([], [])).1 ≠ zeroImp (t.getD b ([], [])).1 := by
      intro a b ha hb hab
      have := (List.pairwise_iff_getElem.1 hnd) a b (by simpa using ha) (by simpa using hb) hab
      simpa [List.getD_eq_getElem?_getD, List.getElem?_eq_getElem ha,
        List.getElem?_eq_getElem hb] using this
    rcases Nat.lt_trichotomy i j with hlt | heq | hgt
    · exact absurd he (key i j hi hj hlt)
    · exact heq
    · exact absurd he.symm (key j i hj hi hgt)


/-! ### hit -/

theorem find?_range_unique (p : Nat → Bool) (n i : Nat) (hi : i < n) (hp : p i = true)
    (hu : ∀ j, j < n → p j = true → j = i) : (List.range n).find? p = some i := by
  cases h : (List.range n).find? p with
  | none =>
    rw [List.find?_eq_none] at h
    exact absurd hp (h i (List.mem_range.2 hi))
  | some j =>
    have h1 := List.find?_some h
    have h2 := List.mem_range.1 (List.mem_of_find?_eq_some h)
    rw [hu j h2 h1]

theorem Table.hit_lt (t : Table) (v : List Int) (i : Nat) (h : t.hit v = some i) :
    i < t.length := by
  unfold Table.hit at h
  split at h
  · split at h
    · simp at h; omega
    · simp at h
  · exact List.mem_range.1 (List.mem_of_find?_eq_some h)

theorem Table.hit_of_row {t : Table} {nOpts : List Nat} (w : WFP t nOpts) (i : Nat)
    (hi : i < t.length) (v : List Int)
    (hv : v.take t.width = zeroImp (t.getD i ([], [])).1) : t.hit v = some i := by
  unfold Table.hit
  split
  · rename_i h0
    have hnil : ∀ j, j < t.length → zeroImp (t.getD j ([], [])).1 = [] := by
      intro j hj
      have := w.len _ (getD_mem t j hj)
      rw [h0] at this
      rw [List.length_eq_zero_iff.1 this]; rfl
    have hi0 : i = 0 := w.inj i 0 hi (by omega) (by rw [hnil i hi, hnil 0 (by omega)])
    have hlen : t.length = 1 := by
      by_cases hc : 1 < t.length
      · have : 1 = 0 := w.inj 1 0 hc (by omega) (by rw [hnil 1 hc, hnil 0 (by omega)])
        omega
      · omega
    simp [hlen, hi0]
  · apply find?_range_unique _ _ i hi
    · simp [List.getElem?_eq_getElem hi, hv, List.getD_eq_getElem?_getD]
    · intro j hj hpj
      apply w.inj j i hj hi
      rw [← hv]
      simpa [List.getElem?_eq_getElem hj, List.getD_eq_getElem?_getD] using hpj


/-! ### eagerGet / managerGet -/

section
variable {t : Table} {nOpts : List Nat} {imp : List Int → Nat}

/-- Every decode of a non-empty table returns a (padded) row of the table. -/
theorem eagerGet_row (imp_lt : ∀ v, imp v < t.length) (x : List Int)
    (hx : nOpts.length ≤ x.length) :
    ∃ i, i < t.length ∧ eagerGet (some t) nOpts imp x =
      (padTo nOpts.length (t.getD i ([], [])).1 ++
        List.replicate (x.length - nOpts.length) (-1), some i) := by
  have hl := clampVec_length nOpts x hx
  unfold eagerGet
  simp only [hl]
  split
  · rename_i i hi
    exact ⟨i, Table.hit_lt _ _ _ hi, rfl⟩
  · have hne : t.isEmpty = false := by
      have := imp_lt []
      cases t with
      | nil => simp at this
      | cons _ _ => rfl
    simp only [hne, Bool.false_eq_true, if_false]
    exact ⟨_, imp_lt _, rfl⟩

/-- Decoding the canonical (zero-imputed, padded) vector of row `i` hits row `i`. -/
theorem eagerGet_canon (w : WFP t nOpts) (pos : ∀ n ∈ nOpts, 0 < n) (i : Nat)
    (hi : i < t.length) (k : Nat) :
    eagerGet (some t) nOpts imp
        (zeroImp (padTo nOpts.length (t.getD i ([], [])).1) ++ List.replicate k 0) =
      (padTo nOpts.length (t.getD i ([], [])).1 ++ List.replicate k (-1), some i) := by
  have hm := getD_mem t i hi
  have hr := w.row _ hm
  have hin := hr.inRange pos
  have hc := clampVec_of_inRange _ _ (List.replicate k 0) hin
  have hit : t.hit (zeroImp (padTo nOpts.length (t.getD i ([], [])).1)) = some i :=
    Table.hit_of_row w i hi _ (by rw [← w.len _ hm]; exact take_zeroImp_padTo _ _)
  unfold eagerGet
  simp only [hc, hit, zeroImp_length, List.length_append, List.length_replicate,
    padTo_length _ _ hr.len, Nat.add_sub_cancel_left]

theorem managerGet_congr {x y : List Int}
    (h : eagerGet (some t) nOpts imp x = eagerGet (some t) nOpts imp y) :
    managerGet (some t) nOpts imp x = managerGet (some t) nOpts imp y := by
  unfold managerGet
  rw [h]

theorem managerGet_of_eager {x dv : List Int} {i : Nat} (hi : i < t.length)
    (h : eagerGet (some t) nOpts imp x = (dv, some i)) :
    managerGet (some t) nOpts imp x =
      ((correctIsActive dv).1, (correctIsActive dv).2, some (t.getD i ([], [])).2) := by
  unfold managerGet
  rw [h]
  simp [List.getElem?_eq_getElem hi, List.getD_eq_getElem?_getD]

/-- Normal form of every decode. -/
theorem managerGet_row (w : WFP t nOpts) (imp_lt : ∀ v, imp v < t.length) (x : List Int)
    (hx : nOpts.length ≤ x.length) :
    ∃ i, i < t.length ∧
      eagerGet (some t) nOpts imp x =
        (padTo nOpts.length (t.getD i ([], [])).1 ++
          List.replicate (x.length - nOpts.length) (-1), some i) ∧
      managerGet (some t) nOpts imp x =
        (zeroImp (padTo nOpts.length (t.getD i ([], [])).1) ++
            List.replicate (x.length - nOpts.length) 0,
          (padTo nOpts.length (t.getD i ([], [])).1).map (fun v => v != -1) ++
            List.replicate (x.length - nOpts.length) false,
          some (t.getD i ([], [])).2) := by
  obtain ⟨i, hi, he⟩ := eagerGet_row imp_lt x hx
  refine ⟨i, hi, he, ?_⟩
  rw [managerGet_of_eager hi he]
  have hr := w.row _ (getD_mem t i hi)
  rw [correctIsActive_fst _ (hr.padTo_ge _ _), zeroImp_append, zeroImp_replicate]
  simp [correctIsActive]


/-! ### the C10 properties, with the hypotheses of `C10.Ctx` spelled out -/

theorem get_valid' (imp_lt : ∀ v, imp v < t.length) (x : List Int)
    (hx : nOpts.length ≤ x.length) :
    ∃ i, i < t.length ∧ (eagerGet (some t) nOpts imp x).2 = some i ∧
      (managerGet (some t) nOpts imp x).2.2 = some (t.getD i ([], [])).2 := by
  obtain ⟨i, hi, he⟩ := eagerGet_row imp_lt x hx
  exact ⟨i, hi, by rw [he], by rw [managerGet_of_eager hi he]⟩

theorem get_in_range' (w : WFP t nOpts) (pos : ∀ n ∈ nOpts, 0 < n)
    (imp_lt : ∀ v, imp v < t.length) (x : List Int) (hx : nOpts.length ≤ x.length) :
    let r := managerGet (some t) nOpts imp x
    r.1.length = x.length ∧ r.2.1.length = x.length ∧
    (∀ i (hi : i < nOpts.length), 0 ≤ r.1.getD i 0 ∧ r.1.getD i 0 < (nOpts[i] : Int)) ∧
    (∀ i, nOpts.length ≤ i → i < x.length → r.1.getD i 7 = 0 ∧ r.2.1.getD i true = false) := by
  obtain ⟨i, hi, -, hm⟩ := managerGet_row w imp_lt x hx
  have hr := w.row _ (getD_mem t i hi)
  have hin := hr.inRange pos
  have hpl := padTo_length _ _ hr.len
  generalize t.getD i ([], []) = r at hm hr hin hpl
  simp only [hm]
  refine ⟨by simp [hpl]; omega, by simp [hpl]; omega, ?_, ?_⟩
  · intro j hj
    have hj' : j < (zeroImp (padTo nOpts.length r.1)).length := by
      simp [hpl, hj]
    rw [List.getD_eq_getElem?_getD, List.getElem?_append_left hj', List.getElem?_eq_getElem hj']
    exact hin.2 j hj' hj
  · intro j h1 h2
    constructor
    · rw [List.getD_eq_getElem?_getD, List.getElem?_append_right (by simp [hpl]; exact h1),
        List.getElem?_replicate, if_pos (by simp [hpl]; omega)]
      rfl
    · rw [List.getD_eq_getElem?_getD, List.getElem?_append_right (by simp [hpl]; exact h1),
        List.getElem?_replicate, if_pos (by simp [hpl]; omega)]
      rfl

theorem get_idempotent' (w : WFP t nOpts) (pos : ∀ n ∈ nOpts, 0 < n)
    (imp_lt : ∀ v, imp v < t.length) (x : List Int) (hx : nOpts.length ≤ x.length) :
    managerGet (some t) nOpts imp (managerGet (some t) nOpts imp x).1 =
      managerGet (some t) nOpts imp x := by
  obtain ⟨i, hi, he, hm⟩ := managerGet_row w imp_lt x hx
  apply managerGet_congr
  rw [hm, he]
  exact eagerGet_canon w pos i hi _

theorem get_onto' (w : WFP t nOpts) (pos : ∀ n ∈ nOpts, 0 < n) (i : Nat) (hi : i < t.length) :
    let v := zeroImp (padTo nOpts.length (t.getD i ([], [])).1)
    (managerGet (some t) nOpts imp v).1 = v ∧
    (managerGet (some t) nOpts imp v).2.2 = some (t.getD i ([], [])).2 := by
  have he := eagerGet_canon (imp := imp) w pos i hi 0
  simp only [List.replicate_zero, List.append_nil] at he
  have hm := managerGet_of_eager hi he
  have hr := w.row _ (getD_mem t i hi)
  intro v
  rw [hm]
  exact ⟨correctIsActive_fst _ (by simpa using hr.padTo_ge nOpts.length 0), rfl⟩

theorem get_injective' (w : WFP t nOpts) (imp_lt : ∀ v, imp v < t.length) (x y : List Int)
    (hx : nOpts.length ≤ x.length) (hy : nOpts.length ≤ y.length)
    (heq : (managerGet (some t) nOpts imp x).1 = (managerGet (some t) nOpts imp y).1) :
    managerGet (some t) nOpts imp x = managerGet (some t) nOpts imp y := by
  obtain ⟨i, hi, hex, hmx⟩ := managerGet_row w imp_lt x hx
  obtain ⟨j, hj, hey, hmy⟩ := managerGet_row w imp_lt y hy
  rw [hmx, hmy] at heq
  simp only at heq
  have hmi := getD_mem t i hi
  have hmj := getD_mem t j hj
  have hri := w.row _ hmi
  have hrj := w.row _ hmj
  have hlen : x.length - nOpts.length = y.length - nOpts.length := by
    have := congrArg List.length heq
    simp only [List.length_append, zeroImp_length, padTo_length _ _ hri.len,
      padTo_length _ _ hrj.len, List.length_replicate] at this
    omega
  have hij : i = j := by
    apply w.inj i j hi hj
    have := congrArg (List.take t.width) heq
    rw [zeroImp_padTo, zeroImp_padTo, List.append_assoc, List.append_assoc,
      List.take_left' (by rw [zeroImp_length]; exact w.len _ hmi),
      List.take_left' (by rw [zeroImp_length]; exact w.len _ hmj)] at this
    exact this
  subst hij
  apply managerGet_congr
  rw [hex, hey, hlen]

theorem all_vectors_exact' (w : WFP t nOpts) (pos : ∀ n ∈ nOpts, 0 < n)
    (imp_lt : ∀ v, imp v < t.length) (dv : List Int) :
    dv ∈ allDesignVectors t nOpts ↔
      ∃ x : List Int, x.length = nOpts.length ∧ (eagerGet (some t) nOpts imp x).1 = dv := by
  constructor
  · intro h
    simp only [allDesignVectors, List.mem_map] at h
    obtain ⟨r, hr, rfl⟩ := h
    obtain ⟨i, hi, rfl⟩ := List.getElem_of_mem hr
    have hg : t.getD i ([], []) = t[i] := by simp [List.getD_eq_getElem?_getD, hi]
    have he := eagerGet_canon (imp := imp) w pos i hi 0
    simp only [List.replicate_zero, List.append_nil, hg] at he
    exact ⟨zeroImp (padTo nOpts.length t[i].1), by simp [padTo_length _ _ (w.row _ hr).len],
      by rw [he]⟩
  · rintro ⟨x, hx, rfl⟩
    obtain ⟨i, hi, he⟩ := eagerGet_row imp_lt x (Nat.le_of_eq hx.symm)
    rw [he, hx]
    simp only [Nat.sub_self, List.replicate_zero, List.append_nil, allDesignVectors, List.mem_map]
    exact ⟨_, getD_mem t i hi, rfl⟩

theorem activeness_is_table_marks' (imp_lt : ∀ v, imp v < t.length) (x : List Int)
    (hx : x.length = nOpts.length) :
    ∃ dv ∈ allDesignVectors t nOpts, (eagerGet (some t) nOpts imp x).1 = dv ∧
      managerGet (some t) nOpts imp x = ((correctIsActive dv).1, (correctIsActive dv).2,
        (managerGet (some t) nOpts imp x).2.2) := by
  obtain ⟨i, hi, he⟩ := eagerGet_row imp_lt x (Nat.le_of_eq hx.symm)
  have hm := managerGet_of_eager hi he
  refine ⟨_, ?_, rfl, ?_⟩
  · rw [he, hx]
    simp only [Nat.sub_self, List.replicate_zero, List.append_nil, allDesignVectors, List.mem_map]
    exact ⟨_, getD_mem t i hi, rfl⟩
  · rw [hm, he]

end

theorem inactive_canonical' (dv : List Int) (i : Nat) (hi : i < dv.length) :
    ((correctIsActive dv).2.getD i true = false → (correctIsActive dv).1.getD i 7 = 0) := by
  intro h
  simp only [correctIsActive, List.getD_eq_getElem?_getD, List.getElem?_map,
    List.getElem?_eq_getElem hi, Option.map_some, Option.getD_some] at h ⊢
  simp at h
  simp [h]

theorem two_values_each' (ts : List Table) (nOpts : List Nat) (h : twoValuesEach ts nOpts = true)
    (i : Nat) (hi : i < nOpts.length) :
    ∃ t₁ ∈ ts, ∃ t₂ ∈ ts, ∃ r₁ ∈ t₁, ∃ r₂ ∈ t₂, ∃ a b : Int,
      r₁.1[i]? = some a ∧ r₂.1[i]? = some b ∧ a ≠ -1 ∧ b ≠ -1 ∧ a ≠ b := by
  simp only [twoValuesEach, List.all_eq_true, List.mem_range] at h
  have h' := h i hi
  have key : ∀ a, a ∈ (ts.flatMap (fun t => t.filterMap (fun r => r.1[i]?))).filter (· != -1) →
      ∃ t₁ ∈ ts, ∃ r₁ ∈ t₁, r₁.1[i]? = some a ∧ a ≠ -1 := by
    intro a ha
    simp only [List.mem_filter, List.mem_flatMap, List.mem_filterMap, bne_iff_ne] at ha
    obtain ⟨⟨t₁, ht₁, r₁, hr₁, e⟩, hne⟩ := ha
    exact ⟨t₁, ht₁, r₁, hr₁, e, hne⟩
  generalize (ts.flatMap (fun t => t.filterMap (fun r => r.1[i]?))).filter (· != -1) = vals
    at h' key
  cases vals with
  | nil => simp at h'
  | cons v rest =>
    simp only [List.any_eq_true, bne_iff_ne] at h'
    obtain ⟨b, hb, hne⟩ := h'
    obtain ⟨t₁, ht₁, r₁, hr₁, e₁, n₁⟩ := key v List.mem_cons_self
    obtain ⟨t₂, ht₂, r₂, hr₂, e₂, n₂⟩ := key b (List.mem_cons_of_mem _ hb)
    exact ⟨t₁, ht₁, t₂, ht₂, r₁, hr₁, r₂, hr₂, v, b, e₁, e₂, n₁, n₂, fun e => hne e.symm⟩

theorem unknown_pattern_inactive' (nOpts : List Nat) (imp : List Int → Nat) (x : List Int)
    (hx : nOpts.length ≤ x.length) :
    (managerGet none nOpts imp x).2.1 = List.replicate x.length false ∧
    (managerGet none nOpts imp x).2.2 = none := by
  refine ⟨?_, rfl⟩
  simp only [managerGet, eagerGet, correctIsActive, clampVec_length _ _ hx]
  simp only [List.map_replicate, List.replicate_append_replicate]
  congr 1
  omega


/-! ### the code as implemented (`eagerGetImpl` / `managerGetImpl`) -/

theorem zeroImp_idem (dv : List Int) : zeroImp (zeroImp dv) = zeroImp dv := by
  simp only [zeroImp, List.map_map]
  apply List.map_congr_left
  intro a _
  simp only [Function.comp]
  split <;> (try split) <;> omega

theorem zeroImp_ge (dv : List Int) : ∀ a ∈ zeroImp dv, -1 ≤ a := by
  intro a ha
  simp only [zeroImp, List.mem_map] at ha
  obtain ⟨b, -, rfl⟩ := ha
  split <;> omega

/-- What a direct hit means: the key equals the zero-imputed design vector of the hit row. -/
theorem Table.hit_spec {t : Table} {nOpts : List Nat} (w : WFP t nOpts) (v : List Int) (i : Nat)
    (h : t.hit v = some i) :
    i < t.length ∧ v.take t.width = zeroImp (t.getD i ([], [])).1 := by
  have hi := Table.hit_lt t v i h
  refine ⟨hi, ?_⟩
  unfold Table.hit at h
  split at h
  · rename_i h0
    have := w.len _ (getD_mem t i hi)
    rw [h0] at this
    rw [List.length_eq_zero_iff.1 this, h0]; rfl
  · have hp := List.find?_some h
    simp only [List.getElem?_eq_getElem hi] at hp
    have := (beq_iff_eq.1 hp).symm
    simpa [List.getD_eq_getElem?_getD, List.getElem?_eq_getElem hi] using this

section
variable {t : Table} {nOpts : List Nat} {imp : List Int → Nat}

theorem managerGetImpl_of_miss (x : List Int) (hmiss : t.hit (clampVec nOpts x) = none) :
    managerGetImpl (some t) nOpts imp x = managerGet (some t) nOpts imp x := by
  unfold managerGetImpl managerGet eagerGetImpl eagerGet
  simp only [hmiss]

theorem managerGetImpl_same' (w : WFP t nOpts) (x : List Int) (hx : nOpts.length ≤ x.length) :
    (managerGetImpl (some t) nOpts imp x).1 = (managerGet (some t) nOpts imp x).1 ∧
    (managerGetImpl (some t) nOpts imp x).2.2 = (managerGet (some t) nOpts imp x).2.2 := by
  cases hh : t.hit (clampVec nOpts x) with
  | none => rw [managerGetImpl_of_miss x hh]; exact ⟨rfl, rfl⟩
  | some i =>
    obtain ⟨hi, hk⟩ := Table.hit_spec w _ i hh
    have hm := getD_mem t i hi
    have hr := w.row _ hm
    have hlen := w.len _ hm
    have hl := clampVec_length nOpts x hx
    unfold managerGetImpl managerGet eagerGetImpl eagerGet
    simp only [hh, hk, hl]
    refine ⟨?_, trivial⟩
    rw [correctIsActive_fst _ (hr.padTo_ge _ _), correctIsActive_fst]
    · rw [zeroImp_append, zeroImp_append, zeroImp_append, zeroImp_idem, zeroImp_padTo, hlen, zeroImp_replicate]
    · intro a ha
      simp only [List.mem_append, List.mem_replicate] at ha
      rcases ha with (ha | ha) | ha
      · exact zeroImp_ge _ a ha
      · omega
      · omega

end
end Adsg
