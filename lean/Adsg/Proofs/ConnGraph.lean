/- Helper lemmas about Adsg/Model/ConnGraph.lean. -/
import Adsg.Model.ConnGraph
import Adsg.Proofs.Conn
namespace Adsg

/-- `d` is a sum of one allowed degree per member. -/
def SumOf : List Deg → Nat → Prop
  | [], d => d = 0
  | m :: ms, d => ∃ a b, m.allows a = true ∧ SumOf ms b ∧ d = a + b

/-- every explicit degree list is non-empty (the constructor of connector nodes guarantees it) -/
def NonEmptyLists (ms : List Deg) : Prop := ∀ m ∈ ms, ∀ ds, m = .list ds → ds ≠ []

/-! ### sorting / deduplication keep the members -/

theorem mem_insertSorted (x d : Nat) : ∀ (l : List Nat), d ∈ insertSorted x l ↔ d = x ∨ d ∈ l
  | [] => by simp [insertSorted]
  | y :: ys => by
    simp only [insertSorted]
    split
    · simp
    · simp only [List.mem_cons, mem_insertSorted x d ys]
      constructor
      · rintro (h | h | h) <;> simp [h]
      · rintro (h | h | h) <;> simp [h]

theorem mem_sortNat (d : Nat) : ∀ (l : List Nat), d ∈ sortNat l ↔ d ∈ l
  | [] => by simp [sortNat]
  | x :: xs => by
    have ih := mem_sortNat d xs
    simp only [sortNat, List.foldr_cons] at ih ⊢
    rw [mem_insertSorted, ih, List.mem_cons]

theorem mem_dedup_nat (d : Nat) : ∀ (l : List Nat), d ∈ dedup l ↔ d ∈ l
  | [] => by simp [dedup]
  | y :: ys => by
    have ih := mem_dedup_nat d ys
    simp only [dedup]
    split
    · rename_i h
      have hy : y ∈ ys := (mem_dedup_nat y ys).1 (by simpa using h)
      rw [ih, List.mem_cons]
      constructor
      · exact Or.inr
      · rintro (rfl | h1)
        · exact hy
        · exact h1
    · simp only [List.mem_cons, ih]

/-! ### minimum of a degree specification -/

theorem foldl_min_spec : ∀ (l : List Nat) (a : Nat),
    l.foldl min a ≤ a ∧ (∀ x ∈ l, l.foldl min a ≤ x) ∧ (l.foldl min a = a ∨ l.foldl min a ∈ l)
  | [], a => by simp
  | y :: l, a => by
    obtain ⟨h1, h2, h3⟩ := foldl_min_spec l (min a y)
    simp only [List.foldl_cons, List.mem_cons, forall_eq_or_imp]
    refine ⟨by omega, ⟨by omega, h2⟩, ?_⟩
    rcases h3 with h3 | h3
    · rw [h3]
      rcases Nat.le_total a y with h | h
      · left; omega
      · right; left; omega
    · right; right; exact h3

theorem minDeg_le_of_allows {m : Deg} {a : Nat} (h : m.allows a = true) : m.minDeg ≤ a := by
  cases m with
  | list ds =>
    simp only [Deg.allows, List.contains_iff_mem] at h
    exact (foldl_min_spec ds (ds.headD 0)).2.1 a h
  | atLeast k => simpa [Deg.allows, Deg.minDeg] using h

theorem allows_minDeg {m : Deg} (h : ∀ ds, m = .list ds → ds ≠ []) : m.allows m.minDeg = true := by
  cases m with
  | list ds =>
    simp only [Deg.allows, Deg.minDeg, List.contains_iff_mem]
    cases ds with
    | nil => exact absurd rfl (h [] rfl)
    | cons x xs =>
      rcases (foldl_min_spec (x :: xs) x).2.2 with h3 | h3
      · simp only [List.headD_cons]; rw [h3]; simp
      · exact h3
  | atLeast k => simp [Deg.allows, Deg.minDeg]

/-! ### combined degree of a grouping connector -/

def Deg.isOpen : Deg → Bool
  | .atLeast _ => true
  | .list _ => false

def Deg.listOf : Deg → List Nat
  | .list ds => ds
  | .atLeast _ => []

theorem combinedDeg_eq (ms : List Deg) :
    combinedDeg ms = if ms.any Deg.isOpen then .atLeast ((ms.map Deg.minDeg).sum)
      else .list (sortNat (sumSets (ms.map Deg.listOf))) := by
  unfold combinedDeg
  congr 2

theorem mem_sumSets_iff : ∀ (ms : List Deg), ms.any Deg.isOpen = false → ∀ d,
    d ∈ sumSets (ms.map Deg.listOf) ↔ SumOf ms d
  | [], _, d => by simp [sumSets, SumOf]
  | m :: ms, h, d => by
    simp only [List.any_cons, Bool.or_eq_false_iff] at h
    have ih := mem_sumSets_iff ms h.2
    cases m with
    | atLeast k => simp [Deg.isOpen] at h
    | list ds =>
      simp only [List.map_cons, sumSets, Deg.listOf, mem_dedup_nat, List.mem_flatMap, List.mem_map,
        SumOf, Deg.allows, List.contains_iff_mem]
      constructor
      · rintro ⟨a, ha, b, hb, rfl⟩
        exact ⟨a, b, ha, (ih b).1 hb, rfl⟩
      · rintro ⟨a, b, ha, hb, rfl⟩
        exact ⟨a, ha, b, (ih b).2 hb, rfl⟩

theorem sum_minDeg_le_of_SumOf : ∀ (ms : List Deg) (d : Nat), SumOf ms d → (ms.map Deg.minDeg).sum ≤ d
  | [], d, _ => by simp
  | m :: ms, d, h => by
    obtain ⟨a, b, ha, hb, rfl⟩ := h
    have h1 := minDeg_le_of_allows ha
    have h2 := sum_minDeg_le_of_SumOf ms b hb
    simp only [List.map_cons, List.sum_cons]; omega

theorem SumOf_sum_minDeg : ∀ (ms : List Deg), NonEmptyLists ms → SumOf ms ((ms.map Deg.minDeg).sum)
  | [], _ => by simp [SumOf]
  | m :: ms, h => by
    refine ⟨m.minDeg, (ms.map Deg.minDeg).sum, allows_minDeg (h m (by simp)),
      SumOf_sum_minDeg ms (fun m' hm' => h m' (by simp [hm'])), by simp⟩

theorem SumOf_add_of_open : ∀ (ms : List Deg), ms.any Deg.isOpen = true → ∀ (b e : Nat),
    SumOf ms b → SumOf ms (b + e)
  | [], h, _, _, _ => by simp at h
  | m :: ms, h, b, e, hs => by
    obtain ⟨a, b', ha, hb, rfl⟩ := hs
    by_cases hm : m.isOpen = true
    · refine ⟨a + e, b', ?_, hb, by omega⟩
      cases m with
      | list ds => simp [Deg.isOpen] at hm
      | atLeast k =>
        simp only [Deg.allows, decide_eq_true_eq] at ha ⊢
        omega
    · have h' : ms.any Deg.isOpen = true := by
        simp only [List.any_cons, Bool.or_eq_true] at h
        rcases h with h | h
        · exact absurd h hm
        · exact h
      exact ⟨a, b' + e, ha, SumOf_add_of_open ms h' b' e hb, by omega⟩

theorem combinedDeg_allows_iff (ms : List Deg) (h : NonEmptyLists ms) (d : Nat) :
    (combinedDeg ms).allows d = true ↔ SumOf ms d := by
  rw [combinedDeg_eq]
  by_cases ho : ms.any Deg.isOpen = true
  · rw [if_pos ho]
    simp only [Deg.allows, decide_eq_true_eq]
    constructor
    · intro hd
      have := SumOf_add_of_open ms ho _ (d - (ms.map Deg.minDeg).sum) (SumOf_sum_minDeg ms h)
      rwa [Nat.add_sub_cancel' hd] at this
    · exact sum_minDeg_le_of_SumOf ms d
  · rw [if_neg ho]
    simp only [Deg.allows, List.contains_iff_mem, mem_sortNat]
    exact mem_sumSets_iff ms (by simpa using ho) d

/-! ### what validity gives -/

theorem validMatrix_row {s : ConnSettings} {e : Existence} {M : Matrix} (h : validMatrix s e M = true)
    {i : Nat} (hi : i < s.src.length) : (effDeg s.src e.srcOv i).allows ((M.getD i []).sum) = true := by
  simp only [validMatrix, Bool.and_eq_true, List.all_eq_true, List.mem_range] at h
  exact h.1.2 i hi

theorem validMatrix_col {s : ConnSettings} {e : Existence} {M : Matrix} (h : validMatrix s e M = true)
    {j : Nat} (hj : j < s.tgt.length) : (effDeg s.tgt e.tgtOv j).allows (colSum M j) = true := by
  simp only [validMatrix, Bool.and_eq_true, List.all_eq_true, List.mem_range] at h
  exact h.2 j hj

theorem maxMat_getD_le (s : ConnSettings) (e : Existence) (i j : Nat) :
    ((maxMat s e).getD i []).getD j 0 ≤ maxCell s e i j := by
  by_cases hi : i < s.src.length
  · rw [maxMat, getD_map_range _ _ _ _ hi]
    by_cases hj : j < s.tgt.length
    · rw [getD_map_range _ _ _ _ hj]; exact Nat.le_refl _
    · simp [List.getD_eq_getElem?_getD, Nat.le_of_not_lt hj]
  · simp [maxMat, List.getD_eq_getElem?_getD, Nat.le_of_not_lt hi]

theorem validMatrix_cell_le {s : ConnSettings} {e : Existence} {M : Matrix}
    (h : validMatrix s e M = true) (i j : Nat) : (M.getD i []).getD j 0 ≤ maxCell s e i j :=
  Nat.le_trans ((leMat_getD (validMatrix_leMat h) i).getD_le j) (maxMat_getD_le s e i j)

theorem validMatrix_getD_nil {s : ConnSettings} {e : Existence} {M : Matrix}
    (h : validMatrix s e M = true) {i : Nat} (hi : s.src.length ≤ i) : M.getD i [] = [] := by
  have := leMat_length (validMatrix_leMat h)
  rw [maxMat_length] at this
  simp [List.getD_eq_getElem?_getD, this, hi]

theorem maxCell_excluded {s : ConnSettings} {e : Existence} {i j : Nat}
    (h : s.excluded.contains (i, j) = true) : maxCell s e i j = 0 := by
  simp only [maxCell, h, Bool.or_true, if_true]

theorem maxCell_le_one {s : ConnSettings} {e : Existence} {i j : Nat}
    (h : (repOf s.src i && repOf s.tgt j) = false) : maxCell s e i j ≤ 1 := by
  simp only [maxCell, h]
  split
  · omega
  · simp only [Bool.false_eq_true, if_false]; omega

/-! ### effective degrees / repeat flags of `settingsIn` under `existenceOf` -/

theorem effDeg_map_range (cs : List Connector) (f : Connector → CNode) (g : Nat → Option (List Nat))
    {i : Nat} (hi : i < cs.length) :
    effDeg (cs.map f) ((List.range cs.length).map g) i =
      match g i with
      | some ds => .list ds
      | none => (f (cs.getD i default)).deg := by
  cases hg : g i <;> simp [effDeg, hi, hg, List.getD_eq_getElem?_getD]

theorem repOf_map (cs : List Connector) (f : Connector → CNode) {i : Nat} (hi : i < cs.length) :
    repOf (cs.map f) i = (f (cs.getD i default)).rep := by
  simp [repOf, hi, List.getD_eq_getElem?_getD]

/-! ### overrides -/

theorem overrideOf_absent {X : List Node} {c : Connector} (n : Nat) (h : c.node ∉ X) :
    overrideOf X c n = some [0] := by
  simp [overrideOf, h]

theorem overrideOf_plain {X : List Node} {c : Connector} (n : Nat) (h : c.node ∈ X)
    (hg : c.isGroup = false) : overrideOf X c n = none := by
  simp [overrideOf, h, hg]

theorem overrideOf_group {X : List Node} {c : Connector} (n : Nat) (h : c.node ∈ X)
    (hg : c.isGroup = true) : ∃ ds, overrideOf X c n = some ds ∧ ∀ d, ds.contains d = true →
      (combinedDeg ((c.members.filter (fun m => X.contains m.1)).map (·.2.1))).allows d = true := by
  have hc : X.contains c.node = true := by simpa using h
  simp only [overrideOf, hc, hg, Bool.not_true, Bool.false_eq_true, if_false, if_true]
  generalize combinedDeg ((c.members.filter (fun m => X.contains m.1)).map (·.2.1)) = D
  cases D with
  | list ds => exact ⟨ds, rfl, fun d hd => by simpa [Deg.allows] using hd⟩
  | atLeast m =>
    refine ⟨_, rfl, fun d hd => ?_⟩
    simp only [List.contains_iff_mem, List.mem_filter, decide_eq_true_eq] at hd
    simp [Deg.allows, hd.2]

/-- effective degree of entry `i` of a connector list in the architecture `X` -/
theorem effDeg_conn (X : List Node) (cs : List Connector) (cap : Nat → Nat) {i : Nat}
    (hi : i < cs.length) :
    effDeg (cs.map (fun c => ({ deg := c.baseDeg, rep := c.repIn X } : CNode)))
      ((List.range cs.length).map (fun i => overrideOf X (cs.getD i default) (cap i))) i =
      match overrideOf X (cs.getD i default) (cap i) with
      | some ds => .list ds
      | none => (cs.getD i default).baseDeg :=
  effDeg_map_range cs _ _ hi

theorem effDeg_conn_absent (X : List Node) (cs : List Connector) (cap : Nat → Nat) {i : Nat}
    (hi : i < cs.length) (h : (cs.getD i default).node ∉ X) :
    effDeg (cs.map (fun c => ({ deg := c.baseDeg, rep := c.repIn X } : CNode)))
      ((List.range cs.length).map (fun i => overrideOf X (cs.getD i default) (cap i))) i = .list [0] := by
  rw [effDeg_conn X cs cap hi, overrideOf_absent _ h]

theorem effDeg_conn_plain (X : List Node) (cs : List Connector) (cap : Nat → Nat) {i : Nat}
    (hi : i < cs.length) (h : (cs.getD i default).node ∈ X) (hg : (cs.getD i default).isGroup = false) :
    effDeg (cs.map (fun c => ({ deg := c.baseDeg, rep := c.repIn X } : CNode)))
      ((List.range cs.length).map (fun i => overrideOf X (cs.getD i default) (cap i))) i =
      (cs.getD i default).deg := by
  rw [effDeg_conn X cs cap hi, overrideOf_plain _ h hg]
  rw [Connector.baseDeg, if_neg (by rw [hg]; exact Bool.false_ne_true)]

theorem effDeg_conn_group (X : List Node) (cs : List Connector) (cap : Nat → Nat) {i : Nat}
    (hi : i < cs.length) (h : (cs.getD i default).node ∈ X) (hg : (cs.getD i default).isGroup = true)
    {d : Nat} (hd : (effDeg (cs.map (fun c => ({ deg := c.baseDeg, rep := c.repIn X } : CNode)))
      ((List.range cs.length).map (fun i => overrideOf X (cs.getD i default) (cap i))) i).allows d = true) :
    (combinedDeg (((cs.getD i default).members.filter (fun m => X.contains m.1)).map (·.2.1))).allows d
      = true := by
  obtain ⟨ds, h1, h2⟩ := overrideOf_group (cap i) h hg
  rw [effDeg_conn X cs cap hi, h1] at hd
  exact h2 d hd

/-! ### the C11 properties on valid matrices -/

section
variable {X : List Node} {k : ConnChoice} {M : Matrix}
  (hv : validMatrix (settingsIn X k) (existenceOf X k) M = true)
include hv

theorem valid_absent_source {i : Nat} (hi : i < k.src.length)
    (habs : (k.src.getD i default).node ∉ X) : (M.getD i []).sum = 0 := by
  have hr := validMatrix_row hv (i := i) (by simpa [settingsIn] using hi)
  have he : effDeg (settingsIn X k).src (existenceOf X k).srcOv i = .list [0] :=
    effDeg_conn_absent X k.src _ hi habs
  rw [he] at hr
  simpa [Deg.allows] using hr

theorem valid_absent_target {j : Nat} (hj : j < k.tgt.length)
    (habs : (k.tgt.getD j default).node ∉ X) : colSum M j = 0 := by
  have hr := validMatrix_col hv (j := j) (by simpa [settingsIn] using hj)
  have he : effDeg (settingsIn X k).tgt (existenceOf X k).tgtOv j = .list [0] :=
    effDeg_conn_absent X k.tgt _ hj habs
  rw [he] at hr
  simpa [Deg.allows] using hr

theorem valid_excluded {i j : Nat} (hex : (i, j) ∈ k.excluded) : (M.getD i []).getD j 0 = 0 := by
  have h1 := validMatrix_cell_le hv i j
  have h2 : maxCell (settingsIn X k) (existenceOf X k) i j = 0 :=
    maxCell_excluded (by simpa [settingsIn] using hex)
  omega

theorem valid_no_parallel {i j : Nat} (hi : i < k.src.length) (hj : j < k.tgt.length)
    (hrep : ((k.src.getD i default).repIn X && (k.tgt.getD j default).repIn X) = false) :
    (M.getD i []).getD j 0 ≤ 1 := by
  have h1 := validMatrix_cell_le hv i j
  have h2 : maxCell (settingsIn X k) (existenceOf X k) i j ≤ 1 := by
    apply maxCell_le_one
    have e1 : repOf (settingsIn X k).src i = (k.src.getD i default).repIn X := repOf_map k.src _ hi
    have e2 : repOf (settingsIn X k).tgt j = (k.tgt.getD j default).repIn X := repOf_map k.tgt _ hj
    rw [e1, e2]; exact hrep
  omega

theorem valid_present_source {i : Nat} (hi : i < k.src.length) (hp : (k.src.getD i default).node ∈ X)
    (hg : (k.src.getD i default).isGroup = false) :
    (k.src.getD i default).deg.allows ((M.getD i []).sum) = true := by
  have hr := validMatrix_row hv (i := i) (by simpa [settingsIn] using hi)
  have he : effDeg (settingsIn X k).src (existenceOf X k).srcOv i = (k.src.getD i default).deg :=
    effDeg_conn_plain X k.src _ hi hp hg
  rwa [he] at hr

theorem valid_group_source {i : Nat} (hi : i < k.src.length) (hp : (k.src.getD i default).node ∈ X)
    (hg : (k.src.getD i default).isGroup = true)
    (hne : NonEmptyLists (((k.src.getD i default).members.filter (fun m => X.contains m.1)).map (·.2.1))) :
    SumOf (((k.src.getD i default).members.filter (fun m => X.contains m.1)).map (·.2.1))
      ((M.getD i []).sum) := by
  have hr := validMatrix_row hv (i := i) (by simpa [settingsIn] using hi)
  exact (combinedDeg_allows_iff _ hne _).1 (effDeg_conn_group X k.src _ hi hp hg hr)

theorem valid_no_source (hnone : connPresent X k = false) (i j : Nat) :
    (M.getD i []).getD j 0 = 0 := by
  by_cases hi : i < k.src.length
  · have habs : (k.src.getD i default).node ∉ X := by
      simp only [connPresent, List.any_eq_false, List.contains_iff_mem] at hnone
      apply hnone
      simp [List.getD_eq_getElem?_getD, hi]
    have h1 := valid_absent_source hv hi habs
    have h2 := getD_le_sum (M.getD i []) j
    omega
  · rw [validMatrix_getD_nil hv (by simpa [settingsIn] using hi)]
    simp

end

/-! ### edges of an applied connection set -/

theorem sum_map_range_single (f : Nat → Nat) (i : Nat) (h : ∀ i', i' ≠ i → f i' = 0) :
    ∀ n, ((List.range n).map f).sum = if i < n then f i else 0
  | 0 => by simp
  | n + 1 => by
    rw [List.range_succ, List.map_append, List.sum_append, sum_map_range_single f i h n]
    simp only [List.map_cons, List.map_nil, List.sum_cons, List.sum_nil, Nat.add_zero]
    by_cases h1 : i < n
    · rw [if_pos h1, if_pos (by omega), h n (by omega)]; rfl
    · rw [if_neg h1]
      by_cases h2 : i = n
      · subst h2; simp
      · rw [if_neg (by omega), h n (fun h3 => h2 h3.symm)]

theorem countEdge_eq_count (es : List (Nat × Nat)) (i j : Nat) : countEdge es i j = es.count (i, j) := by
  simp [countEdge, List.count, List.countP_eq_length_filter]

theorem count_row_edges (row : List Nat) (i' i j : Nat) :
    ((List.range row.length).flatMap (fun j' => List.replicate (row.getD j' 0) (i', j'))).count (i, j) =
      if i' = i then row.getD j 0 else 0 := by
  rw [List.count_flatMap]
  by_cases hi : i' = i
  · subst hi
    rw [if_pos rfl, sum_map_range_single _ j]
    · split
      · simp
      · rename_i hj
        simp [List.getD_eq_getElem?_getD, Nat.le_of_not_lt hj]
    · intro j' hj'
      simp [List.count_replicate, hj']
  · rw [if_neg hi, sum_map_range_single _ j (by intro j' _; simp [List.count_replicate, hi])]
    simp [List.count_replicate, hi]

theorem countEdge_edgesOf (M : Matrix) (i j : Nat) :
    countEdge (edgesOf M) i j = (M.getD i []).getD j 0 := by
  rw [countEdge_eq_count, edgesOf, List.count_flatMap]
  rw [sum_map_range_single _ i]
  · split
    · simp only [Function.comp_apply]
      rw [count_row_edges]; simp
    · rename_i hi
      simp [List.getD_eq_getElem?_getD, Nat.le_of_not_lt hi]
  · intro i' hi'
    simp only [Function.comp_apply]
    rw [count_row_edges, if_neg hi']

end Adsg
