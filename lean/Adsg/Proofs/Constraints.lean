/- Helper lemmas about Adsg/Model/Constraints.lean. -/
import Adsg.Model.Constraints
import Adsg.Proofs.Closure
import Mathlib.Data.List.Pairwise
import Mathlib.Data.List.Nodup
import Mathlib.Data.List.Range
import Mathlib.Data.List.Perm.Basic
namespace Adsg

/-! ### Bool helpers vs. `List.Pairwise` -/

theorem pairwiseB_iff {α} (r : α → α → Bool) (l : List α) :
    pairwiseB r l = true ↔ l.Pairwise (fun a b => r a b = true) := by
  induction l with
  | nil => simp [pairwiseB]
  | cons x xs ih => simp [pairwiseB, ih, List.all_eq_true]

theorem chainB_iff (r : Nat → Nat → Bool)
    (htr : ∀ a b c, r a b = true → r b c = true → r a c = true) (l : List Nat) :
    chainB r l = true ↔ l.Pairwise (fun a b => r a b = true) := by
  induction l with
  | nil => simp [chainB]
  | cons x xs ih =>
    cases xs with
    | nil => simp [chainB]
    | cons y rest =>
      simp only [chainB, Bool.and_eq_true, ih]
      constructor
      · rintro ⟨hxy, hp⟩
        refine List.pairwise_cons.2 ⟨?_, hp⟩
        intro a ha
        rcases List.mem_cons.1 ha with rfl | ha
        · exact hxy
        · exact htr _ _ _ hxy ((List.pairwise_cons.1 hp).1 a ha)
      · intro hp
        have h := List.pairwise_cons.1 hp
        exact ⟨h.1 y (by simp), h.2⟩

theorem chainB_eq_pairwiseB (r : Nat → Nat → Bool)
    (htr : ∀ a b c, r a b = true → r b c = true → r a c = true) (l : List Nat) :
    chainB r l = pairwiseB r l := by
  rw [Bool.eq_iff_iff, chainB_iff r htr, pairwiseB_iff]

theorem consRel_of_length_le_one (ty : ConsType) (idx : List Nat) (h : idx.length ≤ 1) :
    consRel ty idx = true := by
  match idx, h with
  | [], _ => cases ty <;> rfl
  | [x], _ => cases ty <;> rfl

theorem pairwiseB_beq_eq_all (l : List Nat) :
    pairwiseB (fun i j => i == j) l = l.all (· == l.headD 0) := by
  rw [Bool.eq_iff_iff, pairwiseB_iff]
  cases l with
  | nil => simp
  | cons x xs =>
    simp only [List.pairwise_cons, beq_iff_eq, List.headD_cons, List.all_cons, BEq.rfl,
      Bool.true_and, List.all_eq_true]
    constructor
    · rintro ⟨h, _⟩ a ha; exact (h a ha).symm
    · intro h
      refine ⟨fun a ha => (h a ha).symm, ?_⟩
      apply List.Pairwise.imp_of_mem (R := fun _ _ => True)
      · intro a b ha hb _; rw [h a ha, h b hb]
      · exact List.pairwise_of_forall (fun _ _ => trivial)

/-! ### The row filter -/

theorem validIdxRow_eq (ty : ConsType) (v : List (Option Nat)) :
    validIdxRow ty false v = consRel ty (v.filterMap id) := by
  unfold validIdxRow
  have hlen : (v.filterMap id).length ≤ v.length := List.length_filterMap_le _ _
  split
  · exact (consRel_of_length_le_one ty _ (by omega)).symm
  · cases ty
    · simp only [consRel]
      split
      · rename_i h; exact (consRel_of_length_le_one .linked _ h).symm
      · exact (pairwiseB_beq_eq_all _).symm
    · rfl
    · simp only [consRel]
      split
      · rename_i h; exact (consRel_of_length_le_one .unordered _ h).symm
      · exact chainB_eq_pairwiseB _ (by intro a b c; simp; omega) _
    · simp only [consRel]
      split
      · rename_i h; exact (consRel_of_length_le_one .unorderedNorepl _ h).symm
      · simp only [Bool.false_eq_true, if_false]
        exact chainB_eq_pairwiseB _ (by intro a b c; simp; omega) _

theorem validIdxRow_norepl_perm (v : List (Option Nat)) :
    validIdxRow .unorderedNorepl true v = consRel .unordered (v.filterMap id) := by
  unfold validIdxRow
  have hlen : (v.filterMap id).length ≤ v.length := List.length_filterMap_le _ _
  split
  · exact (consRel_of_length_le_one _ _ (by omega)).symm
  · simp only [consRel]
    split
    · rename_i h; exact (consRel_of_length_le_one .unordered _ h).symm
    · simp only [if_true]
      exact chainB_eq_pairwiseB _ (by intro a b c; simp; omega) _

/-! ### Strictly increasing vectors -/

theorem lt_pairwise_gap (v : List Nat) (hp : v.Pairwise (· < ·)) :
    ∀ (d s : Nat) (h : s + d < v.length), v[s]'(by omega) + d ≤ v[s + d] := by
  intro d
  induction d with
  | zero => intro s h; simp
  | succ d ih =>
    intro s h
    have h1 := ih s (by omega)
    have h2 := (List.pairwise_iff_getElem.1 hp) (s + d) (s + (d + 1)) (by omega) h (by omega)
    omega

theorem lt_pairwise_gap' (v : List Nat) (hp : v.Pairwise (· < ·)) (s t : Nat) (hst : s ≤ t)
    (ht : t < v.length) : v[s]'(by omega) + (t - s) ≤ v[t] := by
  have := lt_pairwise_gap v hp (t - s) s (by omega)
  have e : s + (t - s) = t := by omega
  simp only [e] at this
  exact this

theorem consRel_norepl_iff (v : List Nat) :
    consRel .unorderedNorepl v = true ↔ v.Pairwise (· < ·) := by
  simp [consRel, pairwiseB_iff]

theorem consRel_unordered_iff (v : List Nat) :
    consRel .unordered v = true ↔ v.Pairwise (· ≤ ·) := by
  simp [consRel, pairwiseB_iff]

theorem consRel_perm_iff (v : List Nat) :
    consRel .permutation v = true ↔ v.Nodup := by
  simp [consRel, pairwiseB_iff, List.Nodup]

theorem norepl_reindex_aux (v : List Nat) (h : ∀ t (ht : t < v.length), t ≤ v[t]) :
    consRel .unorderedNorepl v = consRel .unordered (v.zipIdx.map (fun p => p.1 - p.2)) := by
  rw [Bool.eq_iff_iff, consRel_norepl_iff, consRel_unordered_iff]
  constructor
  · intro hp
    rw [List.pairwise_iff_getElem]
    intro s t hs ht hst
    simp only [List.length_map, List.length_zipIdx] at hs ht
    simp only [List.getElem_map, List.getElem_zipIdx, Nat.zero_add]
    have := lt_pairwise_gap' v hp s t (by omega) ht
    omega
  · intro hp
    rw [List.pairwise_iff_getElem] at hp ⊢
    intro s t hs ht hst
    have := hp s t (by simpa using hs) (by simpa using ht) hst
    simp only [List.getElem_map, List.getElem_zipIdx, Nat.zero_add] at this
    have h1 := h s hs
    have h2 := h t ht
    omega

/-! ### Removal vs. the documented relation -/

theorem Rcons_symm_aux (ty : ConsType) (i j i' j' : Nat) :
    Rcons ty i j i' j' = Rcons ty i' j' i j := by
  cases ty
  · simp only [Rcons]; rw [Bool.eq_iff_iff]; simp only [beq_iff_eq]; exact eq_comm
  · simp only [Rcons]; rw [Bool.eq_iff_iff]; simp only [bne_iff_ne]; exact ne_comm
  · simp only [Rcons]
    by_cases h1 : i < i' <;> by_cases h2 : i' < i <;> simp [h1, h2]
    omega
  · simp only [Rcons]
    by_cases h1 : i < i' <;> by_cases h2 : i' < i <;> simp [h1, h2]
    omega

theorem removed_iff_notR_aux (ty : ConsType) (n i j i' j' : Nat) (hne : i ≠ i') (hj : j < n)
    (hj' : j' < n) : j' ∈ removedFrom ty n i' i j ↔ Rcons ty i j i' j' = false := by
  have hen : j + 1 ≤ n := hj
  cases ty
  · simp [removedFrom, Rcons, hen, List.mem_filter, hj']
    omega
  · simp [removedFrom, Rcons, hen]
    omega
  · simp only [removedFrom, Rcons]
    by_cases h1 : i < i' <;> by_cases h2 : i' < i <;> simp [h1, h2, List.mem_filter, hj'] <;> omega
  · simp only [removedFrom, Rcons]
    by_cases h1 : i < i' <;> by_cases h2 : i' < i <;> simp [h1, h2, List.mem_filter, hj'] <;> omega

theorem consRel_iff_lt (ty : ConsType) (v : List Nat) :
    consRel ty v = true ↔ ∀ i i' (hi : i < v.length) (hi' : i' < v.length), i < i' →
      Rcons ty i v[i] i' v[i'] = true := by
  cases ty <;> simp only [consRel, pairwiseB_iff, List.pairwise_iff_getElem, Rcons]
  · constructor
    · intro h i i' hi hi' hlt
      have := h i i' hi hi' hlt; simp [hlt] at this ⊢; exact this
    · intro h i i' hi hi' hlt
      have := h i i' hi hi' hlt; simp [hlt] at this ⊢; exact this
  · constructor
    · intro h i i' hi hi' hlt
      have := h i i' hi hi' hlt; simp [hlt] at this ⊢; exact this
    · intro h i i' hi hi' hlt
      have := h i i' hi hi' hlt; simp [hlt] at this ⊢; exact this

theorem consRel_iff_index (ty : ConsType) (v : List Nat) :
    consRel ty v = true ↔ ∀ i i' (hi : i < v.length) (hi' : i' < v.length), i ≠ i' →
      Rcons ty i v[i] i' v[i'] = true := by
  rw [consRel_iff_lt]
  constructor
  · intro h i i' hi hi' hne
    rcases Nat.lt_or_gt_of_ne hne with hlt | hlt
    · exact h i i' hi hi' hlt
    · rw [Rcons_symm_aux]; exact h i' i hi' hi hlt
  · intro h i i' hi hi' hlt
    exact h i i' hi hi' (Nat.ne_of_lt hlt)

/-! ### Sequential removal -/

def seqOk (ty : ConsType) (nOpts v : List Nat) (i i0 : Nat) : Bool :=
  !(removedFrom ty (nOpts.getD i 0) i i0 (v.getD i0 0)).contains (v.getD i 0)

theorem seqAccepted_iff (ty : ConsType) (nOpts v : List Nat) : ∀ rest done,
    seqAccepted ty nOpts v rest done = true ↔
      (∀ i ∈ rest, ∀ i0 ∈ done, seqOk ty nOpts v i i0 = true) ∧
      rest.Pairwise (fun a b => seqOk ty nOpts v b a = true)
  | [], done => by simp [seqAccepted]
  | i :: rest, done => by
    simp only [seqAccepted, Bool.and_eq_true, List.all_eq_true,
      seqAccepted_iff ty nOpts v rest (i :: done), List.pairwise_cons, List.mem_cons]
    constructor
    · rintro ⟨h1, h2, h3⟩
      refine ⟨?_, ?_, h3⟩
      · rintro a (rfl | ha) i0 hi0
        · exact h1 i0 hi0
        · exact h2 a ha i0 (Or.inr hi0)
      · intro b hb; exact h2 b hb i (Or.inl rfl)
    · rintro ⟨h1, h2, h3⟩
      refine ⟨fun i0 hi0 => h1 i (Or.inl rfl) i0 hi0, ?_, h3⟩
      rintro a ha i0 (rfl | hi0)
      · exact h2 a ha
      · exact h1 a (Or.inr ha) i0 hi0

theorem seq_removal_aux (ty : ConsType) (m n : Nat) (v order : List Nat)
    (hv : v.length = m) (hvn : ∀ x ∈ v, x < n) (ho : order.Perm (List.range m)) :
    seqAccepted ty (List.replicate m n) v order [] = consRel ty v := by
  rw [Bool.eq_iff_iff, seqAccepted_iff, consRel_iff_index]
  have hnd : order.Nodup := ho.nodup_iff.2 List.nodup_range
  have hmem : ∀ a, a ∈ order ↔ a < m := fun a => by rw [ho.mem_iff, List.mem_range]
  have key : ∀ a b (ha : a < m) (hb : b < m), a ≠ b →
      (seqOk ty (List.replicate m n) v b a = true ↔
        Rcons ty a (v[a]'(by omega)) b (v[b]'(by omega)) = true) := by
    intro a b ha hb hne
    have hga : v.getD a 0 = v[a]'(by omega) := by
      simp [List.getD_eq_getElem?_getD, List.getElem?_eq_getElem (show a < v.length by omega)]
    have hgb : v.getD b 0 = v[b]'(by omega) := by
      simp [List.getD_eq_getElem?_getD, List.getElem?_eq_getElem (show b < v.length by omega)]
    have hn : (List.replicate m n).getD b 0 = n := by
      simp [List.getD_eq_getElem?_getD, hb]
    have hr := removed_iff_notR_aux ty n a (v[a]'(by omega)) b (v[b]'(by omega)) hne
      (hvn _ (List.getElem_mem _)) (hvn _ (List.getElem_mem _))
    unfold seqOk
    rw [hga, hgb, hn]
    simp only [Bool.not_eq_true', List.contains_eq_mem, decide_eq_false_iff_not, hr,
      Bool.not_eq_false]
  constructor
  · rintro ⟨_, hp⟩ i i' hi hi' hne
    have hS : order.Pairwise (fun a b => ∀ (ha : a < m) (hb : b < m),
        Rcons ty a (v[a]'(by omega)) b (v[b]'(by omega)) = true) := by
      refine (hnd.and hp).imp_of_mem ?_
      rintro a b _ _ ⟨hne, hok⟩ ha hb
      exact (key a b ha hb hne).1 hok
    have hsym : Std.Symm (fun a b => ∀ (ha : a < m) (hb : b < m),
        Rcons ty a (v[a]'(by omega)) b (v[b]'(by omega)) = true) := by
      refine ⟨?_⟩
      intro a b h hb ha
      rw [Rcons_symm_aux]; exact h ha hb
    exact hS.forall ((hmem i).2 (by omega)) ((hmem i').2 (by omega)) hne (by omega) (by omega)
  · intro h
    refine ⟨by simp, ?_⟩
    refine hnd.imp_of_mem ?_
    intro a b ha hb hne
    have ha' := (hmem a).1 ha
    have hb' := (hmem b).1 hb
    exact (key a b ha' hb' hne).2 (h a b (by omega) (by omega) hne)

/-! ### Feasibility -/

theorem perm_feasible_aux (m n : Nat) :
    (∃ v : List Nat, v.length = m ∧ (∀ x ∈ v, x < n) ∧ consRel .permutation v = true) ↔ m ≤ n := by
  constructor
  · rintro ⟨v, hl, hb, hc⟩
    rw [consRel_perm_iff] at hc
    rw [← hl]; exact length_le_of_bounded v n hc hb
  · intro h
    refine ⟨List.range m, by simp, ?_, ?_⟩
    · intro x hx; have := List.mem_range.1 hx; omega
    · rw [consRel_perm_iff]; exact List.nodup_range

theorem norepl_feasible_aux (m n : Nat) :
    (∃ v : List Nat, v.length = m ∧ (∀ x ∈ v, x < n) ∧ consRel .unorderedNorepl v = true) ↔
      m ≤ n := by
  constructor
  · rintro ⟨v, hl, hb, hc⟩
    rw [consRel_norepl_iff] at hc
    rw [← hl]
    exact length_le_of_bounded v n (hc.imp (fun h => Nat.ne_of_lt h)) hb
  · intro h
    refine ⟨List.range m, by simp, ?_, ?_⟩
    · intro x hx; have := List.mem_range.1 hx; omega
    · rw [consRel_norepl_iff]; exact List.pairwise_lt_range

/-! ### Pre-removal -/

theorem getD_replicate' (m n i : Nat) (hi : i < m) : (List.replicate m n).getD i 0 = n := by
  simp [List.getD_eq_getElem?_getD, hi]

theorem foldl_max_replicate (m n a : Nat) : (List.replicate m n).foldl max a ≤ max a n := by
  induction m generalizing a with
  | zero => simp only [List.replicate_zero, List.foldl_nil]; omega
  | succ m ih =>
    simp only [List.replicate_succ, List.foldl_cons]
    have := ih (max a n)
    omega

theorem filter_id_replicate_true (m : Nat) : ((List.replicate m true).filter id).length = m := by
  induction m with
  | zero => simp
  | succ m ih => simp [List.replicate_succ, ih]

theorem all_id_replicate_true (m : Nat) : (List.replicate m true).all id = true := by
  simp

theorem perm_preRemoved_all_aux (m n : Nat) (h : n < m) (i : Nat) (hi : i < m) :
    (i, List.range n) ∈ preRemoved .permutation (List.replicate m n) true := by
  have hmax : (List.replicate m n).foldl max 0 < m := by
    have := foldl_max_replicate m n 0; omega
  simp only [preRemoved, preRemovedP, List.length_replicate, filter_id_replicate_true, hmax, decide_true, BEq.rfl,
    Bool.and_self, if_true, List.mem_map, List.mem_range]
  exact ⟨i, hi, by rw [getD_replicate' m n i hi]⟩

theorem preRemoved_norepl_mem (m n i : Nat) (hi : i < m) (r : List Nat) :
    (i, r) ∈ preRemoved .unorderedNorepl (List.replicate m n) true ↔
      r = (List.range n).filter (fun j => decide (j < i) ||
        decide ((n : Int) - ((m : Int) - ((i : Int) + 1)) ≤ (j : Int))) := by
  have h1 : (ConsType.unorderedNorepl == ConsType.permutation) = false := by decide
  simp only [preRemoved, preRemovedP, List.length_replicate, h1, Bool.false_and, Bool.false_eq_true, if_false,
    BEq.rfl, all_id_replicate_true, Bool.and_self, if_true, List.mem_map, List.mem_range, Prod.mk.injEq]
  constructor
  · rintro ⟨a, ha, rfl, rfl⟩
    rw [getD_replicate' m n a ha]
  · intro h
    exact ⟨i, hi, rfl, by rw [getD_replicate' m n i hi, h]⟩

theorem preRemoved_exact_aux (m n i j : Nat) (hi : i < m) (hj : j < n) :
    (∀ r, (i, r) ∈ preRemoved .unorderedNorepl (List.replicate m n) true → j ∉ r) ↔
    ∃ v : List Nat, v.length = m ∧ (∀ x ∈ v, x < n) ∧ consRel .unorderedNorepl v = true ∧
      v[i]? = some j := by
  have hL : (∀ r, (i, r) ∈ preRemoved .unorderedNorepl (List.replicate m n) true → j ∉ r) ↔
      (i ≤ j ∧ j + (m - 1 - i) < n) := by
    constructor
    · intro h
      have := h _ ((preRemoved_norepl_mem m n i hi _).2 rfl)
      simp only [List.mem_filter, List.mem_range, hj, true_and, Bool.or_eq_true,
        decide_eq_true_eq, not_or] at this
      omega
    · intro h r hr
      rw [(preRemoved_norepl_mem m n i hi r).1 hr]
      simp only [List.mem_filter, List.mem_range, hj, true_and, Bool.or_eq_true,
        decide_eq_true_eq, not_or]
      omega
  rw [hL]
  constructor
  · rintro ⟨h1, h2⟩
    refine ⟨(List.range m).map (fun t => j + t - i), by simp, ?_, ?_, ?_⟩
    · intro x hx
      simp only [List.mem_map, List.mem_range] at hx
      obtain ⟨t, ht, rfl⟩ := hx
      omega
    · rw [consRel_norepl_iff, List.pairwise_map]
      exact List.pairwise_lt_range.imp (fun {a b} hab => by omega)
    · simp [hi]
  · rintro ⟨v, hl, hb, hc, hv⟩
    rw [consRel_norepl_iff] at hc
    have hi' : i < v.length := by omega
    have hvi : v[i] = j := by
      rw [List.getElem?_eq_getElem hi'] at hv; exact Option.some.inj hv
    have g1 := lt_pairwise_gap' v hc 0 i (by omega) hi'
    have g2 := lt_pairwise_gap' v hc i (m - 1) (by omega) (by omega)
    have g3 := hb _ (List.getElem_mem (show m - 1 < v.length by omega))
    omega

/-! ### Architecture level -/

theorem arch_satisfies_aux (g : DSG) (a : Assign) (ha : admissible g a = true)
    (k : ChoiceCons) (hk : k ∈ g.cons) :
    consRel k.ty ((k.choices.filter ((activeChoices g a).contains ·)).filterMap (a.get ·)) = true := by
  simp only [admissible, consOK, Bool.and_eq_true, List.all_eq_true] at ha
  exact ha.2 k hk

end Adsg
