/- Helper lemmas about Adsg/Model/Proc.lean. -/
import Adsg.Model.Proc
namespace Adsg.Proc

/-! ### Restriction / fixing (C15) -/

theorem consistent_single (P : Problem) (i v : Nat) (r : Row) :
    consistent P [(i, v)] r = (match r.getD i none with
      | some w => w == v
      | none => P.kinds.getD i .sel == .dv) := by
  cases h : r.getD i none <;> simp only [consistent, List.all_cons, List.all_nil, Bool.and_true, h]

theorem mem_restrictRows (P : Problem) (f : Fixed) (r : Row) :
    r ∈ restrictRows P f ↔ r ∈ P.rows ∧ consistent P f r = true := by
  simp [restrictRows]

theorem fix_sandwich' (P : Problem) (i v : Nat) (r : Row) :
    (r ∈ restrictRows P [(i, v)] → r ∈ P.rows ∧ (r.getD i none = some v ∨ r.getD i none = none)) ∧
    (r ∈ P.rows → r.getD i none = some v → r ∈ restrictRows P [(i, v)]) ∧
    (∀ w, r.getD i none = some w → w ≠ v → r ∉ restrictRows P [(i, v)]) := by
  simp only [mem_restrictRows, consistent_single]
  refine ⟨?_, ?_, ?_⟩
  · rintro ⟨hr, h⟩
    refine ⟨hr, ?_⟩
    cases hg : r.getD i none with
    | none => simp
    | some w => rw [hg] at h; simp at h; simp [h]
  · intro hr hg; rw [hg]; simp [hr]
  · intro w hg hne; rw [hg]; simp [hne]

theorem inactive_rows' (P : Problem) (i v : Nat) (r : Row) (hr : r ∈ P.rows) (hin : r.getD i none = none) :
    (r ∈ restrictRows P [(i, v)] ↔ P.kinds.getD i .sel = .dv) := by
  simp only [mem_restrictRows, consistent_single, hin]
  simp [hr]

theorem restrict_sublist' (P : Problem) (f : Fixed) : (restrictRows P f).Sublist P.rows :=
  List.filter_sublist

theorem restrict_nil' (P : Problem) : restrictRows P [] = P.rows := by
  simp [restrictRows, consistent]

theorem restrict_perm' (P : Problem) (f g : Fixed) (h : f.Perm g) : restrictRows P f = restrictRows P g := by
  unfold restrictRows
  apply List.filter_congr
  intro r _
  unfold consistent
  rw [Bool.eq_iff_iff]
  simp only [List.all_eq_true]
  exact ⟨fun H p hp => H p (h.mem_iff.2 hp), fun H p hp => H p (h.mem_iff.1 hp)⟩

theorem find_filter_ne (f : Fixed) (i j : Nat) (h : j ≠ i) :
    (f.filter (fun p => p.1 != i)).find? (fun p => p.1 == j) = f.find? (fun p => p.1 == j) := by
  induction f with
  | nil => rfl
  | cons a t ih =>
    by_cases ha : a.1 = i
    · have : (i == j) = false := by simp; omega
      simp [ha, this, ih]
    · simp [ha, List.find?_cons, ih]

theorem setFixed_get' (f : Fixed) (i v j : Nat) :
    (setFixed f i v).get j = if j = i then some v else f.get j := by
  unfold Fixed.get setFixed
  by_cases h : j = i
  · simp [h]
  · have : ¬ i = j := fun e => h e.symm
    simp [h, this, find_filter_ne f i j h]

theorem setFixed_filter (f : Fixed) (i v : Nat) :
    (setFixed f i v).filter (fun p => p.1 != i) = f.filter (fun p => p.1 != i) := by
  simp [setFixed]

theorem step_enumerate (P : Problem) (s : St) : step P s .enumerate = (s, .rows (restrictRows P s.fixed)) := rfl
theorem step_stats (P : Problem) (s : St) : step P s .stats = (s, .count (restrictRows P s.fixed).length) := rfl

theorem fix_rejects' (P : Problem) (s : St) (i v : Nat)
    (h : P.kinds.getD i .conn = .conn ∨ P.nOpts.getD i 0 ≤ v) : step P s (.fix i v) = (s, .rejected) := by
  have : (P.kinds.getD i .conn == .conn || decide (P.nOpts.getD i 0 ≤ v)) = true := by
    simpa using h
  simp only [step, this, if_true]

theorem decode_in_restricted' (P : Problem) (f : Fixed) (x : List Int) (k : Nat)
    (h : decodePure P f x = some k) (hk : k < P.rows.length) : P.rows.getD k [] ∈ restrictRows P f := by
  have := List.find?_some h
  simp only [Bool.and_eq_true] at this
  rw [mem_restrictRows]
  refine ⟨?_, this.1⟩
  simp [List.getD_eq_getElem?_getD, hk]

/-! ### Retry loop and purity (C05) -/

theorem getD_true_lt (m : List Bool) (i : Nat) (h : m.getD i false = true) : i < m.length := by
  rw [List.getD_eq_getElem?_getD] at h
  apply Nat.lt_of_not_le
  intro hn
  rw [List.getElem?_eq_none hn] at h
  simp at h

theorem maskOK_set (P : Problem) (mask : List Bool) (i : Nat) (hm : MaskOK P mask)
    (hi : P.feasible i = false) : MaskOK P (mask.set i false) := by
  obtain ⟨hl, hm⟩ := hm
  refine ⟨by simp [hl], ?_⟩
  intro j hj hjf
  by_cases hij : i = j
  · subst hij; exact hi
  · apply hm j (by simpa using hj)
    rw [List.getD_eq_getElem?_getD] at hjf ⊢
    rwa [List.getElem?_set, if_neg hij] at hjf

theorem count_set_lt (mask : List Bool) (i : Nat) (h : mask.getD i false = true) :
    (mask.set i false).count true + 1 = mask.count true := by
  have hi := getD_true_lt mask i h
  have hgi : mask[i] = true := by
    rw [List.getD_eq_getElem?_getD, List.getElem?_eq_getElem hi] at h
    simpa using h
  rw [List.count_set hi, hgi]
  have : 0 < mask.count true := List.count_pos_iff.2 (hgi ▸ List.getElem_mem hi)
  simp
  omega

theorem retry_gen (P : Problem) (hc : ∀ x, ∀ i ∈ P.cands x, i < P.rows.length) (f : Fixed) (x : List Int) :
    ∀ (fuel : Nat) (mask : List Bool), MaskOK P mask → mask.count true < fuel →
      (retry P f x fuel mask).1 = decodePure P f x ∧ MaskOK P (retry P f x fuel mask).2 := by
  intro fuel
  induction fuel with
  | zero => intro mask _ h; omega
  | succ fuel ih =>
    intro mask hm hcnt
    unfold retry
    split
    · rename_i heq
      refine ⟨?_, hm⟩
      symm
      unfold decodePure
      rw [List.find?_eq_none] at heq ⊢
      intro i hi hp
      simp only [Bool.and_eq_true] at hp
      apply heq i hi
      simp only [Bool.and_eq_true]
      refine ⟨?_, hp.1⟩
      have hlt : i < mask.length := hm.1 ▸ hc x i hi
      cases hg : mask.getD i false with
      | true => rfl
      | false => have := hm.2 i hlt hg; simp [this] at hp
    · rename_i i heq
      split
      · rename_i hfeas
        refine ⟨?_, hm⟩
        symm
        unfold decodePure
        rw [List.find?_eq_some_iff_append] at heq ⊢
        obtain ⟨hqi, as, bs, hsplit, hbefore⟩ := heq
        simp only [Bool.and_eq_true] at hqi
        refine ⟨by simp only [hqi.2, hfeas, Bool.and_self], as, bs, hsplit, ?_⟩
        intro a ha
        have hq := hbefore a ha
        have halt : a < mask.length := hm.1 ▸ hc x a (by rw [hsplit]; simp [ha])
        cases hg : mask.getD a false with
        | true =>
          simp only [hg, Bool.true_and] at hq
          simp only [Bool.not_eq_true'] at hq
          simp only [hq, Bool.false_and, Bool.not_false]
        | false => simp [hm.2 a halt hg]
      · rename_i hfeas
        have hfeas : P.feasible i = false := by simpa using hfeas
        have hqi := List.find?_some heq
        simp only [Bool.and_eq_true] at hqi
        apply ih
        · exact maskOK_set P mask i hm hfeas
        · have := count_set_lt mask i hqi.1
          omega

theorem maskOK_replicate (P : Problem) : MaskOK P (List.replicate P.rows.length true) := by
  refine ⟨by simp, ?_⟩
  intro i hi h
  simp at hi
  simp [List.getD_eq_getElem?_getD, hi] at h

theorem retry_top (P : Problem) (hc : ∀ x, ∀ i ∈ P.cands x, i < P.rows.length) (f : Fixed) (x : List Int)
    (mask : List Bool) (hm : MaskOK P mask) :
    (retry P f x (P.rows.length + 1) mask).1 = decodePure P f x ∧
    MaskOK P (retry P f x (P.rows.length + 1) mask).2 := by
  apply retry_gen P hc f x _ mask hm
  have := List.count_le_length (a := true) (l := mask)
  have := hm.1
  omega

theorem runOps_cons (P : Problem) (s : St) (op : Op) (ops : List Op) :
    runOps P s (op :: ops) =
      ((runOps P (step P s op).1 ops).1, (step P s op).2 :: (runOps P (step P s op).1 ops).2) := rfl

theorem runOps_pure (P : Problem) (hc : ∀ x, ∀ i ∈ P.cands x, i < P.rows.length) (ops : List Op) :
    ∀ (s : St), MaskOK P s.mask →
      (runOps P s ops).2 = specOuts P s.fixed ops ∧ MaskOK P (runOps P s ops).1.mask := by
  induction ops with
  | nil => intro s hm; exact ⟨rfl, hm⟩
  | cons op ops ih =>
    intro s hm
    rw [runOps_cons]
    cases op with
    | decode x =>
      have h := retry_top P hc s.fixed x s.mask hm
      have hs : step P s (.decode x) = ({ s with mask := (retry P s.fixed x (P.rows.length + 1) s.mask).2 },
          .decoded (retry P s.fixed x (P.rows.length + 1) s.mask).1) := rfl
      rw [hs]
      have := ih { s with mask := (retry P s.fixed x (P.rows.length + 1) s.mask).2 } h.2
      simp only [specOuts]
      rw [this.1, h.1]
      exact ⟨rfl, this.2⟩
    | fix i v =>
      simp only [step, specOuts]
      split
      · have := ih s hm
        exact ⟨by rw [this.1], this.2⟩
      · have := ih { s with fixed := setFixed s.fixed i v } hm
        exact ⟨by rw [this.1], this.2⟩
    | free i =>
      have := ih { s with fixed := s.fixed.filter (fun p => p.1 != i) } hm
      simp only [step, specOuts]
      exact ⟨by rw [this.1], this.2⟩
    | enumerate =>
      have := ih s hm
      simp only [step, specOuts]
      exact ⟨by rw [this.1], this.2⟩
    | stats =>
      have := ih s hm
      simp only [step, specOuts]
      exact ⟨by rw [this.1], this.2⟩

end Adsg.Proc
