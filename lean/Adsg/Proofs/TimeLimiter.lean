/- Helper lemmas about Adsg/Model/TimeLimiter.lean. -/
import Adsg.Model.TimeLimiter
namespace Adsg.TL

/-! ### The safety invariant -/

/-- No exception is ever pending on the main thread, and a reported outcome is justified by the
    worker's state. -/
def Inv (s : St) : Prop :=
  s.pendingM = false ∧
  ∀ o, s.m = .done o →
    (o = .ret → s.w = .finished true) ∧ (o = .raise → s.w = .finished false) ∧
    (o = .timeout → wAlive s.w = false)

/-- Case analysis on an enabled step `h : step s a = some s'`: one goal per enabled branch, with
    `s'` replaced by the successor state. -/
macro "step_cases " a:ident h:ident : tactic =>
  `(tactic| (cases $a:ident <;> simp only [step] at $h:ident <;> (repeat' (split at $h:ident)) <;> cases $h:ident))

theorem step_inv {s s' : St} {a : Act} (hi : Inv s) (h : step s a = some s') : Inv s' := by
  obtain ⟨h1, h2⟩ := hi
  step_cases a h <;> refine ⟨h1, ?_⟩ <;> intro o ho <;> simp only at ho ⊢
  all_goals (try (have := h2 o ho))
  all_goals cases o <;> simp_all [wAlive]

theorem step_done_none {s : St} (hi : Inv s) (o : Outcome) (hd : s.m = .done o) (a : Act) :
    step s a = none := by
  cases hs : step s a with
  | none => rfl
  | some s' =>
    exfalso
    obtain ⟨_, h2⟩ := hi
    have := h2 o hd
    step_cases a hs <;> cases o <;> simp_all [wAlive]

theorem inv_init : Inv init := by
  refine ⟨rfl, ?_⟩
  intro o h
  simp [init] at h

theorem run_inv {s s' : St} {acts : List Act} (hi : Inv s) (h : run s acts = some s') : Inv s' := by
  induction acts generalizing s with
  | nil => simp [run] at h; subst h; exact hi
  | cons a as ih =>
    simp only [run] at h
    split at h
    · rename_i s1 hs
      exact ih (step_inv hi hs) h
    · simp at h

theorem reach_inv {s : St} {acts : List Act} (h : run init acts = some s) : Inv s :=
  run_inv inv_init h

theorem inv_wInF {s : St} (hi : Inv s) (o : Outcome) (hd : s.m = .done o) : wInF s.w = false := by
  obtain ⟨_, h⟩ := hi
  obtain ⟨h1, h2, h3⟩ := h o hd
  cases o
  · rw [h1 rfl]; rfl
  · rw [h2 rfl]; rfl
  · have := h3 rfl
    revert this
    cases s.w <;> simp [wAlive, wInF]

/-- Once the caller has returned, the state is final. -/
theorem run_done_eq {s s' : St} (hi : Inv s) (o : Outcome) (hd : s.m = .done o) {more : List Act}
    (h : run s more = some s') : s' = s := by
  cases more with
  | nil => simp [run] at h; exact h.symm
  | cons a as =>
    simp [run, step_done_none hi o hd a] at h

/-! ### A timeout is only reported after expiry -/

/-- Still waiting, or returned a value / re-raised. -/
def NoTimeout (s : St) : Prop :=
  s.m = .waiting ∨ ∃ ok : Bool, s.m = .done (if ok then .ret else .raise)

theorem step_noTimeout {s s' : St} {a : Act} (hp : NoTimeout s) (h : step s a = some s')
    (ha : a ≠ .mExpire) : NoTimeout s' := by
  unfold NoTimeout at hp ⊢
  step_cases a h <;> simp only at hp ⊢ <;> (try exact hp)
  · exact Or.inr ⟨true, rfl⟩
  · exact Or.inr ⟨false, rfl⟩
  · exact absurd rfl ha
  all_goals (rcases hp with hp | ⟨ok, hp⟩ <;> simp_all)

theorem run_noTimeout {s s' : St} {acts : List Act} (hp : NoTimeout s) (h : run s acts = some s') :
    NoTimeout s' ∨ Act.mExpire ∈ acts := by
  induction acts generalizing s with
  | nil => simp [run] at h; subst h; exact Or.inl hp
  | cons a as ih =>
    simp only [run] at h
    split at h
    · rename_i s1 hs
      by_cases ha : a = .mExpire
      · subst ha; exact Or.inr List.mem_cons_self
      · rcases ih (step_noTimeout hp hs ha) h with h1 | h1
        · exact Or.inl h1
        · exact Or.inr (List.mem_cons_of_mem _ h1)
    · simp at h

theorem timeout_mem_expire {s : St} {acts : List Act} (h : run init acts = some s)
    (hd : s.m = .done .timeout) : Act.mExpire ∈ acts := by
  rcases run_noTimeout (Or.inl rfl) h with h1 | h1
  · rcases h1 with h1 | ⟨ok, h1⟩
    · rw [hd] at h1; cases h1
    · rw [hd] at h1; cases ok <;> simp at h1
  · exact h1

/-! ### Protocol traces are accepted by the observer automaton

Simulation relation between automaton configurations `(phase, returned)` and protocol states. A worker
that was abandoned before it started (`killed` without ever running `f`) leaves the automaton in
phase 0, hence the two alternatives for `.killed`. -/

def retd : MPc → Bool
  | .done _ => true
  | _ => false

def PhOk (ph : Nat) : WPc → Prop
  | .queued => ph = 0
  | .running _ => ph = 1
  | .finished true => ph = 2
  | .finished false => ph = 3
  | .killed => ph = 0 ∨ ph = 4

def R (ph : Nat) (ret : Bool) (s : St) : Prop := ret = retd s.m ∧ PhOk ph s.w

theorem phOk_dead {ph : Nat} {w : WPc} (h : PhOk ph w) (hw : ¬ wAlive w = true) : ph ≠ 1 := by
  cases w with
  | queued => simp [wAlive] at hw
  | running k => simp [wAlive] at hw
  | finished ok => cases ok <;> simp only [PhOk] at h <;> omega
  | killed => simp only [PhOk] at h; omega

theorem step_sim {s s' : St} {a : Act} {ph : Nat} {ret : Bool} (hr : R ph ret s)
    (h : step s a = some s') :
    ∃ ph' ret', R ph' ret' s' ∧
      ∀ rest, obsAccepts.go ph' ret' rest = true → obsAccepts.go ph ret (obsOf s a ++ rest) = true := by
  obtain ⟨hret, hph⟩ := hr
  subst hret
  step_cases a h
  all_goals simp only [R, obsOf]
  · -- wStart
    rename_i k hc
    obtain ⟨hw, hm⟩ := hc
    rw [hw] at hph
    simp only [PhOk] at hph
    subst hph
    have hr : retd s.m = false := by
      rcases hm with hm | hm | hm <;> rw [hm] <;> rfl
    refine ⟨1, _, ⟨rfl, rfl⟩, fun rest hrest => ?_⟩
    rw [hr] at hrest ⊢
    simpa [obsAccepts.go] using hrest
  · -- wFinish
    rename_i ok _ k hw
    rw [hw] at hph
    simp only [PhOk] at hph
    subst hph
    refine ⟨if ok then 2 else 3, _, ⟨rfl, by cases ok <;> simp [PhOk]⟩, fun rest hrest => ?_⟩
    simpa [obsAccepts.go] using hrest
  · -- wDeliver, killed
    rename_i _ k hw _ hk
    subst hk
    rw [hw] at hph ⊢
    simp only [PhOk] at hph
    subst hph
    refine ⟨4, _, ⟨rfl, Or.inr rfl⟩, fun rest hrest => ?_⟩
    simpa [obsAccepts.go] using hrest
  · -- wDeliver, swallowed
    rename_i _ k hw _ hk
    rw [hw] at hph ⊢
    simp only [PhOk] at hph
    subst hph
    refine ⟨1, _, ⟨rfl, rfl⟩, fun rest hrest => ?_⟩
    cases k with
    | zero => exact absurd rfl hk
    | succ k => simpa using hrest
  · -- wAbandon
    rename_i hc
    rw [hc.1] at hph
    simp only [PhOk] at hph
    subst hph
    exact ⟨0, _, ⟨rfl, Or.inl rfl⟩, fun rest hrest => by simpa using hrest⟩
  · -- mGet, ok
    rename_i _ _ ok hm hw hok
    subst hok
    refine ⟨ph, _, ⟨rfl, hph⟩, fun rest hrest => ?_⟩
    rw [hw] at hph ⊢
    simp only [PhOk] at hph
    subst hph
    rw [hm]
    simpa [obsAccepts.go, retd] using hrest
  · -- mGet, own exception
    rename_i _ _ ok hm hw hok
    have hok : ok = false := by simpa using hok
    subst hok
    refine ⟨ph, _, ⟨rfl, hph⟩, fun rest hrest => ?_⟩
    rw [hw] at hph ⊢
    simp only [PhOk] at hph
    subst hph
    rw [hm]
    simpa [obsAccepts.go, retd] using hrest
  · -- mExpire
    rename_i hm
    refine ⟨ph, _, ⟨rfl, hph⟩, fun rest hrest => ?_⟩
    rw [hm]
    simpa [retd] using hrest
  · -- mInject
    rename_i hc
    refine ⟨ph, _, ⟨rfl, hph⟩, fun rest hrest => ?_⟩
    rw [hc.1]
    simpa [retd] using hrest
  · -- mSkipInject
    rename_i hc
    refine ⟨ph, _, ⟨rfl, hph⟩, fun rest hrest => ?_⟩
    rw [hc.1]
    have := phOk_dead hph hc.2
    simpa [obsAccepts.go, retd, this] using hrest
  · -- mJoin
    rename_i hc
    refine ⟨ph, _, ⟨rfl, hph⟩, fun rest hrest => ?_⟩
    rw [hc.1]
    have := phOk_dead hph hc.2
    simpa [obsAccepts.go, retd, this] using hrest

theorem R_init : R 0 false init := ⟨rfl, rfl⟩

theorem trace_sim {s : St} {ph : Nat} {ret : Bool} (hr : R ph ret s) (acts : List Act) :
    obsAccepts.go ph ret (trace s acts) = true := by
  induction acts generalizing s ph ret with
  | nil => simp [trace, obsAccepts.go]
  | cons a as ih =>
    simp only [trace]
    split
    · rename_i s1 hs
      obtain ⟨ph', ret', hr', hgo⟩ := step_sim hr hs
      exact hgo _ (ih hr')
    · simp [obsAccepts.go]

theorem trace_init_accepted (acts : List Act) : obsAccepts (trace init acts) = true :=
  trace_sim R_init acts

end Adsg.TL
