/- Helper lemmas for `derivable` / `pruneStart` (C02). -/
import Adsg.Model.Traversal
import Adsg.Proofs.Closure
import Adsg.Proofs.Steps
namespace Adsg

/-! ### The graph of all possible derivations -/

/-- The graph inside `derivable`: every derivation edge and every origin → option edge, no choices. -/
def DSG.allGraph (g : DSG) : DSG :=
  { n := g.n, derives := g.allEdges, sel := [], start := g.start, incompat := [] }

theorem derivable_eq (g : DSG) : derivable g = closure g.allGraph [] := rfl

theorem mem_allEdges (g : DSG) (e : Node × Node) :
    e ∈ g.allEdges ↔ e ∈ g.derives ∨ ∃ c ∈ g.sel, ∃ o ∈ c.opts, (c.origin, o) = e := by
  simp only [DSG.allEdges, List.mem_append, List.mem_flatMap, List.mem_map]

theorem allGraph_wf (g : DSG) (hw : g.WF = true) : g.allGraph.WF = true := by
  simp only [DSG.WF, Bool.and_eq_true, List.all_eq_true, decide_eq_true_eq] at hw ⊢
  obtain ⟨⟨⟨⟨hd, hs⟩, hst⟩, _⟩, _⟩ := hw
  refine ⟨⟨⟨⟨?_, by simp [DSG.allGraph]⟩, hst⟩, by simp [DSG.allGraph]⟩, by simp [DSG.allGraph]⟩
  intro e he
  have he' : e ∈ g.allEdges := he
  rw [mem_allEdges] at he'
  rcases he' with he' | ⟨c, hc, o, ho, rfl⟩
  · exact hd e he'
  · exact ⟨(hs c hc).1, (hs c hc).2 o ho⟩

/-- A selected option is an option of the choice. -/
theorem selectedOpt_mem (g : DSG) (a : Assign) (c : Nat) (ch : SelChoice) (v : Node)
    (hget : g.sel[c]? = some ch) (hsel : selectedOpt g a c = some v) : v ∈ ch.opts := by
  simp only [selectedOpt, hget] at hsel
  cases hak : a.get c with
  | none => simp [hak] at hsel
  | some k =>
    rw [hak] at hsel
    exact List.mem_of_getElem? hsel

theorem succs_sub_allGraph (g : DSG) (a : Assign) (u v : Node) (hv : v ∈ succs g a u) :
    v ∈ succs g.allGraph [] u := by
  simp only [succs, List.mem_append, List.mem_map, List.mem_filter, decide_eq_true_eq] at hv ⊢
  left
  rcases hv with ⟨e, ⟨he, hu⟩, rfl⟩ | hv
  · exact ⟨e, ⟨(mem_allEdges g e).2 (Or.inl he), hu⟩, rfl⟩
  · rw [mem_choiceSuccs] at hv
    obtain ⟨c, ch, hget, ho, hsel⟩ := hv
    have hmem : v ∈ ch.opts := selectedOpt_mem g a c ch v hget hsel
    have hch : ch ∈ g.sel := List.mem_of_getElem? hget
    exact ⟨(u, v), ⟨(mem_allEdges g _).2 (Or.inr ⟨ch, hch, v, hmem, by rw [ho]⟩), rfl⟩, rfl⟩

theorem reach_allGraph (g : DSG) (a : Assign) (v : Node) (h : Reach g a v) : Reach g.allGraph [] v := by
  induction h with
  | start hs => exact Reach.start hs
  | step _ hv ih => exact Reach.step ih (succs_sub_allGraph g a _ _ hv)

theorem reach_derivable (g : DSG) (hw : g.WF = true) (a : Assign) (v : Node) (h : Reach g a v) :
    v ∈ derivable g := by
  rw [derivable_eq, mem_closure_iff_reach _ (allGraph_wf g hw)]
  exact reach_allGraph g a v h

theorem mem_derivable_of_mem_closure (g : DSG) (hw : g.WF = true) (a : Assign) (v : Node)
    (h : v ∈ closure g a) : v ∈ derivable g :=
  reach_derivable g hw a v ((mem_closure_iff_reach g hw a v).1 h)

/-! ### `pruneStart` -/

/-- What `pruneStart` does to one choice. -/
def pruneChoice (R : List Node) (c : SelChoice) : SelChoice :=
  if R.contains c.origin then c else { c with opts := [] }

theorem pruneStart_sel (g : DSG) : (pruneStart g).sel = g.sel.map (pruneChoice (derivable g)) := rfl
theorem pruneStart_derives (g : DSG) : (pruneStart g).derives =
    g.derives.filter (fun e => (derivable g).contains e.1 && (derivable g).contains e.2) := rfl
theorem pruneStart_incompat (g : DSG) : (pruneStart g).incompat =
    g.incompat.filter (fun e => (derivable g).contains e.1 && (derivable g).contains e.2) := rfl
theorem pruneStart_start (g : DSG) : (pruneStart g).start = g.start := rfl
theorem pruneStart_cons (g : DSG) : (pruneStart g).cons = g.cons := rfl
theorem pruneStart_n (g : DSG) : (pruneStart g).n = g.n := rfl

theorem pruneStart_sel_length (g : DSG) : (pruneStart g).sel.length = g.sel.length := by
  rw [pruneStart_sel, List.length_map]

theorem pruneStart_sel_get (g : DSG) (c : Nat) :
    (pruneStart g).sel[c]? = (g.sel[c]?).map (pruneChoice (derivable g)) := by
  rw [pruneStart_sel, List.getElem?_map]

theorem pruneChoice_origin (R : List Node) (c : SelChoice) : (pruneChoice R c).origin = c.origin := by
  unfold pruneChoice; split <;> rfl

theorem pruneChoice_of_mem (R : List Node) (c : SelChoice) (h : c.origin ∈ R) : pruneChoice R c = c := by
  unfold pruneChoice; simp [h]

theorem pruneChoice_opts_sub (R : List Node) (c : SelChoice) (o : Node) (h : o ∈ (pruneChoice R c).opts) :
    o ∈ c.opts := by
  unfold pruneChoice at h; split at h
  · exact h
  · simp at h

theorem pruneChoice_opts_ne_nil (R : List Node) (c : SelChoice) (h : (pruneChoice R c).opts ≠ []) :
    c.origin ∈ R := by
  unfold pruneChoice at h; split at h
  · rename_i hc; simpa using hc
  · exact absurd rfl h

theorem mem_pruneFilter (R : List Node) (l : List (Node × Node)) (e : Node × Node) :
    e ∈ l.filter (fun e => R.contains e.1 && R.contains e.2) ↔ e ∈ l ∧ e.1 ∈ R ∧ e.2 ∈ R := by
  simp [List.mem_filter]

theorem pruneStart_wellFormed (g : DSG) (hw : g.WF = true) : (pruneStart g).WF = true := by
  simp only [DSG.WF, Bool.and_eq_true, List.all_eq_true, decide_eq_true_eq] at hw ⊢
  obtain ⟨⟨⟨⟨hd, hs⟩, hst⟩, hi⟩, hk⟩ := hw
  refine ⟨⟨⟨⟨?_, ?_⟩, hst⟩, ?_⟩, ?_⟩
  · intro e he
    rw [pruneStart_derives, mem_pruneFilter] at he
    exact hd e he.1
  · intro c hc
    rw [pruneStart_sel, List.mem_map] at hc
    obtain ⟨c0, hc0, rfl⟩ := hc
    rw [pruneChoice_origin]
    exact ⟨(hs c0 hc0).1, fun o ho => (hs c0 hc0).2 o (pruneChoice_opts_sub _ _ o ho)⟩
  · intro e he
    rw [pruneStart_incompat, mem_pruneFilter] at he
    exact hi e he.1
  · intro k hk' c hc
    rw [pruneStart_sel_length]
    exact hk k hk' c hc

/-- A selection in the pruned graph is a selection in the original graph. -/
theorem selectedOpt_prune_sub (g : DSG) (a : Assign) (c : Nat) (v : Node)
    (h : selectedOpt (pruneStart g) a c = some v) : selectedOpt g a c = some v := by
  simp only [selectedOpt, pruneStart_sel_get] at h ⊢
  cases hget : g.sel[c]? with
  | none => simp [hget] at h
  | some ch =>
    rw [hget] at h
    cases hak : a.get c with
    | none => simp [hak] at h
    | some k =>
      rw [hak] at h
      simp only [Option.map_some] at h ⊢
      unfold pruneChoice at h
      split at h
      · exact h
      · simp at h

/-- A choice with derivable origin is untouched. -/
theorem selectedOpt_prune_eq (g : DSG) (a : Assign) (c : Nat) (ch : SelChoice)
    (hget : g.sel[c]? = some ch) (ho : ch.origin ∈ derivable g) :
    selectedOpt (pruneStart g) a c = selectedOpt g a c := by
  simp only [selectedOpt, pruneStart_sel_get, hget, Option.map_some, pruneChoice_of_mem _ _ ho]

theorem succs_prune_sub (g : DSG) (a : Assign) (u v : Node) (hv : v ∈ succs (pruneStart g) a u) :
    v ∈ succs g a u := by
  simp only [succs, List.mem_append, List.mem_map, List.mem_filter, decide_eq_true_eq] at hv ⊢
  rcases hv with ⟨e, ⟨he, hu⟩, rfl⟩ | hv
  · left
    rw [pruneStart_derives, mem_pruneFilter] at he
    exact ⟨e, ⟨he.1, hu⟩, rfl⟩
  · right
    rw [mem_choiceSuccs] at hv ⊢
    obtain ⟨c, ch, hget, ho, hsel⟩ := hv
    rw [pruneStart_sel_get] at hget
    cases hget0 : g.sel[c]? with
    | none => simp [hget0] at hget
    | some ch0 =>
      rw [hget0] at hget
      simp only [Option.map_some, Option.some.injEq] at hget
      subst hget
      rw [pruneChoice_origin] at ho
      exact ⟨c, ch0, hget0, ho, selectedOpt_prune_sub g a c v hsel⟩

theorem succs_prune_of_derivable (g : DSG) (a : Assign) (u v : Node)
    (hu : u ∈ derivable g) (hv' : v ∈ derivable g) (hv : v ∈ succs g a u) :
    v ∈ succs (pruneStart g) a u := by
  simp only [succs, List.mem_append, List.mem_map, List.mem_filter, decide_eq_true_eq] at hv ⊢
  rcases hv with ⟨e, ⟨he, heu⟩, rfl⟩ | hv
  · left
    refine ⟨e, ⟨?_, heu⟩, rfl⟩
    rw [pruneStart_derives, mem_pruneFilter]
    exact ⟨he, by rw [heu]; exact hu, hv'⟩
  · right
    rw [mem_choiceSuccs] at hv ⊢
    obtain ⟨c, ch, hget, ho, hsel⟩ := hv
    have hor : ch.origin ∈ derivable g := by rw [ho]; exact hu
    refine ⟨c, ch, ?_, ho, ?_⟩
    · rw [pruneStart_sel_get, hget, Option.map_some, pruneChoice_of_mem _ _ hor]
    · rw [selectedOpt_prune_eq g a c ch hget hor]; exact hsel

theorem reach_prune_sub (g : DSG) (a : Assign) (v : Node) (h : Reach (pruneStart g) a v) : Reach g a v := by
  induction h with
  | start hs => exact Reach.start hs
  | step _ hv ih => exact Reach.step ih (succs_prune_sub g a _ _ hv)

theorem reach_prune_of_reach (g : DSG) (hw : g.WF = true) (a : Assign) (v : Node) (h : Reach g a v) :
    Reach (pruneStart g) a v := by
  induction h with
  | start hs => exact Reach.start hs
  | @step u v hu hv ih =>
    exact Reach.step ih (succs_prune_of_derivable g a u v (reach_derivable g hw a u hu)
      (reach_derivable g hw a v (Reach.step hu hv)) hv)

theorem pruneStart_mem_closure (g : DSG) (hw : g.WF = true) (a : Assign) (v : Node) :
    v ∈ closure (pruneStart g) a ↔ v ∈ closure g a := by
  rw [mem_closure_iff_reach _ (pruneStart_wellFormed g hw), mem_closure_iff_reach g hw]
  exact ⟨reach_prune_sub g a v, reach_prune_of_reach g hw a v⟩

theorem pruneStart_activeChoices_eq (g : DSG) (hw : g.WF = true) (a : Assign) :
    activeChoices (pruneStart g) a = activeChoices g a := by
  simp only [activeChoices, pruneStart_sel_length]
  apply List.filter_congr
  intro c _
  rw [pruneStart_sel_get]
  cases g.sel[c]? with
  | none => rfl
  | some ch =>
    simp only [Option.map_some, pruneChoice_origin]
    exact decide_eq_decide.2 (pruneStart_mem_closure g hw a ch.origin)

theorem pruneStart_activeResolved (g : DSG) (hw : g.WF = true) (a : Assign) :
    activeResolved (pruneStart g) a = activeResolved g a := by
  unfold activeResolved
  rw [pruneStart_activeChoices_eq g hw a, Bool.eq_iff_iff, List.all_eq_true, List.all_eq_true]
  have key : ∀ c ∈ activeChoices g a, selectedOpt (pruneStart g) a c = selectedOpt g a c := by
    intro c hc
    obtain ⟨ch, hget, ho⟩ := (mem_activeChoices g a c).1 hc
    exact selectedOpt_prune_eq g a c ch hget (mem_derivable_of_mem_closure g hw a _ ho)
  constructor <;> intro h c hc
  · rw [← key c hc]; exact h c hc
  · rw [key c hc]; exact h c hc

theorem pruneStart_conflictFreeB (g : DSG) (hw : g.WF = true) (a : Assign) :
    conflictFreeB (pruneStart g) (closure (pruneStart g) a) = conflictFreeB g (closure g a) := by
  rw [conflictFreeB_congr (pruneStart g) _ _ (pruneStart_mem_closure g hw a), Bool.eq_iff_iff,
    conflictFreeB_iff, conflictFreeB_iff]
  constructor
  · intro h e he hx
    refine h e ?_ hx
    rw [pruneStart_incompat, mem_pruneFilter]
    exact ⟨he, mem_derivable_of_mem_closure g hw a _ hx.1, mem_derivable_of_mem_closure g hw a _ hx.2⟩
  · intro h e he
    rw [pruneStart_incompat, mem_pruneFilter] at he
    exact h e he.1

theorem pruneStart_consOK (g : DSG) (hw : g.WF = true) (a : Assign) :
    consOK (pruneStart g) a = consOK g a := by
  unfold consOK
  simp only [pruneStart_activeChoices_eq g hw a, pruneStart_cons]

theorem pruneStart_admissible_eq (g : DSG) (hw : g.WF = true) (a : Assign) :
    admissible (pruneStart g) a = admissible g a := by
  unfold admissible
  rw [pruneStart_activeResolved g hw a, pruneStart_conflictFreeB g hw a, pruneStart_consOK g hw a]

theorem pruneStart_only_derivable_all (g : DSG) :
    (∀ e ∈ (pruneStart g).derives, e.1 ∈ derivable g ∧ e.2 ∈ derivable g) ∧
    (∀ c ∈ (pruneStart g).sel, c.opts ≠ [] → c.origin ∈ derivable g) ∧
    (∀ e ∈ (pruneStart g).incompat, e.1 ∈ derivable g ∧ e.2 ∈ derivable g) := by
  refine ⟨?_, ?_, ?_⟩
  · intro e he
    rw [pruneStart_derives, mem_pruneFilter] at he
    exact he.2
  · intro c hc hne
    rw [pruneStart_sel, List.mem_map] at hc
    obtain ⟨c0, _, rfl⟩ := hc
    rw [pruneChoice_origin]
    exact pruneChoice_opts_ne_nil _ _ hne
  · intro e he
    rw [pruneStart_incompat, mem_pruneFilter] at he
    exact he.2

end Adsg
