/- Helper lemmas about Adsg/Model/Sup.lean. -/
import Adsg.Model.Sup
import Adsg.Proofs.Closure
namespace Adsg

/-! ### `resolve` -/

theorem resolve_eq_some {s : SupSpec} {X : List Node} {r : List (Option Nat)} {N : List Node}
    (h : resolve s X r = some N) :
    N = closure s.sup (supAssign s X r) ∧ activeResolved s.sup (supAssign s X r) = true ∧
      initOK s = true := by
  unfold resolve at h
  cases hi : initOK s with
  | false => simp [hi] at h
  | true =>
    cases ha : activeResolved s.sup (supAssign s X r) with
    | false => simp [hi, ha] at h
    | true =>
      simp [hi, ha] at h
      exact ⟨h.symm, rfl, rfl⟩

theorem resolve_of_initOK_false {s : SupSpec} (X : List Node) (r : List (Option Nat))
    (h : initOK s = false) : resolve s X r = none := by
  simp [resolve, h]

theorem resolve_of_not_activeResolved {s : SupSpec} {X : List Node} {r : List (Option Nat)}
    (h : activeResolved s.sup (supAssign s X r) = false) : resolve s X r = none := by
  unfold resolve
  cases initOK s <;> simp [h]

theorem selectedOpt_of_get_none (g : DSG) (a : Assign) (c : Nat) (h : a.get c = none) :
    selectedOpt g a c = none := by
  unfold selectedOpt
  rw [h]
  cases g.sel[c]? <;> rfl

theorem activeResolved_false_of_active_none (g : DSG) (a : Assign) (c : Nat)
    (hact : c ∈ activeChoices g a) (hnone : a.get c = none) : activeResolved g a = false := by
  cases hr : activeResolved g a with
  | false => rfl
  | true =>
    unfold activeResolved at hr
    have := List.all_eq_true.mp hr c hact
    rw [selectedOpt_of_get_none g a c hnone] at this
    simp at this

/-! ### `initOK` -/

theorem initOK_iff' (s : SupSpec) :
    initOK s = true ↔
      (s.maps.map (·.1)).Nodup ∧ ∀ c, c < s.sup.sel.length → ∃ m, (c, m) ∈ s.maps := by
  unfold initOK
  simp only [Bool.and_eq_true, decide_eq_true_eq, List.all_eq_true, List.mem_range,
    List.contains_iff_mem, List.mem_map]
  constructor
  · rintro ⟨hn, hall⟩
    refine ⟨hn, fun c hc => ?_⟩
    obtain ⟨⟨c', m⟩, hm, rfl⟩ := hall c hc
    exact ⟨m, hm⟩
  · rintro ⟨hn, hall⟩
    refine ⟨hn, fun c hc => ?_⟩
    obtain ⟨m, hm⟩ := hall c hc
    exact ⟨(c, m), hm, rfl⟩

/-! ### `supAssign` -/

theorem find?_key_of_nodup {β : Type} (l : List (Nat × β)) (c : Nat) (m : β)
    (hn : (l.map (·.1)).Nodup) (hm : (c, m) ∈ l) :
    l.find? (fun e => e.1 == c) = some (c, m) := by
  induction l with
  | nil => cases hm
  | cons x xs ih =>
    rw [List.map_cons, List.nodup_cons] at hn
    rcases List.mem_cons.mp hm with hx | hx
    · subst hx
      simp
    · have hne : x.1 ≠ c := by
        intro he
        apply hn.1
        rw [he]
        exact List.mem_map.mpr ⟨(c, m), hx, rfl⟩
      rw [List.find?_cons_of_neg (by simpa using hne)]
      exact ih hn.2 hx

theorem supAssign_get (s : SupSpec) (X : List Node) (r : List (Option Nat)) (c : Nat)
    (hc : c < s.sup.sel.length) :
    (supAssign s X r).get c =
      (match s.maps.find? (fun m => m.1 == c) with
        | some m => mapTarget X r m.2
        | none => none) := by
  unfold supAssign Assign.get
  rw [List.getElem?_map, List.getElem?_range hc]
  rfl

theorem supAssign_get_mapped (s : SupSpec) (X : List Node) (r : List (Option Nat)) (c : Nat)
    (m : SupMapping) (hc : c < s.sup.sel.length) (hm : (c, m) ∈ s.maps) (hinit : initOK s = true) :
    (supAssign s X r).get c = mapTarget X r m := by
  rw [supAssign_get s X r c hc,
    find?_key_of_nodup s.maps c m ((initOK_iff' s).mp hinit).1 hm]

/-! ### `mapTarget` -/

theorem mapTarget_opt_mem (X : List Node) (r : List (Option Nat)) (m : OptMap) (k : Nat)
    (h : mapTarget X r (.opt m) = some k) : (r.getD m.srcChoice none, k) ∈ m.table := by
  unfold mapTarget at h
  rw [Option.map_eq_some_iff] at h
  obtain ⟨e, he, hk⟩ := h
  have hp := List.find?_some he
  have hmem := List.mem_of_find?_eq_some he
  rw [beq_iff_eq] at hp
  rw [← hp, ← hk]
  exact hmem

theorem mapTarget_exist_cases (X : List Node) (r : List (Option Nat)) (m : ExistMap) :
    (∃ pre e post, m.entries = pre ++ e :: post ∧ (∀ p ∈ pre, p.1 ∉ X) ∧ e.1 ∈ X ∧
        mapTarget X r (.exist m) = some e.2) ∨
    ((∀ p ∈ m.entries, p.1 ∉ X) ∧ mapTarget X r (.exist m) = some m.dflt) := by
  have hmt : mapTarget X r (.exist m) =
      (match m.entries.find? (fun e => X.contains e.1) with
        | some e => some e.2
        | none => some m.dflt) := rfl
  rw [hmt]
  cases hf : m.entries.find? (fun e => X.contains e.1) with
  | none =>
    right
    refine ⟨fun p hp hX => ?_, rfl⟩
    have := List.find?_eq_none.mp hf p hp
    simp at this
    exact this hX
  | some e =>
    left
    obtain ⟨he, pre, post, hsplit, hpre⟩ := List.find?_eq_some_iff_append.mp hf
    refine ⟨pre, e, post, hsplit, fun p hp hX => ?_, ?_, rfl⟩
    · have := hpre p hp
      simp at this
      exact this hX
    · simpa [List.contains_iff_mem] using he

end Adsg
