/-
  Helper lemmas about the closure semantics (Adsg/Model/Graph.lean):
  the fuel-bounded frontier expansion computes exactly the reachable set, is monotone in the
  assignment and only depends on the values of active choices.
-/
import Adsg.Model.Graph
import Mathlib.Data.List.Perm.Subperm
import Mathlib.Data.List.Range
import Mathlib.Data.List.Nodup

namespace Adsg

/-! ### insAll -/

theorem mem_insAll (l X : List Nat) (v : Nat) : v ∈ insAll X l ↔ v ∈ X ∨ v ∈ l := by
  induction l generalizing X with
  | nil => simp [insAll]
  | cons a l ih =>
    simp only [insAll, List.foldl_cons] at *
    rw [ih]
    unfold ins
    by_cases h : a ∈ X <;> simp [h]
    · constructor
      · rintro (h1 | h1); exact Or.inl h1; exact Or.inr (Or.inr h1)
      · rintro (h1 | rfl | h1); exact Or.inl h1; exact Or.inl h; exact Or.inr h1
    · constructor
      · rintro ((h1 | h1) | h1); exact Or.inl h1; exact Or.inr (Or.inl h1); exact Or.inr (Or.inr h1)
      · rintro (h1 | h1 | h1); exact Or.inl (Or.inl h1); exact Or.inl (Or.inr h1); exact Or.inr h1

theorem nodup_insAll (l X : List Nat) (h : X.Nodup) : (insAll X l).Nodup := by
  induction l generalizing X with
  | nil => simpa [insAll]
  | cons a l ih =>
    simp only [insAll, List.foldl_cons]
    apply ih
    unfold ins
    by_cases h' : a ∈ X <;> simp [h', h]
    exact List.Nodup.append h (by simp) (by simpa using h')

theorem length_insAll (l X : List Nat) : X.length ≤ (insAll X l).length := by
  induction l generalizing X with
  | nil => simp [insAll]
  | cons a l ih =>
    simp only [insAll, List.foldl_cons]
    refine Nat.le_trans ?_ (ih _)
    unfold ins; split <;> simp

theorem insAll_eq_of_length (l X : List Nat) (h : (insAll X l).length = X.length) : insAll X l = X := by
  induction l generalizing X with
  | nil => simp [insAll]
  | cons a l ih =>
    simp only [insAll, List.foldl_cons] at *
    by_cases h' : a ∈ X
    · simp only [ins, h', if_true] at *; exact ih X h
    · exfalso
      have h1 := length_insAll l (ins X a)
      simp only [insAll] at h1
      have : (ins X a).length = X.length + 1 := by simp [ins, h']
      omega

/-! ### expand / iter -/

def Stable (g : DSG) (a : Assign) (X : List Node) : Prop := ∀ u ∈ X, ∀ v ∈ succs g a u, v ∈ X
def Bounded (n : Nat) (X : List Nat) : Prop := ∀ v ∈ X, v < n

theorem mem_expand (g : DSG) (a : Assign) (X : List Node) (v : Node) :
    v ∈ expand g a X ↔ v ∈ X ∨ ∃ u ∈ X, v ∈ succs g a u := by
  unfold expand; rw [mem_insAll]; simp [List.mem_flatMap]

theorem stable_of_expand_eq (g : DSG) (a : Assign) (X : List Node) (h : expand g a X = X) : Stable g a X := by
  intro u hu v hv
  have : v ∈ expand g a X := (mem_expand g a X v).2 (Or.inr ⟨u, hu, hv⟩)
  rwa [h] at this

theorem expand_eq_of_stable (g : DSG) (a : Assign) (X : List Node) (h : Stable g a X) : expand g a X = X := by
  unfold expand
  have : ∀ l : List Nat, (∀ v ∈ l, v ∈ X) → insAll X l = X := by
    intro l
    induction l with
    | nil => intro _; simp [insAll]
    | cons b l ih =>
      intro hl
      simp only [insAll, List.foldl_cons]
      have hb : b ∈ X := hl b (by simp)
      simp only [ins, hb, if_true]
      exact ih (fun v hv => hl v (by simp [hv]))
  apply this
  intro v hv
  rw [List.mem_flatMap] at hv
  obtain ⟨u, hu, hv⟩ := hv
  exact h u hu v hv

theorem iter_of_stable (g : DSG) (a : Assign) (k : Nat) (X : List Node) (h : Stable g a X) : iter g a k X = X := by
  induction k with
  | zero => rfl
  | succ k ih => simp [iter, expand_eq_of_stable g a X h, ih]

/-- Every successor of any node is a node id `< n` in a well-formed graph. -/
theorem succs_lt (g : DSG) (hw : g.WF = true) (a : Assign) (u v : Node) (hv : v ∈ succs g a u) : v < g.n := by
  simp only [DSG.WF, Bool.and_eq_true, List.all_eq_true, decide_eq_true_eq] at hw
  obtain ⟨⟨⟨⟨hd, hs⟩, _⟩, _⟩, _⟩ := hw
  simp only [succs, List.mem_append, List.mem_map, List.mem_filter] at hv
  rcases hv with ⟨e, ⟨he, _⟩, rfl⟩ | hv
  · exact (hd e he).2
  · simp only [choiceSuccs, List.mem_filterMap, List.mem_range] at hv
    obtain ⟨c, hc, hv⟩ := hv
    have hget : g.sel[c]? = some g.sel[c] := List.getElem?_eq_getElem hc
    rw [hget] at hv
    simp only at hv
    split at hv
    · simp only [selectedOpt, hget] at hv
      split at hv
      · rename_i ch k h1 h2
        simp only [Option.some.injEq] at h1
        subst h1
        have hmem : v ∈ g.sel[c].opts := List.mem_of_getElem? hv
        exact (hs g.sel[c] (List.getElem_mem hc)).2 v hmem
      · cases hv
    · cases hv

theorem bounded_expand (g : DSG) (hw : g.WF = true) (a : Assign) (X : List Node) (h : Bounded g.n X) :
    Bounded g.n (expand g a X) := by
  intro v hv
  rw [mem_expand] at hv
  rcases hv with hv | ⟨u, _, hv⟩
  · exact h v hv
  · exact succs_lt g hw a u v hv

theorem length_le_of_bounded (l : List Nat) (n : Nat) (hd : l.Nodup) (hb : Bounded n l) : l.length ≤ n := by
  have hsub : l ⊆ List.range n := fun v hv => List.mem_range.mpr (hb v hv)
  simpa using (List.subperm_of_subset hd hsub).length_le

theorem iter_progress (g : DSG) (hw : g.WF = true) (a : Assign) : ∀ (k : Nat) (X : List Node), X.Nodup → Bounded g.n X →
    (Stable g a (iter g a k X)) ∨ (X.length + k ≤ (iter g a k X).length) := by
  intro k
  induction k with
  | zero => intro X _ _; right; simp [iter]
  | succ k ih =>
    intro X hd hb
    simp only [iter]
    by_cases hlen : (expand g a X).length = X.length
    · left
      have heq : expand g a X = X := insAll_eq_of_length _ _ hlen
      have hs := stable_of_expand_eq g a X heq
      rw [heq, iter_of_stable g a k X hs]; exact hs
    · have hge : X.length + 1 ≤ (expand g a X).length := by
        have := length_insAll (X.flatMap (succs g a)) X
        unfold expand at hlen ⊢; omega
      rcases ih (expand g a X) (nodup_insAll _ _ hd) (bounded_expand g hw a X hb) with h | h
      · exact Or.inl h
      · right; omega

theorem iter_nodup_bounded (g : DSG) (hw : g.WF = true) (a : Assign) : ∀ (k : Nat) (X : List Node), X.Nodup → Bounded g.n X →
    (iter g a k X).Nodup ∧ Bounded g.n (iter g a k X) := by
  intro k
  induction k with
  | zero => intro X hd hb; exact ⟨hd, hb⟩
  | succ k ih => intro X hd hb; exact ih _ (nodup_insAll _ _ hd) (bounded_expand g hw a X hb)

theorem subset_iter (g : DSG) (a : Assign) : ∀ (k : Nat) (X : List Node), ∀ v ∈ X, v ∈ iter g a k X := by
  intro k
  induction k with
  | zero => intro X v hv; exact hv
  | succ k ih => intro X v hv; exact ih _ v ((mem_expand g a X v).2 (Or.inl hv))

theorem start_bounded (g : DSG) (hw : g.WF = true) : Bounded g.n g.start := by
  simp only [DSG.WF, Bool.and_eq_true, List.all_eq_true, decide_eq_true_eq] at hw
  exact fun v hv => hw.1.1.2 v hv

theorem closure_nodup (g : DSG) (hw : g.WF = true) (a : Assign) : (closure g a).Nodup := by
  unfold closure
  refine (iter_nodup_bounded g hw a g.n _ (nodup_insAll _ _ (by simp)) ?_).1
  intro v hv; rw [mem_insAll] at hv; simpa using start_bounded g hw v (by simpa using hv)

theorem closure_stable (g : DSG) (hw : g.WF = true) (a : Assign) : Stable g a (closure g a) := by
  unfold closure
  have hs := start_bounded g hw
  set X := insAll [] g.start with hX
  have hd : X.Nodup := nodup_insAll _ _ (by simp)
  have hb : Bounded g.n X := by
    intro v hv; rw [hX, mem_insAll] at hv; simpa using hs v (by simpa using hv)
  rcases iter_progress g hw a g.n X hd hb with h | h
  · exact h
  · obtain ⟨hd', hb'⟩ := iter_nodup_bounded g hw a g.n X hd hb
    have hle := length_le_of_bounded _ _ hd' hb'
    have hX0 : X.length = 0 := by omega
    have : X = [] := List.length_eq_zero_iff.mp hX0
    rw [this]
    have : ∀ k, iter g a k [] = [] := by
      intro k; induction k with
      | zero => rfl
      | succ k ih => simp [iter, expand, insAll, ih]
    rw [this]; intro u hu; simp at hu

theorem closure_sound_aux (g : DSG) (a : Assign) : ∀ k X, (∀ v ∈ X, Reach g a v) → ∀ v ∈ iter g a k X, Reach g a v := by
  intro k
  induction k with
  | zero => intro X h v hv; exact h v hv
  | succ k ih =>
    intro X h v hv
    apply ih (expand g a X) _ v hv
    intro w hw
    rw [mem_expand] at hw
    rcases hw with hw | ⟨u, hu, hw⟩
    · exact h w hw
    · exact Reach.step (h u hu) hw

/-- **The computed closure is exactly the reachable set.** -/
theorem mem_closure_iff_reach (g : DSG) (hw : g.WF = true) (a : Assign) (v : Node) :
    v ∈ closure g a ↔ Reach g a v := by
  constructor
  · intro hv
    refine closure_sound_aux g a g.n _ ?_ v hv
    intro w hw'
    rw [mem_insAll] at hw'
    exact Reach.start (by simpa using hw')
  · intro hv
    induction hv with
    | start h => apply subset_iter; rw [mem_insAll]; exact Or.inr h
    | step _ hv ih => exact closure_stable g hw a _ ih _ hv

/-- The closure is the least set that contains the start nodes and is closed under `succs`. -/
theorem closure_least (g : DSG) (hw : g.WF = true) (a : Assign) (S : Node → Prop)
    (hs : ∀ v ∈ g.start, S v) (hc : ∀ u, S u → ∀ v ∈ succs g a u, S v) :
    ∀ v ∈ closure g a, S v := by
  have key : ∀ v, Reach g a v → S v := by
    intro v hr
    induction hr with
    | start h => exact hs _ h
    | step _ hv ih => exact hc _ ih _ hv
  intro v hv
  exact key v ((mem_closure_iff_reach g hw a v).1 hv)

/-! ### Dependence on the assignment -/

/-- `b` extends `a` on the choices in `C`: wherever `a` has taken an option of such a choice, `b`
    has taken the same. -/
def ExtendsOn (a b : Assign) (C : Nat → Prop) : Prop := ∀ c, C c → ∀ k, a.get c = some k → b.get c = some k

theorem mem_choiceSuccs (g : DSG) (a : Assign) (u v : Node) :
    v ∈ choiceSuccs g a u ↔ ∃ c ch, g.sel[c]? = some ch ∧ ch.origin = u ∧ selectedOpt g a c = some v := by
  simp only [choiceSuccs, List.mem_filterMap, List.mem_range]
  constructor
  · rintro ⟨c, hc, h⟩
    have hget : g.sel[c]? = some g.sel[c] := List.getElem?_eq_getElem hc
    rw [hget] at h
    simp only at h
    split at h
    · exact ⟨c, _, hget, ‹_›, h⟩
    · cases h
  · rintro ⟨c, ch, hget, ho, hsel⟩
    have hc : c < g.sel.length := by
      rcases List.getElem?_eq_some_iff.1 hget with ⟨h, _⟩; exact h
    refine ⟨c, hc, ?_⟩
    rw [hget]; simp [ho, hsel]

theorem selectedOpt_of_get_eq (g : DSG) (a b : Assign) (c : Nat) (h : a.get c = b.get c) :
    selectedOpt g a c = selectedOpt g b c := by
  simp [selectedOpt, h]

/-- Successors only grow when more options are taken (on the choices at `u`). -/
theorem succs_mono (g : DSG) (a b : Assign) (u v : Node)
    (hext : ∀ c ch, g.sel[c]? = some ch → ch.origin = u → ∀ k, a.get c = some k → b.get c = some k)
    (hv : v ∈ succs g a u) : v ∈ succs g b u := by
  simp only [succs, List.mem_append] at hv ⊢
  rcases hv with hv | hv
  · exact Or.inl hv
  · right
    rw [mem_choiceSuccs] at hv ⊢
    obtain ⟨c, ch, hget, ho, hsel⟩ := hv
    refine ⟨c, ch, hget, ho, ?_⟩
    simp only [selectedOpt, hget] at hsel ⊢
    cases hak : a.get c with
    | none => simp [hak] at hsel
    | some k =>
      rw [hext c ch hget ho k hak]
      simpa [hak] using hsel

/-- **Monotonicity** (`confirmed_mono`): taking more options can only add nodes. -/
theorem reach_mono (g : DSG) (a b : Assign)
    (hext : ∀ c k, a.get c = some k → b.get c = some k) (v : Node) (hv : Reach g a v) : Reach g b v := by
  induction hv with
  | start h => exact Reach.start h
  | step _ hv ih => exact Reach.step ih (succs_mono g a b _ _ (fun c _ _ _ k hk => hext c k hk) hv)

theorem closure_mono (g : DSG) (hw : g.WF = true) (a b : Assign)
    (hext : ∀ c k, a.get c = some k → b.get c = some k) : ∀ v ∈ closure g a, v ∈ closure g b := by
  intro v hv
  exact (mem_closure_iff_reach g hw b v).2 (reach_mono g a b hext v ((mem_closure_iff_reach g hw a v).1 hv))

theorem mem_activeChoices (g : DSG) (a : Assign) (c : Nat) :
    c ∈ activeChoices g a ↔ ∃ ch, g.sel[c]? = some ch ∧ ch.origin ∈ closure g a := by
  simp only [activeChoices, List.mem_filter, List.mem_range]
  constructor
  · rintro ⟨hc, h⟩
    have hget : g.sel[c]? = some g.sel[c] := List.getElem?_eq_getElem hc
    rw [hget] at h
    exact ⟨_, hget, by simpa using h⟩
  · rintro ⟨ch, hget, h⟩
    have hc : c < g.sel.length := by
      rcases List.getElem?_eq_some_iff.1 hget with ⟨h, _⟩; exact h
    refine ⟨hc, ?_⟩
    rw [hget]; simpa using h

/-- **Only active choices matter** (`closure_congr_active`): if `a` and `b` agree on every choice
    that is active under `a`, they reach the same nodes. -/
theorem reach_congr_active (g : DSG) (hw : g.WF = true) (a b : Assign)
    (hag : ∀ c ∈ activeChoices g a, a.get c = b.get c) (v : Node) : Reach g a v ↔ Reach g b v := by
  have key : ∀ u, Reach g a u → succs g a u = succs g b u := by
    intro u hu
    have hmem : u ∈ closure g a := (mem_closure_iff_reach g hw a u).2 hu
    simp only [succs, choiceSuccs]
    congr 1
    apply List.filterMap_congr
    intro c hc
    cases hget : g.sel[c]? with
    | none => rfl
    | some ch =>
      simp only
      by_cases ho : ch.origin = u
      · simp only [ho, if_true]
        apply selectedOpt_of_get_eq
        apply hag
        rw [mem_activeChoices]
        exact ⟨ch, hget, by rw [ho]; exact hmem⟩
      · simp [ho]
  constructor
  · intro hv
    induction hv with
    | start h => exact Reach.start h
    | step hu hv ih => exact Reach.step ih (by rw [← key _ hu]; exact hv)
  · intro hv
    induction hv with
    | start h => exact Reach.start h
    | step _ hv ih => exact Reach.step ih (by rw [key _ ih]; exact hv)

theorem mem_closure_congr_active (g : DSG) (hw : g.WF = true) (a b : Assign)
    (hag : ∀ c ∈ activeChoices g a, a.get c = b.get c) (v : Node) :
    v ∈ closure g a ↔ v ∈ closure g b := by
  rw [mem_closure_iff_reach g hw, mem_closure_iff_reach g hw, reach_congr_active g hw a b hag]

theorem activeChoices_congr (g : DSG) (hw : g.WF = true) (a b : Assign)
    (hag : ∀ c ∈ activeChoices g a, a.get c = b.get c) : activeChoices g a = activeChoices g b := by
  simp only [activeChoices]
  apply List.filter_congr
  intro c _
  cases g.sel[c]? with
  | none => rfl
  | some ch =>
    simp only
    have := mem_closure_congr_active g hw a b hag ch.origin
    by_cases h : ch.origin ∈ closure g a
    · simp [h, this.1 h]
    · have h' : ch.origin ∉ closure g b := fun hb => h (this.2 hb)
      simp [h, h']

end Adsg
