/- Helper lemmas about Adsg/Model/Cache.lean and Adsg/Model/Select.lean. -/
import Adsg.Model.Cache
import Adsg.Model.Select
namespace Adsg

/-! ### Cache transparency -/

theorem runCache_get {S K V : Type} [BEq K] (keyOf : S → K) (compute : S → V) (s : S)
    (ops : List (CacheOp S)) (st : Store K V) :
    runCache keyOf compute (.get s :: ops) st =
      ((cachedGet keyOf compute st s).1 :: (runCache keyOf compute ops (cachedGet keyOf compute st s).2).1,
       (runCache keyOf compute ops (cachedGet keyOf compute st s).2).2) := by
  simp only [runCache]

theorem runCache_fresh {S K V : Type} [BEq K] (keyOf : S → K) (compute : S → V) (s : S)
    (ops : List (CacheOp S)) (st : Store K V) :
    runCache keyOf compute (.fresh s :: ops) st =
      (compute s :: (runCache keyOf compute ops ((keyOf s, compute s) :: st)).1,
       (runCache keyOf compute ops ((keyOf s, compute s) :: st)).2) := by
  simp only [runCache]

/-- Every entry of the store is genuine. -/
def Genuine {S K V : Type} (keyOf : S → K) (compute : S → V) (st : Store K V) : Prop :=
  ∀ p ∈ st, ∃ s, keyOf s = p.1 ∧ compute s = p.2

theorem cachedGet_spec {S K V : Type} [BEq K] [LawfulBEq K] (keyOf : S → K) (compute : S → V)
    (hinj : ∀ s s', keyOf s = keyOf s' → compute s = compute s') (st : Store K V)
    (hst : Genuine keyOf compute st) (s : S) :
    (cachedGet keyOf compute st s).1 = compute s ∧ Genuine keyOf compute (cachedGet keyOf compute st s).2 := by
  unfold cachedGet
  cases hg : st.get? (keyOf s) with
  | none =>
    refine ⟨rfl, ?_⟩
    intro p hp
    rcases List.mem_cons.1 hp with rfl | hp
    · exact ⟨s, rfl, rfl⟩
    · exact hst p hp
  | some v =>
    refine ⟨?_, hst⟩
    unfold Store.get? at hg
    rcases Option.map_eq_some_iff.1 hg with ⟨p, hp, rfl⟩
    have hm := List.mem_of_find?_eq_some hp
    have hk := List.find?_some hp
    have hk' : p.1 = keyOf s := by simpa using hk
    obtain ⟨s', h1, h2⟩ := hst p hm
    show p.2 = compute s
    rw [← h2]
    exact hinj _ _ (h1.trans hk')

theorem runCache_transparent {S K V : Type} [BEq K] [LawfulBEq K] (keyOf : S → K) (compute : S → V)
    (hinj : ∀ s s', keyOf s = keyOf s' → compute s = compute s') (ops : List (CacheOp S)) :
    ∀ (st : Store K V), Genuine keyOf compute st →
    (runCache keyOf compute ops st).1 = specOutputs compute ops := by
  induction ops with
  | nil => intro st _; rfl
  | cons op ops ih =>
    intro st hst
    cases op with
    | get s =>
      obtain ⟨h1, h2⟩ := cachedGet_spec keyOf compute hinj st hst s
      rw [runCache_get]
      simp only [specOutputs, h1, ih _ h2]
    | reset s =>
      simp only [runCache, specOutputs]
      apply ih
      intro p hp
      exact hst p (List.mem_filter.1 hp).1
    | fresh s =>
      rw [runCache_fresh]
      simp only [specOutputs]
      rw [ih]
      intro p hp
      rcases List.mem_cons.1 hp with rfl | hp
      · exact ⟨s, rfl, rfl⟩
      · exact hst p hp

/-! ### Sorting pairs -/

theorem mem_insertPair (x e : Nat × Nat) (l : List (Nat × Nat)) :
    e ∈ insertPair x l ↔ e = x ∨ e ∈ l := by
  induction l with
  | nil => simp [insertPair]
  | cons y ys ih =>
    simp only [insertPair]
    split
    · simp
    · simp only [List.mem_cons, ih]
      exact or_left_comm

theorem mem_sortPairs' (l : List (Nat × Nat)) (e : Nat × Nat) : e ∈ sortPairs l ↔ e ∈ l := by
  induction l with
  | nil => simp [sortPairs]
  | cons x xs ih =>
    have : sortPairs (x :: xs) = insertPair x (sortPairs xs) := rfl
    rw [this, mem_insertPair, ih, List.mem_cons]

theorem insertPair_perm (x : Nat × Nat) (l : List (Nat × Nat)) : (insertPair x l).Perm (x :: l) := by
  induction l with
  | nil => exact List.Perm.refl _
  | cons y ys ih =>
    simp only [insertPair]
    split
    · exact List.Perm.refl _
    · exact (List.Perm.cons y ih).trans (List.Perm.swap x y ys)

theorem sortPairs_perm (l : List (Nat × Nat)) : (sortPairs l).Perm l := by
  induction l with
  | nil => exact List.Perm.refl _
  | cons x xs ih =>
    have : sortPairs (x :: xs) = insertPair x (sortPairs xs) := rfl
    rw [this]
    exact (insertPair_perm x _).trans (List.Perm.cons x ih)

theorem leLex_total (a b : Nat × Nat) : leLex a b = false → leLex b a = true := by
  unfold leLex; simp; omega

theorem leLex_trans (a b c : Nat × Nat) : leLex a b = true → leLex b c = true → leLex a c = true := by
  unfold leLex; simp; omega

theorem leLex_antisymm (a b : Nat × Nat) : leLex a b = true → leLex b a = true → a = b := by
  obtain ⟨a1, a2⟩ := a
  obtain ⟨b1, b2⟩ := b
  unfold leLex; simp; omega

theorem insertPair_sorted (x : Nat × Nat) (l : List (Nat × Nat))
    (h : l.Pairwise (fun a b => leLex a b = true)) :
    (insertPair x l).Pairwise (fun a b => leLex a b = true) := by
  induction l with
  | nil => simp [insertPair]
  | cons y ys ih =>
    simp only [insertPair]
    have hy := List.pairwise_cons.1 h
    split
    · rename_i hxy
      refine List.pairwise_cons.2 ⟨?_, h⟩
      intro z hz
      rcases List.mem_cons.1 hz with rfl | hz
      · exact hxy
      · exact leLex_trans _ _ _ hxy (hy.1 z hz)
    · rename_i hxy
      refine List.pairwise_cons.2 ⟨?_, ih hy.2⟩
      intro z hz
      rcases (mem_insertPair x z ys).1 hz with rfl | hz
      · exact leLex_total _ _ (by simpa using hxy)
      · exact hy.1 z hz

theorem sortPairs_sorted (l : List (Nat × Nat)) :
    (sortPairs l).Pairwise (fun a b => leLex a b = true) := by
  induction l with
  | nil => simp [sortPairs]
  | cons x xs ih => exact insertPair_sorted x _ ih

theorem sortPairs_eq_of_perm (l l' : List (Nat × Nat)) (h : l.Perm l') : sortPairs l = sortPairs l' := by
  apply List.Perm.eq_of_pairwise (le := fun a b => leLex a b = true)
  · intro a b _ _ h1 h2; exact leLex_antisymm a b h1 h2
  · exact sortPairs_sorted l
  · exact sortPairs_sorted l'
  · exact (sortPairs_perm l).trans (h.trans (sortPairs_perm l').symm)


/-! ### The structured key -/


theorem keyOf_inj (a b : FullSettings) (h : keyOf a = keyOf b) :
    a.s.src = b.s.src ∧ a.s.tgt = b.s.tgt ∧ a.pats = b.pats ∧ a.s.parallel = b.s.parallel ∧
    (∀ e, e ∈ a.s.excluded ↔ e ∈ b.s.excluded) := by
  simp only [keyOf, CacheKey.mk.injEq] at h
  obtain ⟨h1, h2, h3, h4, h5⟩ := h
  refine ⟨h1, h2, h4, h5, ?_⟩
  intro e
  rw [← mem_sortPairs' a.s.excluded, ← mem_sortPairs' b.s.excluded, h3]

theorem validMatrix_congr (s s' : ConnSettings) (e : Existence) (M : Matrix)
    (h1 : s.src = s'.src) (h2 : s.tgt = s'.tgt) (h3 : s.parallel = s'.parallel)
    (h4 : ∀ p, s.excluded.contains p = s'.excluded.contains p) :
    validMatrix s e M = validMatrix s' e M := by
  obtain ⟨src, tgt, ex, par⟩ := s
  obtain ⟨src', tgt', ex', par'⟩ := s'
  simp only at h1 h2 h3 h4
  subst h1 h2 h3
  have hcell : ∀ i j, maxCell ⟨src, tgt, ex, par⟩ e i j = maxCell ⟨src, tgt, ex', par⟩ e i j := by
    intro i j
    simp only [maxCell, parLimit, h4]
  simp only [validMatrix, maxMat, hcell]

theorem validMatrix_of_keyOf_eq (a b : FullSettings) (h : keyOf a = keyOf b)
    (e : Existence) (M : Matrix) : validMatrix a.s e M = validMatrix b.s e M := by
  obtain ⟨h1, h2, _, h4, h5⟩ := keyOf_inj a b h
  apply validMatrix_congr _ _ _ _ h1 h2 h4
  intro p
  rw [Bool.eq_iff_iff, List.contains_iff_mem, List.contains_iff_mem]
  exact h5 p

theorem keyOf_perm (f : FullSettings) (ex' : List (Nat × Nat)) (hp : f.s.excluded.Perm ex') :
    keyOf { f with s := { f.s with excluded := ex' } } = keyOf f := by
  have h := sortPairs_eq_of_perm _ _ hp.symm
  simp only [keyOf, h]


/-! ### Selection -/

def mkRows (scores : List Score) : List Row := (List.zipIdx scores).map (fun x => (x.2, x.1))

theorem mkRows_lt (scores : List Score) : ∀ r ∈ mkRows scores, r.1 < scores.length := by
  intro r hr
  simp only [mkRows, List.mem_map] at hr
  obtain ⟨x, hx, rfl⟩ := hr
  obtain ⟨a, k⟩ := x
  have := List.mem_zipIdx hx
  simp at this ⊢
  omega

theorem mkRows_ne_nil (scores : List Score) (h : scores ≠ []) : mkRows scores ≠ [] := by
  cases scores with
  | nil => exact absurd rfl h
  | cons a l => simp [mkRows, List.zipIdx_cons]

theorem getD_sub {rows : List Row} (l : List (List Row)) (i : Nat)
    (h : ∀ b ∈ l, ∀ r ∈ b, r ∈ rows) : ∀ r ∈ l.getD i [], r ∈ rows := by
  intro r hr
  rw [List.getD_eq_getElem?_getD] at hr
  cases hi : l[i]? with
  | none => simp [hi] at hr
  | some b =>
    simp only [hi, Option.getD_some] at hr
    exact h b (List.mem_of_getElem? hi) r hr

theorem bands_sub (p : SelParams) (rows : List Row) : ∀ b ∈ bands p rows, ∀ r ∈ b, r ∈ rows := by
  intro b hb r hr
  simp only [bands, List.mem_append, List.mem_map, List.mem_cons,
    List.not_mem_nil, or_false] at hb
  rcases hb with (rfl | ⟨l, _, rfl⟩) | rfl
  · exact (List.mem_filter.1 hr).1
  · exact (List.mem_filter.1 hr).1
  · exact hr

theorem areas_sub (p : SelParams) (byInf : Bool) (rows : List Row) :
    ∀ a ∈ areas p byInf rows, ∀ r ∈ a, r ∈ rows := by
  intro a ha r hr
  have h0 := getD_sub (bands p rows) 0 (bands_sub p rows)
  have h1 := getD_sub (bands p rows) 1 (bands_sub p rows)
  simp only [areas, List.mem_append, List.mem_flatMap] at ha
  rcases ha with ha | ⟨bi, hbi, ha⟩
  · cases byInf <;>
      simp only [if_true, if_false, Bool.false_eq_true, List.mem_cons, List.not_mem_nil, or_false] at ha <;>
      rcases ha with rfl | rfl | rfl | rfl | rfl | rfl | rfl | rfl <;>
      first
        | exact h0 r (List.mem_filter.1 hr).1
        | exact h1 r (List.mem_filter.1 hr).1
        | exact h0 r hr
        | exact h1 r hr
  · have hb := bands_sub p rows bi (List.mem_of_mem_drop hbi)
    simp only [List.mem_cons, List.not_mem_nil, or_false] at ha
    rcases ha with rfl | rfl | rfl | rfl
    · exact hb r (List.mem_filter.1 hr).1
    · exact hb r (List.mem_filter.1 hr).1
    · exact hb r (List.mem_filter.1 hr).1
    · exact hb r hr

theorem argBest_mem {α} (better : α → α → Bool) (l : List α) (x : α)
    (h : argBest better l = some x) : x ∈ l := by
  induction l generalizing x with
  | nil => simp [argBest] at h
  | cons y ys ih =>
    simp only [argBest] at h
    cases hr : argBest better ys with
    | none =>
      simp only [hr] at h
      cases h; exact List.mem_cons_self
    | some z =>
      simp only [hr] at h
      split at h
      · cases h; exact List.mem_cons_of_mem _ (ih _ hr)
      · cases h; exact List.mem_cons_self

theorem argBest_isSome {α} (better : α → α → Bool) (l : List α) (h : l ≠ []) :
    ∃ x, argBest better l = some x := by
  cases l with
  | nil => exact absurd rfl h
  | cons y ys =>
    simp only [argBest]
    cases argBest better ys with
    | none => exact ⟨_, rfl⟩
    | some z =>
      simp only
      split
      · exact ⟨_, rfl⟩
      · exact ⟨_, rfl⟩

theorem bestWithin_mem (byInf : Bool) (a : List Row) (i : Nat) (h : bestWithin byInf a = some i) :
    ∃ r ∈ a, r.1 = i := by
  unfold bestWithin at h
  cases byInf with
  | true =>
    simp only [if_true] at h
    split at h
    · cases h
    · rcases Option.map_eq_some_iff.1 h with ⟨r, hr, rfl⟩
      exact ⟨r, (List.mem_filter.1 (argBest_mem _ _ _ hr)).1, rfl⟩
  | false =>
    simp only [Bool.false_eq_true, if_false] at h
    split at h
    · cases h
    · rcases Option.map_eq_some_iff.1 h with ⟨r, hr, rfl⟩
      exact ⟨r, (List.mem_filter.1 (List.mem_filter.1 (argBest_mem _ _ _ hr)).1).1, rfl⟩

theorem firstArea_cons_some (byInf : Bool) (np : Option Nat) (a : List Row) (rest : List (List Row))
    (k i : Nat) (h : firstArea byInf np k (a :: rest) = some i) :
    firstArea byInf np (k + 1) rest = some i ∨ bestWithin byInf a = some i := by
  cases np with
  | none =>
    simp only [firstArea, Bool.false_eq_true, if_false] at h
    by_cases he : a.isEmpty = true
    · rw [if_pos he] at h; exact Or.inl h
    · rw [if_neg he] at h; exact Or.inr h
  | some n =>
    simp only [firstArea] at h
    by_cases hc : decide (n ≤ k) = true
    · rw [if_pos hc] at h; cases h
    · rw [if_neg hc] at h
      by_cases he : a.isEmpty = true
      · rw [if_pos he] at h; exact Or.inl h
      · rw [if_neg he] at h; exact Or.inr h

theorem firstArea_mem (byInf : Bool) (np : Option Nat) (as : List (List Row)) :
    ∀ (k i : Nat), firstArea byInf np k as = some i → ∃ a ∈ as, bestWithin byInf a = some i := by
  induction as with
  | nil => intro k i h; simp [firstArea] at h
  | cons a rest ih =>
    intro k i h
    rcases firstArea_cons_some _ _ _ _ _ _ h with h | h
    · obtain ⟨a', ha', h'⟩ := ih _ _ h
      exact ⟨a', List.mem_cons_of_mem _ ha', h'⟩
    · exact ⟨a, List.mem_cons_self, h⟩

theorem getBest_lt (p : SelParams) (scores : List Score) (byInf : Bool) (np : Option Nat) (i : Nat)
    (h : getBest p scores byInf np = some i) : i < scores.length := by
  unfold getBest at h
  split at h
  · cases h
  · obtain ⟨a, ha, hb⟩ := firstArea_mem _ _ _ _ _ h
    obtain ⟨r, hr, rfl⟩ := bestWithin_mem _ _ _ hb
    exact mkRows_lt scores r (areas_sub p byInf _ a ha r hr)

theorem bestWithin_true_isSome (a : List Row) (h : a ≠ []) : ∃ i, bestWithin true a = some i := by
  unfold bestWithin
  simp only [if_true]
  obtain ⟨m, hm⟩ := argBest_isSome (fun a b : Row => decide (a.2.impRatio < b.2.impRatio)) a h
  rw [hm]
  simp only
  have hmem : m ∈ a.filter (fun r => r.2.impRatio == m.2.impRatio) :=
    List.mem_filter.2 ⟨argBest_mem _ _ _ hm, by simp⟩
  obtain ⟨x, hx⟩ := argBest_isSome (fun a b : Row => decide (a.2.infIdx > b.2.infIdx)) _
    (List.ne_nil_of_mem hmem)
  exact ⟨x.1, by rw [hx]; rfl⟩

theorem firstArea_true_none_isSome (as : List (List Row)) :
    ∀ (k : Nat), (∃ a ∈ as, a ≠ []) → ∃ i, firstArea true none k as = some i := by
  induction as with
  | nil => intro k ⟨a, ha, _⟩; cases ha
  | cons a rest ih =>
    intro k ⟨a', ha', hne⟩
    simp only [firstArea, Bool.false_eq_true, if_false]
    split
    · rename_i hemp
      apply ih
      rcases List.mem_cons.1 ha' with rfl | ha'
      · exact absurd (List.isEmpty_iff.1 hemp) hne
      · exact ⟨a', ha', hne⟩
    · rename_i hemp
      apply bestWithin_true_isSome
      intro h0; exact hemp (List.isEmpty_iff.2 h0)

theorem rows_mem_areas (p : SelParams) (rows : List Row) : rows ∈ areas p true rows := by
  obtain ⟨one, limits, mc⟩ := p
  cases limits with
  | nil => simp [areas, bands]
  | cons l ls =>
    simp only [areas, bands, List.mem_append, List.mem_flatMap]
    right
    refine ⟨rows, ?_, by simp⟩
    simp

theorem getBest_true_none (p : SelParams) (scores : List Score) (h : scores ≠ []) :
    ∃ i, getBest p scores true none = some i ∧ i < scores.length := by
  have : ∃ i, getBest p scores true none = some i := by
    unfold getBest
    rw [if_neg (by simpa using h)]
    apply firstArea_true_none_isSome
    exact ⟨_, rows_mem_areas p _, mkRows_ne_nil scores h⟩
  obtain ⟨i, hi⟩ := this
  exact ⟨i, hi, getBest_lt _ _ _ _ _ hi⟩

theorem selectStaged_isSome (p : SelParams) (stages : List (List Score × Bool × Option Nat)) (final : List Score)
    (h : final ≠ []) : ∃ i, selectStaged p stages final = some i := by
  induction stages with
  | nil =>
    obtain ⟨i, hi, _⟩ := getBest_true_none p final h
    exact ⟨i, hi⟩
  | cons st rest ih =>
    obtain ⟨sc, byInf, np⟩ := st
    simp only [selectStaged]
    cases getBest p sc byInf np with
    | none => exact ih
    | some i => exact ⟨i, rfl⟩

end Adsg
