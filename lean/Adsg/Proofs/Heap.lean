/- Helper lemmas for the heap model (C08). -/
import Adsg.Model.Heap
namespace Adsg.Heap
open Adsg

theorem get_set_same (c : Cells) (g : Nat) (d : Deg) : (c.set g d).get g = some d := by
  simp [Cells.set, Cells.get]

theorem get_set_other (c : Cells) (g g' : Nat) (d : Deg) (h : g' ≠ g) : (c.set g d).get g' = c.get g' := by
  have hne : (g == g') = false := by simpa using fun e => h e.symm
  simp only [Cells.set, Cells.get, List.find?_cons, hne, List.find?_filter]
  congr 2
  funext p
  by_cases hp : p.1 = g'
  · simp [hp, h]
  · have : (p.1 == g') = false := by simpa using hp
    simp [this]

/-- After synchronising to a list of groups, the cell of a node that is among the groups does not
    depend on the cells before. -/
theorem foldl_get_congr (l : List (Nat × List Deg)) (c c' : Cells) (g : Nat)
    (h : (l.any (·.1 == g)) = true ∨ c.get g = c'.get g) :
    (l.foldl (fun c p => c.set p.1 (combinedDeg p.2)) c).get g =
    (l.foldl (fun c p => c.set p.1 (combinedDeg p.2)) c').get g := by
  induction l generalizing c c' with
  | nil => simpa using h
  | cons p ps ih =>
    simp only [List.foldl_cons]
    apply ih
    by_cases hp : p.1 = g
    · right; subst hp; rw [get_set_same, get_set_same]
    · rcases h with h | h
      · left; simpa [List.any_cons, hp] using h
      · right; rw [get_set_other _ _ _ _ (Ne.symm hp), get_set_other _ _ _ _ (Ne.symm hp)]; exact h

theorem sync_get_own (o : Own) (c c' : Cells) (g : Nat) (h : (o.groups.any (·.1 == g)) = true) :
    (sync o c).get g = (sync o c').get g :=
  foldl_get_congr o.groups c c' g (Or.inl h)

theorem all_congr_mem {α} (l : List α) (f g : α → Bool) (h : ∀ x ∈ l, f x = g x) : l.all f = l.all g := by
  induction l with
  | nil => rfl
  | cons x xs ih =>
    simp only [List.all_cons]
    rw [h x List.mem_cons_self, ih (fun y hy => h y (List.mem_cons_of_mem _ hy))]

theorem degOK_sync_own (o : Own) (hw : o.WF = true) (c c' : Cells) :
    degOK o (sync o c) = degOK o (sync o c') := by
  unfold degOK
  apply all_congr_mem
  intro p hp
  have : (o.groups.any (·.1 == p.1)) = true := by
    have := List.all_eq_true.1 hw p hp
    simpa using this
  rw [sync_get_own o c c' p.1 this]

theorem runWith_cons (st : World → Act → World × Obs) (w : World) (a : Act) (as : List Act) :
    runWith st w (a :: as) = ((runWith st (st w a).1 as).1, (st w a).2 :: (runWith st (st w a).1 as).2) := rfl

theorem step_objs_prefix (w : World) (a : Act) : ∀ i, i < w.objs.length → (step w a).1.objs[i]? = w.objs[i]? := by
  intro i hi
  cases a with
  | derive src nw =>
    simp only [step]
    split
    · simp [List.getElem?_append_left hi]
    · rfl
  | look j =>
    simp only [step]
    split <;> rfl

theorem step_objs_length (w : World) (a : Act) : w.objs.length ≤ (step w a).1.objs.length := by
  cases a with
  | derive src nw => simp only [step]; split <;> simp
  | look j => simp only [step]; split <;> simp

theorem step_wf (w : World) (a : Act) (hw : ∀ o ∈ w.objs, o.WF = true)
    (ha : ∀ src nw, a = .derive src nw → nw.WF = true) : ∀ o ∈ (step w a).1.objs, o.WF = true := by
  cases a with
  | derive src nw =>
    simp only [step]
    split
    · intro o ho
      rcases List.mem_append.1 ho with h | h
      · exact hw o h
      · simp at h; rw [h]; exact ha src nw rfl
    · exact hw
  | look j => simp only [step]; split <;> exact hw

/-- **Looks are pure**: whatever happened before, a look at an object that exists reports the pure
    function of what that object owns. -/
theorem looks_pure (acts : List Act) : ∀ (w : World), (∀ o ∈ w.objs, o.WF = true) →
    (∀ src nw, Act.derive src nw ∈ acts → nw.WF = true) →
    ∀ (i : Nat) (o : Own), w.objs[i]? = some o → ∀ k : Nat, acts[k]? = some (Act.look i) →
      (run w acts).2[k]? = some (some (pureObs o)) := by
  induction acts with
  | nil => intro w _ _ i o _ k hk; simp at hk
  | cons a as ih =>
    intro w hw ha i o hio k hk
    have hlt : i < w.objs.length := by
      rcases Nat.lt_or_ge i w.objs.length with h | h
      · exact h
      · rw [List.getElem?_eq_none h] at hio; cases hio
    show (runWith step w (a :: as)).2[k]? = _
    rw [runWith_cons]
    cases k with
    | zero =>
      simp only [List.getElem?_cons_zero, Option.some.injEq] at hk
      subst hk
      simp only [List.getElem?_cons_zero, step, hio]
      simp only [pureObs]
      rw [degOK_sync_own o (hw o (List.mem_of_getElem? hio)) w.cells []]
    | succ k =>
      simp only [List.getElem?_cons_succ] at hk ⊢
      exact ih (step w a).1
        (step_wf w a hw (fun src nw h => ha src nw (by rw [h]; exact List.mem_cons_self)))
        (fun src nw h => ha src nw (List.mem_cons_of_mem _ h))
        i o (by rw [step_objs_prefix w a i hlt]; exact hio) k hk

end Adsg.Heap
