/- Helper lemmas about Adsg/Model/Design.lean. -/
import Adsg.Model.Design
import Adsg.Proofs.Closure
import Adsg.Proofs.Steps
import Adsg.Proofs.ConnGraph
import Mathlib.Data.List.Nodup
import Mathlib.Data.List.Forall2
namespace Adsg

theorem nodup_dedup {α} [BEq α] [LawfulBEq α] (l : List α) : (dedup l).Nodup := by
  induction l with
  | nil => simp [dedup]
  | cons x xs ih =>
    simp only [dedup]
    split
    · exact ih
    · rename_i h
      exact List.nodup_cons.2 ⟨by simpa using h, ih⟩

/-! ### prodL -/

theorem mem_prodL {α} : ∀ (ls : List (List α)) (v : List α),
    v ∈ prodL ls ↔ List.Forall₂ (fun x l => x ∈ l) v ls
  | [], v => by simp [prodL]
  | l :: ls, v => by
    simp only [prodL, List.mem_flatMap, List.mem_map]
    constructor
    · rintro ⟨x, hx, w, hw, rfl⟩
      exact List.Forall₂.cons hx ((mem_prodL ls w).1 hw)
    · intro h
      cases h with
      | cons hx hw => exact ⟨_, hx, _, (mem_prodL ls _).2 hw, rfl⟩

/-- membership in a product of `f`-images, in the `range/all/getD/contains` form of `validDesign` -/
theorem mem_prodL_map_iff {α β} [BEq β] [LawfulBEq β] [Inhabited α] (f : α → List β) (xs : List α)
    (v : List β) (dflt : β) :
    v ∈ prodL (xs.map f) ↔
      (v.length == xs.length) = true ∧
        (List.range xs.length).all (fun k => (f (xs.getD k default)).contains (v.getD k dflt)) = true := by
  rw [mem_prodL, List.forall₂_iff_get]
  simp only [List.length_map, beq_iff_eq, List.all_eq_true, List.mem_range,
    List.contains_iff_mem]
  constructor
  · rintro ⟨hl, h⟩
    refine ⟨hl, fun k hk => ?_⟩
    have := h k (hl ▸ hk) hk
    simpa [List.getD_eq_getElem?_getD, List.getElem?_eq_getElem hk,
      List.getElem?_eq_getElem (hl ▸ hk : k < v.length)] using this
  · rintro ⟨hl, h⟩
    refine ⟨hl, fun k hk1 hk2 => ?_⟩
    have := h k hk2
    simpa [List.getD_eq_getElem?_getD, List.getElem?_eq_getElem hk2,
      List.getElem?_eq_getElem hk1] using this

theorem foldl_mul_acc (l : List Nat) (a : Nat) : l.foldl (· * ·) a = a * l.foldl (· * ·) 1 := by
  induction l generalizing a with
  | nil => simp
  | cons x xs ih =>
    simp only [List.foldl_cons, Nat.one_mul]
    rw [ih (a * x), ih x, Nat.mul_assoc]

theorem prodNat_cons (x : Nat) (l : List Nat) : prodNat (x :: l) = x * prodNat l := by
  simp only [prodNat, List.foldl_cons, Nat.one_mul]
  exact foldl_mul_acc l x

theorem length_flatMap_map_cons {α} (l : List α) (L : List (List α)) :
    (l.flatMap (fun x => L.map (x :: ·))).length = l.length * L.length := by
  induction l with
  | nil => simp
  | cons x xs ih =>
    simp only [List.flatMap_cons, List.length_append, List.length_map, ih, List.length_cons]
    rw [Nat.succ_mul, Nat.add_comm]

theorem length_prodL {α} : ∀ (ls : List (List α)), (prodL ls).length = prodNat (ls.map List.length)
  | [] => rfl
  | l :: ls => by
    rw [prodL, length_flatMap_map_cons, length_prodL ls, List.map_cons, prodNat_cons]

theorem nodup_prodL {α} : ∀ (ls : List (List α)), (∀ l ∈ ls, l.Nodup) → (prodL ls).Nodup
  | [], _ => by simp [prodL]
  | l :: ls, h => by
    rw [prodL, List.nodup_flatMap]
    have hl : l.Nodup := h l (by simp)
    have ih := nodup_prodL ls (fun l' hl' => h l' (by simp [hl']))
    refine ⟨fun x _ => ih.map (fun a b hab => (List.cons.inj hab).2), ?_⟩
    refine hl.pairwise_of_forall_ne (fun a _ b _ hab => ?_)
    simp only [Function.onFun]
    rw [List.disjoint_left]
    intro v hv1 hv2
    rw [List.mem_map] at hv1 hv2
    obtain ⟨w1, _, rfl⟩ := hv1
    obtain ⟨w2, _, h2⟩ := hv2
    exact hab (List.cons.inj h2).1.symm


/-! ### only membership in the node set matters -/

theorem connSets_congr (X Y : List Node) (h : ∀ v, X.contains v = Y.contains v) (k : ConnChoice) :
    connSets X k = connSets Y k := by
  simp only [connSets, settingsIn, existenceOf, overrideOf, Connector.repIn, h]

theorem dvChoices_congr (X Y : List Node) (h : ∀ v, X.contains v = Y.contains v) (d : DVNodeSpec) :
    dvChoices X d = dvChoices Y d := by
  simp only [dvChoices, h]

theorem contains_congr_of_mem (X Y : List Node) (h : ∀ v, v ∈ X ↔ v ∈ Y) (v : Node) :
    X.contains v = Y.contains v := by
  rw [Bool.eq_iff_iff, List.contains_iff_mem, List.contains_iff_mem]; exact h v

/-! ### rows of admissible assignments -/

theorem row_getElem? (g : DSG) (a : Assign) (c : Nat) (hc : c < g.sel.length) :
    (row g a)[c]? = some (if (activeChoices g a).contains c then a.get c else none) := by
  simp [row, hc]

/-- An admissible assignment agrees on its active choices with every assignment of the same row. -/
theorem agree_of_row_eq (g : DSG) (a b : Assign) (hadm : admissible g a = true)
    (hrow : row g a = row g b) : ∀ c ∈ activeChoices g a, a.get c = b.get c := by
  intro c hc
  have hlt := lt_of_mem_activeChoices g a c hc
  have hres := ((admissible_split g a).1 hadm).1
  rw [activeResolved, List.all_eq_true] at hres
  obtain ⟨k, hk⟩ := selectedOpt_isSome_get g a c (hres c hc)
  have h1 := row_getElem? g a c hlt
  have h2 := row_getElem? g b c hlt
  rw [hrow, h2] at h1
  have hca : (activeChoices g a).contains c = true := by simpa using hc
  rw [hca, if_pos rfl, hk] at h1
  rw [hk]
  have h3 := Option.some.inj h1
  split at h3
  · exact h3.symm
  · cases h3

theorem closure_congr_of_row_eq (g : DSG) (hw : g.WF = true) (a b : Assign)
    (hadm : admissible g a = true) (hrow : row g a = row g b) (v : Node) :
    (closure g a).contains v = (closure g b).contains v :=
  contains_congr_of_mem _ _ (mem_closure_congr_active g hw a b (agree_of_row_eq g a b hadm hrow)) v

/-! ### representatives -/

theorem filterMap_find_rows (g : DSG) (l : List Assign) (rs : List (List (Option Nat)))
    (h : ∀ r ∈ rs, ∃ a ∈ l, row g a = r) :
    (rs.filterMap (fun r => l.find? (fun a => row g a == r))).map (row g) = rs := by
  induction rs with
  | nil => rfl
  | cons r rs ih =>
    obtain ⟨a, ha, hr⟩ := h r (by simp)
    have hsome : (l.find? (fun a => row g a == r)).isSome = true :=
      List.find?_isSome.2 ⟨a, ha, by simp [hr]⟩
    obtain ⟨a', ha'⟩ := Option.isSome_iff_exists.1 hsome
    have hr' : row g a' = r := by simpa using List.find?_some ha'
    rw [List.filterMap_cons, ha']
    simp only [List.map_cons, hr', ih (fun r' hr' => h r' (by simp [hr']))]

theorem repAssigns_rows' (g : DSG) : (repAssigns g).map (row g) = allRows g := by
  unfold repAssigns
  apply filterMap_find_rows
  intro r hr
  obtain ⟨a, ha, hadm, hrow⟩ := (mem_allRows_iff g r).1 hr
  exact ⟨a, List.mem_filter.2 ⟨ha, hadm⟩, hrow⟩

theorem repAssigns_admissible' (g : DSG) (a : Assign) (h : a ∈ repAssigns g) :
    a ∈ allAssigns g ∧ admissible g a = true := by
  unfold repAssigns at h
  rw [List.mem_filterMap] at h
  obtain ⟨r, _, hf⟩ := h
  exact List.mem_filter.1 (List.mem_of_find?_eq_some hf)

theorem repAssigns_rows_nodup (g : DSG) : ((repAssigns g).map (row g)).Nodup := by
  rw [repAssigns_rows']; exact nodup_dedup _

/-! ### designs -/

theorem length_flatMap_map {α β γ} (f : α → β → γ) (l : List α) (L : List β) :
    (l.flatMap (fun x => L.map (f x))).length = l.length * L.length := by
  induction l with
  | nil => simp
  | cons x xs ih =>
    simp only [List.flatMap_cons, List.length_append, List.length_map, ih, List.length_cons]
    rw [Nat.succ_mul, Nat.add_comm]

theorem mem_designsOf (P : Problem) (a : Assign) (d : Design) :
    d ∈ designsOf P a ↔ d.row = row P.g a ∧
      d.mats ∈ prodL (P.conn.map (connSets (closure P.g a))) ∧
      d.dvals ∈ prodL (P.dvs.map (dvChoices (closure P.g a))) := by
  simp only [designsOf, List.mem_flatMap, List.mem_map]
  constructor
  · rintro ⟨ms, hms, dv, hdv, rfl⟩
    exact ⟨rfl, hms, hdv⟩
  · rintro ⟨h1, h2, h3⟩
    refine ⟨d.mats, h2, d.dvals, h3, ?_⟩
    cases d; simp_all

theorem validDesign_iff (P : Problem) (d : Design) :
    validDesign P d = true ↔ ∃ a ∈ allAssigns P.g, admissible P.g a = true ∧ row P.g a = d.row ∧
      d.mats ∈ prodL (P.conn.map (connSets (closure P.g a))) ∧
      d.dvals ∈ prodL (P.dvs.map (dvChoices (closure P.g a))) := by
  simp only [validDesign, List.any_eq_true, List.mem_filter, Bool.and_eq_true]
  constructor
  · rintro ⟨a, ⟨ha, hadm⟩, ⟨⟨⟨⟨hr, h1⟩, h2⟩, h3⟩, h4⟩⟩
    exact ⟨a, ha, hadm, by simpa using hr,
      (mem_prodL_map_iff _ _ _ []).2 ⟨h1, h2⟩, (mem_prodL_map_iff _ _ _ none).2 ⟨h3, h4⟩⟩
  · rintro ⟨a, ha, hadm, hr, hm, hv⟩
    have hm' := (mem_prodL_map_iff _ _ _ []).1 hm
    have hv' := (mem_prodL_map_iff _ _ _ none).1 hv
    exact ⟨a, ⟨ha, hadm⟩, ⟨⟨⟨⟨by simpa using hr, hm'.1⟩, hm'.2⟩, hv'.1⟩, hv'.2⟩⟩

theorem design_valid_aux (P : Problem) (d : Design) (h : d ∈ allDesigns P) :
    validDesign P d = true := by
  simp only [allDesigns, List.mem_flatMap] at h
  obtain ⟨a, ha, hd⟩ := h
  obtain ⟨hr, hm, hv⟩ := (mem_designsOf P a d).1 hd
  obtain ⟨ha1, ha2⟩ := repAssigns_admissible' P.g a ha
  exact (validDesign_iff P d).2 ⟨a, ha1, ha2, hr.symm, hm, hv⟩

theorem design_complete_aux (P : Problem) (hw : P.g.WF = true) (d : Design)
    (h : validDesign P d = true) : d ∈ allDesigns P := by
  obtain ⟨b, hb, hadm, hr, hm, hv⟩ := (validDesign_iff P d).1 h
  have hrow : d.row ∈ (repAssigns P.g).map (row P.g) := by
    rw [repAssigns_rows', mem_allRows_iff]; exact ⟨b, hb, hadm, hr⟩
  obtain ⟨a, ha, har⟩ := List.mem_map.1 hrow
  have hcl := closure_congr_of_row_eq P.g hw b a hadm (hr.trans har.symm)
  have e1 : connSets (closure P.g b) = connSets (closure P.g a) :=
    funext (connSets_congr _ _ hcl)
  have e2 : dvChoices (closure P.g b) = dvChoices (closure P.g a) :=
    funext (dvChoices_congr _ _ hcl)
  rw [e1] at hm
  rw [e2] at hv
  simp only [allDesigns, List.mem_flatMap]
  exact ⟨a, ha, (mem_designsOf P a d).2 ⟨har.symm, hm, hv⟩⟩

theorem nodup_dvValues (dom : DVDom) : dom.values.Nodup := by
  cases dom with
  | discrete n =>
    exact (List.nodup_range).map (fun a b h => Int.ofNat.inj h)
  | cont lo hi => simp [DVDom.values]

theorem nodup_dvChoices (X : List Node) (d : DVNodeSpec) : (dvChoices X d).Nodup := by
  unfold dvChoices
  split
  · exact (nodup_dvValues d.dom).map (fun a b h => Option.some.inj h)
  · simp

theorem nodup_designsOf (P : Problem) (a : Assign) : (designsOf P a).Nodup := by
  have h1 : (prodL (P.conn.map (connSets (closure P.g a)))).Nodup := by
    apply nodup_prodL
    intro l hl
    obtain ⟨k, _, rfl⟩ := List.mem_map.1 hl
    exact nodup_enumSpec' _ _
  have h2 : (prodL (P.dvs.map (dvChoices (closure P.g a)))).Nodup := by
    apply nodup_prodL
    intro l hl
    obtain ⟨k, _, rfl⟩ := List.mem_map.1 hl
    exact nodup_dvChoices _ _
  simp only [designsOf]
  rw [List.nodup_flatMap]
  refine ⟨fun ms _ => h2.map (fun x y h => by injection h), ?_⟩
  refine h1.pairwise_of_forall_ne (fun x _ y _ hxy => ?_)
  simp only [Function.onFun]
  rw [List.disjoint_left]
  intro d hd1 hd2
  obtain ⟨_, _, rfl⟩ := List.mem_map.1 hd1
  obtain ⟨_, _, h⟩ := List.mem_map.1 hd2
  injection h with _ hm _
  exact hxy hm.symm

theorem allDesigns_nodup_aux (P : Problem) : (allDesigns P).Nodup := by
  simp only [allDesigns]
  rw [List.nodup_flatMap]
  refine ⟨fun a _ => nodup_designsOf P a, ?_⟩
  have h := repAssigns_rows_nodup P.g
  rw [List.Nodup, List.pairwise_map] at h
  refine h.imp ?_
  intro a b hab
  simp only [Function.onFun]
  rw [List.disjoint_left]
  intro d hd1 hd2
  exact hab (((mem_designsOf P a d).1 hd1).1.symm.trans ((mem_designsOf P b d).1 hd2).1)

theorem length_designsOf (P : Problem) (a : Assign) :
    (designsOf P a).length =
      prodNat (P.conn.map (fun k => (connSets (closure P.g a) k).length)) *
      prodNat (P.dvs.map (fun d => (dvChoices (closure P.g a) d).length)) := by
  simp only [designsOf]
  rw [length_flatMap_map, length_prodL, length_prodL, List.map_map, List.map_map]
  rfl

theorem nValid_eq_formula_aux (P : Problem) : nValid P = nValidFormula P := by
  simp only [nValid, allDesigns, nValidFormula, List.length_flatMap, length_designsOf]

end Adsg
