/- Helper lemmas about Adsg/Model/Identity.lean. -/
import Adsg.Model.Identity
namespace Adsg

/-! ### `sortN` is a canonical form for permutations -/

theorem insNat_perm (x : Nat) (l : List Nat) : (insNat x l).Perm (x :: l) := by
  induction l with
  | nil => exact List.Perm.refl _
  | cons y ys ih =>
    simp only [insNat]
    split
    · exact List.Perm.refl _
    · exact (List.Perm.cons y ih).trans (List.Perm.swap x y ys)

theorem sortN_perm (l : List Nat) : (sortN l).Perm l := by
  induction l with
  | nil => exact List.Perm.refl _
  | cons x xs ih =>
    show (insNat x (sortN xs)).Perm (x :: xs)
    exact (insNat_perm x _).trans (List.Perm.cons x ih)

theorem insNat_sorted (x : Nat) (l : List Nat) (h : l.Pairwise (· ≤ ·)) :
    (insNat x l).Pairwise (· ≤ ·) := by
  induction l with
  | nil => simp [insNat]
  | cons y ys ih =>
    simp only [insNat]
    split
    · rename_i hxy
      refine List.Pairwise.cons ?_ h
      intro z hz
      rcases List.mem_cons.1 hz with rfl | hz
      · exact hxy
      · exact Nat.le_trans hxy (List.rel_of_pairwise_cons h hz)
    · rename_i hxy
      refine List.Pairwise.cons ?_ (ih h.tail)
      intro z hz
      have hz' := (insNat_perm x ys).subset hz
      rcases List.mem_cons.1 hz' with rfl | hz'
      · omega
      · exact List.rel_of_pairwise_cons h hz'

theorem sortN_sorted (l : List Nat) : (sortN l).Pairwise (· ≤ ·) := by
  induction l with
  | nil => simp [sortN]
  | cons x xs ih => exact insNat_sorted x _ ih

theorem sortN_eq_iff (a b : List Nat) : sortN a = sortN b ↔ a.Perm b := by
  constructor
  · intro h
    exact (sortN_perm a).symm.trans (h ▸ sortN_perm b)
  · intro h
    refine List.Perm.eq_of_pairwise (le := (· ≤ ·)) (fun x y _ _ h1 h2 => Nat.le_antisymm h1 h2)
      (sortN_sorted a) (sortN_sorted b) ?_
    exact (sortN_perm a).trans (h.trans (sortN_perm b).symm)

/-! ### the same for `sortE` with the lexicographic order `leE` -/

theorem leE_total (a b : Nat × Nat × Nat) : leE a b = false → leE b a = true := by
  obtain ⟨a1, a2, a3⟩ := a
  obtain ⟨b1, b2, b3⟩ := b
  simp only [leE, Bool.or_eq_false_iff, Bool.and_eq_false_iff, Bool.or_eq_true, Bool.and_eq_true,
    decide_eq_true_eq, decide_eq_false_iff_not, beq_iff_eq, beq_eq_false_iff_ne]
  omega

theorem leE_trans (a b c : Nat × Nat × Nat) : leE a b = true → leE b c = true → leE a c = true := by
  obtain ⟨a1, a2, a3⟩ := a
  obtain ⟨b1, b2, b3⟩ := b
  obtain ⟨c1, c2, c3⟩ := c
  simp only [leE, Bool.or_eq_true, Bool.and_eq_true, decide_eq_true_eq, beq_iff_eq]
  omega

theorem leE_antisymm (a b : Nat × Nat × Nat) : leE a b = true → leE b a = true → a = b := by
  obtain ⟨a1, a2, a3⟩ := a
  obtain ⟨b1, b2, b3⟩ := b
  simp only [leE, Bool.or_eq_true, Bool.and_eq_true, decide_eq_true_eq, beq_iff_eq, Prod.mk.injEq]
  omega

theorem insE_perm (x : Nat × Nat × Nat) (l : List (Nat × Nat × Nat)) : (insE x l).Perm (x :: l) := by
  induction l with
  | nil => exact List.Perm.refl _
  | cons y ys ih =>
    simp only [insE]
    split
    · exact List.Perm.refl _
    · exact (List.Perm.cons y ih).trans (List.Perm.swap x y ys)

theorem sortE_perm (l : List (Nat × Nat × Nat)) : (sortE l).Perm l := by
  induction l with
  | nil => exact List.Perm.refl _
  | cons x xs ih =>
    show (insE x (sortE xs)).Perm (x :: xs)
    exact (insE_perm x _).trans (List.Perm.cons x ih)

theorem insE_sorted (x : Nat × Nat × Nat) (l : List (Nat × Nat × Nat))
    (h : l.Pairwise (fun a b => leE a b = true)) :
    (insE x l).Pairwise (fun a b => leE a b = true) := by
  induction l with
  | nil => simp [insE]
  | cons y ys ih =>
    simp only [insE]
    split
    · rename_i hxy
      refine List.Pairwise.cons ?_ h
      intro z hz
      rcases List.mem_cons.1 hz with rfl | hz
      · exact hxy
      · exact leE_trans _ _ _ hxy (List.rel_of_pairwise_cons h hz)
    · rename_i hxy
      refine List.Pairwise.cons ?_ (ih h.tail)
      intro z hz
      have hz' := (insE_perm x ys).subset hz
      rcases List.mem_cons.1 hz' with rfl | hz'
      · exact leE_total _ _ (by simpa using hxy)
      · exact List.rel_of_pairwise_cons h hz'

theorem sortE_sorted (l : List (Nat × Nat × Nat)) :
    (sortE l).Pairwise (fun a b => leE a b = true) := by
  induction l with
  | nil => simp [sortE]
  | cons x xs ih => exact insE_sorted x _ ih

theorem sortE_eq_iff (a b : List (Nat × Nat × Nat)) : sortE a = sortE b ↔ a.Perm b := by
  constructor
  · intro h
    exact (sortE_perm a).symm.trans (h ▸ sortE_perm b)
  · intro h
    refine List.Perm.eq_of_pairwise (le := fun a b => leE a b = true)
      (fun x y _ _ h1 h2 => leE_antisymm x y h1 h2) (sortE_sorted a) (sortE_sorted b) ?_
    exact (sortE_perm a).trans (h.trans (sortE_perm b).symm)

/-! ### equality of graphs -/

theorem eqG_iff_perm (a b : GS) :
    eqG a b = true ↔ a.nodes.Perm b.nodes ∧ a.edges.Perm b.edges ∧ a.start.Perm b.start ∧ a.cons = b.cons := by
  simp only [eqG, GS.canon, decide_eq_true_eq, Prod.mk.injEq, sortN_eq_iff, sortE_eq_iff]

theorem eqG_false_of_not (a b : GS)
    (h : ¬ (a.nodes.Perm b.nodes ∧ a.edges.Perm b.edges ∧ a.start.Perm b.start ∧ a.cons = b.cons)) :
    eqG a b = false := by
  rw [Bool.eq_false_iff]
  intro h'
  exact h ((eqG_iff_perm a b).1 h')

theorem eqG_symm (a b : GS) : eqG a b = eqG b a := by
  simp only [eqG]
  exact decide_eq_decide.2 eq_comm

end Adsg
