/- Helper lemmas about Adsg/Model/Conn.lean. -/
import Adsg.Model.Conn
import Mathlib.Data.List.Nodup
namespace Adsg

/-- pointwise `≤` with equal length -/
def LeCaps : List Nat → List Nat → Prop
  | [], [] => True
  | v :: vs, c :: cs => v ≤ c ∧ LeCaps vs cs
  | _, _ => False

/-! ### boundedComp -/

theorem mem_boundedComp' (caps : List Nat) : ∀ (n : Nat) (v : List Nat),
    v ∈ boundedComp n caps ↔ LeCaps v caps ∧ v.sum = n := by
  induction caps with
  | nil =>
    intro n v
    simp only [boundedComp]
    cases v with
    | nil =>
      by_cases h : n = 0
      · simp [h, LeCaps]
      · simp [h, LeCaps]; omega
    | cons a as => by_cases h : n = 0 <;> simp [h, LeCaps]
  | cons c cs ih =>
    intro n v
    simp only [boundedComp, List.mem_flatMap, List.mem_range, List.mem_map]
    constructor
    · rintro ⟨k, hk, w, hw, rfl⟩
      rw [ih] at hw
      obtain ⟨h1, h2⟩ := hw
      refine ⟨⟨by omega, h1⟩, ?_⟩
      simp [h2]; omega
    · cases v with
      | nil => simp [LeCaps]
      | cons a as =>
        rintro ⟨⟨h1, h2⟩, h3⟩
        simp at h3
        refine ⟨a, by omega, as, ?_, rfl⟩
        rw [ih]
        exact ⟨h2, by omega⟩

theorem nodup_boundedComp' (caps : List Nat) : ∀ n, (boundedComp n caps).Nodup := by
  induction caps with
  | nil => intro n; simp only [boundedComp]; split <;> simp
  | cons c cs ih =>
    intro n
    simp only [boundedComp]
    rw [List.nodup_flatMap]
    constructor
    · intro k _
      exact (ih (n - k)).map (fun a b h => by simpa using h)
    · apply List.Pairwise.imp_of_mem ?_ (List.nodup_range (n := min n c + 1))
      intro a b _ _ hab l hl1 hl2
      simp only [List.mem_map] at hl1 hl2
      obtain ⟨w1, _, rfl⟩ := hl1
      obtain ⟨w2, _, h⟩ := hl2
      simp at h
      exact hab h.1.symm


theorem LeCaps.length_eq : ∀ {v c : List Nat}, LeCaps v c → v.length = c.length
  | [], [], _ => rfl
  | _ :: _, _ :: _, h => by simp [LeCaps.length_eq h.2]
  | [], _ :: _, h => by simp [LeCaps] at h
  | _ :: _, [], h => by simp [LeCaps] at h

@[simp] theorem LeCaps_nil_nil : LeCaps [] [] ↔ True := by simp [LeCaps]
@[simp] theorem LeCaps_cons_cons (a b : Nat) (v c : List Nat) :
    LeCaps (a :: v) (b :: c) ↔ a ≤ b ∧ LeCaps v c := by simp [LeCaps]
@[simp] theorem LeCaps_nil_cons (b : Nat) (c : List Nat) : LeCaps [] (b :: c) ↔ False := by simp [LeCaps]
@[simp] theorem LeCaps_cons_nil (a : Nat) (v : List Nat) : LeCaps (a :: v) [] ↔ False := by simp [LeCaps]

theorem LeCaps_nil_right {v : List Nat} : LeCaps v [] ↔ v = [] := by cases v <;> simp
theorem LeCaps_nil_left {c : List Nat} : LeCaps [] c ↔ c = [] := by cases c <;> simp

/-- the row test of `leMat` -/
theorem leRow_iff : ∀ (r m : List Nat),
    ((r.length == m.length && (r.zip m).all (fun p => decide (p.1 ≤ p.2))) = true) ↔ LeCaps r m
  | [], [] => by simp
  | [], _ :: _ => by simp
  | _ :: _, [] => by simp
  | a :: r, b :: m => by
    have := leRow_iff r m
    simp only [Bool.and_eq_true, beq_iff_eq, List.all_eq_true, decide_eq_true_eq] at this
    simp only [List.length_cons, List.zip_cons_cons, List.all_cons, Bool.and_eq_true, beq_iff_eq,
      decide_eq_true_eq, List.all_eq_true, LeCaps_cons_cons, ← this]
    constructor
    · rintro ⟨h1, h2, h3⟩; exact ⟨h2, by omega, h3⟩
    · rintro ⟨h1, h2, h3⟩; exact ⟨by omega, h1, h3⟩

theorem mem_boxVecs : ∀ (caps v : List Nat), v ∈ boxVecs caps ↔ LeCaps v caps
  | [], v => by simp [boxVecs, LeCaps_nil_right]
  | c :: cs, v => by
    simp only [boxVecs, List.mem_flatMap, List.mem_range, List.mem_map]
    constructor
    · rintro ⟨k, hk, w, hw, rfl⟩
      exact ⟨by omega, (mem_boxVecs cs w).1 hw⟩
    · cases v with
      | nil => simp
      | cons a as =>
        rintro ⟨h1, h2⟩
        exact ⟨a, by omega, as, (mem_boxVecs cs as).2 h2, rfl⟩

theorem nodup_flatMap_cons {α β : Type} (l : List α) (hl : l.Nodup) (g : α → List (List β))
    (f : α → β) (hf : Function.Injective f) (hg : ∀ a ∈ l, (g a).Nodup) :
    (l.flatMap (fun a => (g a).map (f a :: ·))).Nodup := by
  rw [List.nodup_flatMap]
  constructor
  · intro k hk
    exact (hg k hk).map (fun a b h => by simpa using h)
  · apply List.Pairwise.imp_of_mem ?_ hl
    intro a b _ _ hab l hl1 hl2
    simp only [List.mem_map] at hl1 hl2
    obtain ⟨w1, _, rfl⟩ := hl1
    obtain ⟨w2, _, h⟩ := hl2
    simp at h
    exact hab (hf h.1.symm)

theorem nodup_boxVecs : ∀ (caps : List Nat), (boxVecs caps).Nodup
  | [] => by simp [boxVecs]
  | c :: cs => by
    simp only [boxVecs]
    exact nodup_flatMap_cons _ List.nodup_range (fun _ => boxVecs cs) id (fun _ _ h => h)
      (fun _ _ => nodup_boxVecs cs)

theorem leMat_cons_cons (r m : List Nat) (rs ms : Matrix) :
    leMat (r :: rs) (m :: ms) = true ↔ LeCaps r m ∧ leMat rs ms = true := by
  simp only [leMat]
  rw [Bool.and_eq_true, leRow_iff]

@[simp] theorem leMat_nil_nil : leMat [] [] = true := rfl
@[simp] theorem leMat_nil_cons (m : List Nat) (ms : Matrix) : leMat [] (m :: ms) = false := rfl
@[simp] theorem leMat_cons_nil (m : List Nat) (ms : Matrix) : leMat (m :: ms) [] = false := rfl

theorem mem_boxMats : ∀ (mx M : Matrix), M ∈ boxMats mx ↔ leMat M mx = true
  | [], M => by cases M <;> simp [boxMats]
  | r :: rs, M => by
    simp only [boxMats, List.mem_flatMap, List.mem_map, mem_boxVecs]
    constructor
    · rintro ⟨v, hv, N, hN, rfl⟩
      exact (leMat_cons_cons ..).2 ⟨hv, (mem_boxMats rs N).1 hN⟩
    · cases M with
      | nil => simp
      | cons a as =>
        rw [leMat_cons_cons]
        rintro ⟨h1, h2⟩
        exact ⟨a, h1, as, (mem_boxMats rs as).2 h2, rfl⟩

theorem nodup_boxMats : ∀ (mx : Matrix), (boxMats mx).Nodup
  | [] => by simp [boxMats]
  | r :: rs => by
    simp only [boxMats]
    exact nodup_flatMap_cons _ (nodup_boxVecs r) (fun _ => boxMats rs) id (fun _ _ h => h)
      (fun _ _ => nodup_boxMats rs)

theorem validMatrix_leMat {s : ConnSettings} {e : Existence} {M : Matrix}
    (h : validMatrix s e M = true) : leMat M (maxMat s e) = true := by
  simp only [validMatrix, Bool.and_eq_true] at h
  exact h.1.1

theorem mem_enumSpec (s : ConnSettings) (e : Existence) (M : Matrix) :
    M ∈ enumSpec s e ↔ validMatrix s e M = true := by
  simp only [enumSpec, List.mem_filter, mem_boxMats]
  exact ⟨fun h => h.2, fun h => ⟨validMatrix_leMat h, h⟩⟩

theorem nodup_enumSpec' (s : ConnSettings) (e : Existence) : (enumSpec s e).Nodup :=
  (nodup_boxMats _).filter _


/-! ### vectors -/

theorem LeCaps_minVec : ∀ (v a b : List Nat), a.length = b.length →
    (LeCaps v (minVec a b) ↔ LeCaps v a ∧ LeCaps v b)
  | [], [], [], _ => by simp [minVec]
  | _ :: _, [], [], _ => by simp [minVec]
  | [], _ :: _, _ :: _, _ => by simp [minVec]
  | x :: v, y :: a, z :: b, h => by
    have := LeCaps_minVec v a b (by simpa using h)
    simp only [minVec] at this
    simp only [minVec, List.zipWith_cons_cons, LeCaps_cons_cons, this, Nat.le_min]
    tauto
  | _, [], _ :: _, h => by simp at h
  | _, _ :: _, [], h => by simp at h

theorem LeCaps_refl : ∀ (v : List Nat), LeCaps v v
  | [] => by simp
  | _ :: v => by simp [LeCaps_refl v]

theorem add_subVec : ∀ (col r : List Nat), LeCaps col r → List.zipWith (· + ·) col (subVec r col) = r
  | [], [], _ => by simp [subVec]
  | [], _ :: _, h => by simp at h
  | _ :: _, [], h => by simp at h
  | a :: col, b :: r, h => by
    simp only [LeCaps_cons_cons] at h
    have := add_subVec col r h.2
    simp only [subVec] at this
    simp only [subVec, List.zipWith_cons_cons, this]
    congr 1; omega

theorem eq_subVec_of_add : ∀ (col x r : List Nat), col.length = x.length →
    List.zipWith (· + ·) col x = r → LeCaps col r ∧ x = subVec r col
  | [], [], r, _, h => by subst h; simp [subVec]
  | [], _ :: _, _, h, _ => by simp at h
  | _ :: _, [], _, h, _ => by simp at h
  | a :: col, b :: x, r, hl, h => by
    subst h
    have := eq_subVec_of_add col x _ (by simpa using hl) rfl
    simp only [subVec] at this
    simp only [List.zipWith_cons_cons, LeCaps_cons_cons, subVec, this.1, ← this.2]
    simp

theorem subVec_length (r col : List Nat) : (subVec r col).length = min r.length col.length := by
  simp [subVec]

theorem subVec_sum : ∀ (col r : List Nat), LeCaps col r → (subVec r col).sum + col.sum = r.sum
  | [], [], _ => by simp [subVec]
  | [], _ :: _, h => by simp at h
  | _ :: _, [], h => by simp at h
  | a :: col, b :: r, h => by
    simp only [LeCaps_cons_cons] at h
    have := subVec_sum col r h.2
    simp only [subVec] at this
    simp only [subVec, List.zipWith_cons_cons, List.sum_cons]
    omega

theorem sum_eq_zero_iff_replicate (r : List Nat) : r.sum = 0 ↔ r = List.replicate r.length 0 := by
  induction r with
  | nil => simp
  | cons a r ih =>
    simp only [List.sum_cons, List.length_cons, List.replicate_succ, List.cons.injEq]
    rw [← ih]; omega

/-- a vector below `r` with the same total is `r` -/
theorem LeCaps_eq_of_sum : ∀ (v r : List Nat), LeCaps v r → v.sum = r.sum → v = r
  | [], [], _, _ => rfl
  | [], _ :: _, h, _ => by simp at h
  | _ :: _, [], h, _ => by simp at h
  | a :: v, b :: r, h, hs => by
    simp only [LeCaps_cons_cons] at h
    have h3 := subVec_sum v r h.2
    simp only [List.sum_cons] at hs
    have : v.sum = r.sum := by omega
    rw [LeCaps_eq_of_sum v r h.2 this]
    congr 1; omega

/-! ### matrices: first column / remaining columns -/

@[simp] theorem heads_nil : heads [] = [] := rfl
@[simp] theorem tails_nil : tails [] = [] := rfl
@[simp] theorem heads_cons (r : List Nat) (M : Matrix) : heads (r :: M) = r.headD 0 :: heads M := rfl
@[simp] theorem tails_cons (r : List Nat) (M : Matrix) : tails (r :: M) = r.tail :: tails M := rfl
@[simp] theorem heads_length (M : Matrix) : (heads M).length = M.length := by simp [heads]
@[simp] theorem tails_length (M : Matrix) : (tails M).length = M.length := by simp [tails]

theorem leMat_length : ∀ {M mx : Matrix}, leMat M mx = true → M.length = mx.length
  | [], [], _ => rfl
  | [], _ :: _, h => by simp at h
  | _ :: _, [], h => by simp at h
  | _ :: M, _ :: mx, h => by
    rw [leMat_cons_cons] at h
    simp [leMat_length h.2]

theorem leMat_row_length : ∀ {M mx : Matrix} {k : Nat}, leMat M mx = true →
    (∀ row ∈ mx, row.length = k) → ∀ row ∈ M, row.length = k
  | [], _, _, _, _ => by simp
  | _ :: _, [], _, h, _ => by simp at h
  | r :: M, m :: mx, k, h, hk => by
    rw [leMat_cons_cons] at h
    intro row hrow
    simp only [List.mem_cons] at hrow
    rcases hrow with rfl | hrow
    · rw [h.1.length_eq]; exact hk _ (by simp)
    · exact leMat_row_length h.2 (fun row hr => hk row (by simp [hr])) row hrow

/-- column decomposition of `leMat` when the limits have at least one column -/
theorem leMat_heads_tails : ∀ (M mx : Matrix), (∀ row ∈ mx, row ≠ []) →
    (leMat M mx = true ↔
      ((∀ row ∈ M, row ≠ []) ∧ LeCaps (heads M) (heads mx) ∧ leMat (tails M) (tails mx) = true))
  | [], [], _ => by simp
  | [], _ :: _, _ => by simp
  | _ :: _, [], _ => by simp
  | r :: M, m :: mx, h => by
    have ih := leMat_heads_tails M mx (fun row hr => h row (by simp [hr]))
    have hm : m ≠ [] := h m (by simp)
    rw [leMat_cons_cons, ih]
    simp only [List.mem_cons, forall_eq_or_imp, heads_cons, tails_cons, LeCaps_cons_cons,
      leMat_cons_cons]
    cases m with
    | nil => exact absurd rfl hm
    | cons b m =>
      cases r with
      | nil => simp
      | cons a r => simp; tauto

theorem consCol_heads_tails : ∀ (M : Matrix), (∀ row ∈ M, row ≠ []) → consCol (heads M) (tails M) = M
  | [], _ => rfl
  | r :: M, h => by
    have ih := consCol_heads_tails M (fun row hr => h row (by simp [hr]))
    simp only [consCol] at ih
    have hr : r ≠ [] := h r (by simp)
    cases r with
    | nil => exact absurd rfl hr
    | cons a r => simp [consCol, ih]

theorem heads_consCol : ∀ (col : List Nat) (M : Matrix), col.length = M.length →
    heads (consCol col M) = col
  | [], [], _ => rfl
  | [], _ :: _, h => by simp at h
  | _ :: _, [], h => by simp at h
  | a :: col, r :: M, h => by
    have := heads_consCol col M (by simpa using h)
    simp only [consCol] at this
    simp [consCol, this]

theorem tails_consCol : ∀ (col : List Nat) (M : Matrix), col.length = M.length →
    tails (consCol col M) = M
  | [], [], _ => rfl
  | [], _ :: _, h => by simp at h
  | _ :: _, [], h => by simp at h
  | a :: col, r :: M, h => by
    have := tails_consCol col M (by simpa using h)
    simp only [consCol] at this
    simp [consCol, this]

theorem consCol_ne_nil (col : List Nat) (M : Matrix) : ∀ row ∈ consCol col M, row ≠ [] := by
  intro row h
  simp only [consCol, List.mem_iff_getElem, List.getElem_zipWith] at h
  obtain ⟨i, _, rfl⟩ := h
  simp

theorem consCol_length (col : List Nat) (M : Matrix) :
    (consCol col M).length = min col.length M.length := by simp [consCol]

theorem rowSums_consCol (col : List Nat) (M : Matrix) :
    rowSums (consCol col M) = List.zipWith (· + ·) col (rowSums M) := by
  induction col generalizing M with
  | nil => simp [consCol, rowSums]
  | cons a col ih =>
    cases M with
    | nil => simp [consCol, rowSums]
    | cons r M =>
      have := ih M
      simp only [consCol, rowSums] at this
      simp [consCol, rowSums, this]

@[simp] theorem rowSums_length (M : Matrix) : (rowSums M).length = M.length := by simp [rowSums]

theorem colSum_zero (M : Matrix) : colSum M 0 = (heads M).sum := by
  simp only [colSum, heads]
  congr 1
  apply List.map_congr_left
  intro r _
  cases r <;> simp

theorem colSum_succ (M : Matrix) (j : Nat) : colSum M (j + 1) = colSum (tails M) j := by
  simp only [colSum, tails, List.map_map]
  congr 1
  apply List.map_congr_left
  intro r _
  cases r <;> simp

theorem colSums_succ (k : Nat) (M : Matrix) :
    colSums (k + 1) M = (heads M).sum :: colSums k (tails M) := by
  simp only [colSums, List.range_succ_eq_map, List.map_cons, colSum_zero, List.map_map]
  congr 1
  apply List.map_congr_left
  intro j _
  simp [colSum_succ]

@[simp] theorem colSums_zero (M : Matrix) : colSums 0 M = [] := rfl
@[simp] theorem colSums_length (k : Nat) (M : Matrix) : (colSums k M).length = k := by simp [colSums]

/-- matrices with zero columns -/
theorem leMat_zero_cols : ∀ (M mx : Matrix), (∀ row ∈ mx, row = []) →
    (leMat M mx = true ↔ M = List.replicate mx.length [])
  | [], [], _ => by simp
  | [], _ :: _, _ => by simp [List.replicate_succ]
  | _ :: _, [], _ => by simp
  | r :: M, m :: mx, h => by
    have ih := leMat_zero_cols M mx (fun row hr => h row (by simp [hr]))
    have hm : m = [] := h m (by simp)
    subst hm
    rw [leMat_cons_cons, ih, LeCaps_nil_right]
    simp [List.replicate_succ]


/-! ### the column recursion, uniform variant -/

/-- `colRec` without the special treatment of the last column -/
def colRecU : List Nat → List Nat → Matrix → List Matrix
  | r, [], _ => [r.map (fun _ => [])]
  | r, c0 :: cs, mx =>
    (boundedComp c0 (minVec r (heads mx))).flatMap (fun col =>
      (colRecU (subVec r col) cs (tails mx)).map (consCol col))

theorem boundedComp_length {n : Nat} {caps v : List Nat} (h : v ∈ boundedComp n caps) :
    v.length = caps.length := ((mem_boundedComp' caps n v).1 h).1.length_eq

theorem minVec_length (a b : List Nat) : (minVec a b).length = min a.length b.length := by
  simp [minVec]

theorem consCol_const_nil : ∀ (col r : List Nat), col.length ≤ r.length →
    consCol col ((subVec r col).map (fun _ => [])) = col.map ([·])
  | [], _, _ => by simp [consCol]
  | _ :: _, [], h => by simp at h
  | a :: col, b :: r, h => by
    have := consCol_const_nil col r (by simpa using h)
    simp only [consCol, subVec] at this
    simp only [consCol, subVec, List.zipWith_cons_cons, List.map_cons, this]

theorem colRec_eq_colRecU : ∀ (r c : List Nat) (mx : Matrix), colRec r c mx = colRecU r c mx
  | r, [], mx => by simp [colRec, colRecU]
  | r, [c0], mx => by
    simp only [colRec, colRecU, List.map_cons, List.map_nil]
    rw [← List.flatMap_singleton' (l := List.map _ _), List.flatMap_map]
    apply List.flatMap_congr
    intro col hcol
    rw [consCol_const_nil]
    have := boundedComp_length hcol
    rw [minVec_length] at this
    omega
  | r, c0 :: c1 :: cs, mx => by
    simp only [colRec]
    rw [colRecU]
    apply List.flatMap_congr
    intro col _
    rw [colRec_eq_colRecU]

theorem colRecU_length : ∀ (c r : List Nat) (mx M : Matrix), mx.length = r.length →
    M ∈ colRecU r c mx → M.length = r.length
  | [], r, mx, M, _, h => by
    simp only [colRecU, List.mem_singleton] at h
    simp [h]
  | c0 :: cs, r, mx, M, hl, h => by
    simp only [colRecU, List.mem_flatMap, List.mem_map] at h
    obtain ⟨col, hcol, M', hM', rfl⟩ := h
    have h1 := boundedComp_length hcol
    rw [minVec_length, heads_length, hl, Nat.min_self] at h1
    have h2 : (subVec r col).length = r.length := by rw [subVec_length]; omega
    have := colRecU_length cs _ _ _ (by rw [tails_length, h2, hl]) hM'
    rw [consCol_length]; omega

theorem colRecU_exact : ∀ (c r : List Nat) (mx : Matrix), mx.length = r.length →
    (∀ row ∈ mx, row.length = c.length) → r.sum = c.sum → ∀ M : Matrix,
    (M ∈ colRecU r c mx ↔ (leMat M mx = true ∧ rowSums M = r ∧ colSums c.length M = c))
  | [], r, mx, hl, hrow, hsum, M => by
    have hr : r = List.replicate r.length 0 := (sum_eq_zero_iff_replicate r).1 (by simpa using hsum)
    simp only [colRecU, List.mem_singleton, List.length_nil, colSums_zero, and_true]
    rw [leMat_zero_cols M mx (fun row h => List.eq_nil_of_length_eq_zero (hrow row h)), hl]
    constructor
    · rintro rfl
      refine ⟨by simp, ?_⟩
      rw [hr]; simp [rowSums]
    · intro h; simp [h.1]
  | c0 :: cs, r, mx, hl, hrow, hsum, M => by
    have hne : ∀ row ∈ mx, row ≠ [] := fun row h h0 => by
      have := hrow row h; simp [h0] at this
    have hhl : r.length = (heads mx).length := by simp [hl]
    simp only [colRecU, List.mem_flatMap, List.mem_map, mem_boundedComp', List.length_cons,
      colSums_succ, List.cons.injEq]
    constructor
    · rintro ⟨col, ⟨hcap, hcs⟩, M', hM', rfl⟩
      rw [LeCaps_minVec _ _ _ hhl] at hcap
      have hcl : col.length = r.length := hcap.1.length_eq
      have h2 : (subVec r col).length = r.length := by rw [subVec_length]; omega
      have hss := subVec_sum col r hcap.1
      have ih := colRecU_exact cs (subVec r col) (tails mx) (by simp [h2, hl])
        (by
          intro row h
          simp only [tails, List.mem_map] at h
          obtain ⟨row', h', rfl⟩ := h
          have := hrow row' h'
          simp at this
          simp [this])
        (by simp at hsum; omega) M'
      rw [ih] at hM'
      have hM'l : col.length = M'.length := by
        rw [leMat_length hM'.1, tails_length, hl, hcl]
      rw [leMat_heads_tails _ _ hne, heads_consCol _ _ hM'l, tails_consCol _ _ hM'l,
        rowSums_consCol, hM'.2.1, add_subVec _ _ hcap.1]
      exact ⟨⟨consCol_ne_nil _ _, hcap.2, hM'.1⟩, rfl, hcs, hM'.2.2⟩
    · rintro ⟨hle, hrs, hc0, hcs⟩
      rw [leMat_heads_tails _ _ hne] at hle
      obtain ⟨hMne, hh, ht⟩ := hle
      have hdec := consCol_heads_tails M hMne
      rw [← hdec, rowSums_consCol] at hrs
      have hx := eq_subVec_of_add _ _ _ (by simp) hrs
      refine ⟨heads M, ⟨?_, hc0⟩, tails M, ?_, hdec⟩
      · rw [LeCaps_minVec _ _ _ hhl]; exact ⟨hx.1, hh⟩
      · have hcl : (heads M).length = r.length := hx.1.length_eq
        have h2 : (subVec r (heads M)).length = r.length := by rw [subVec_length]; omega
        have hss := subVec_sum _ r hx.1
        rw [colRecU_exact cs (subVec r (heads M)) (tails mx) (by simp [h2, hl])
          (by
            intro row h
            simp only [tails, List.mem_map] at h
            obtain ⟨row', h', rfl⟩ := h
            have := hrow row' h'
            simp at this
            simp [this])
          (by simp at hsum; omega)]
        exact ⟨ht, hx.2, hcs⟩

theorem colRecU_nodup : ∀ (c r : List Nat) (mx : Matrix), mx.length = r.length →
    (colRecU r c mx).Nodup
  | [], r, mx, _ => by simp [colRecU]
  | c0 :: cs, r, mx, hl => by
    simp only [colRecU]
    rw [List.nodup_flatMap]
    have key : ∀ col ∈ boundedComp c0 (minVec r (heads mx)),
        ∀ M ∈ colRecU (subVec r col) cs (tails mx), col.length = M.length := by
      intro col hcol M hM
      have h1 := boundedComp_length hcol
      rw [minVec_length, heads_length, hl, Nat.min_self] at h1
      have h2 : (subVec r col).length = r.length := by rw [subVec_length]; omega
      rw [colRecU_length cs _ _ _ (by rw [tails_length, h2, hl]) hM, h2, h1]
    constructor
    · intro col hcol
      have h1 := boundedComp_length hcol
      rw [minVec_length, heads_length, hl, Nat.min_self] at h1
      have h2 : (subVec r col).length = r.length := by rw [subVec_length]; omega
      apply List.Nodup.map_on _ (colRecU_nodup cs _ _ (by rw [tails_length, h2, hl]))
      intro x hx y hy hxy
      have := congrArg tails hxy
      rwa [tails_consCol _ _ (key col hcol x hx), tails_consCol _ _ (key col hcol y hy)] at this
    · apply List.Pairwise.imp_of_mem ?_ (nodup_boundedComp' _ c0)
      intro a b ha hb hab l hl1 hl2
      simp only [List.mem_map] at hl1 hl2
      obtain ⟨x, hx, rfl⟩ := hl1
      obtain ⟨y, hy, h⟩ := hl2
      have := congrArg heads h
      rw [heads_consCol _ _ (key a ha x hx), heads_consCol _ _ (key b hb y hy)] at this
      exact hab this.symm

theorem colCount_eq_length' : ∀ (c r : List Nat) (mx : Matrix),
    colCount r c mx = (colRec r c mx).length
  | [], r, mx => by simp [colCount, colRec]
  | [c0], r, mx => by simp [colCount, colRec]
  | c0 :: c1 :: cs, r, mx => by
    simp only [colCount, colRec, List.length_flatMap, List.length_map]
    congr 1
    apply List.map_congr_left
    intro col _
    exact colCount_eq_length' (c1 :: cs) _ _


/-! ### index characterisations -/

theorem forall_lt_succ_iff {n : Nat} {P : Nat → Prop} :
    (∀ i, i < n + 1 → P i) ↔ P 0 ∧ ∀ i, i < n → P (i + 1) := by
  constructor
  · intro h; exact ⟨h 0 (by omega), fun i hi => h (i + 1) (by omega)⟩
  · rintro ⟨h0, h1⟩ i hi
    cases i with
    | zero => exact h0
    | succ i => exact h1 i (by omega)

theorem LeCaps_iff_getD : ∀ (v w : List Nat),
    LeCaps v w ↔ v.length = w.length ∧ ∀ i, i < w.length → v.getD i 0 ≤ w.getD i 0
  | [], [] => by simp
  | [], _ :: _ => by simp
  | _ :: _, [] => by simp
  | a :: v, b :: w => by
    rw [LeCaps_cons_cons, LeCaps_iff_getD v w, List.length_cons, List.length_cons,
      forall_lt_succ_iff]
    simp only [List.getD_cons_zero, List.getD_cons_succ]
    constructor
    · rintro ⟨h1, h2, h3⟩; exact ⟨by omega, h1, h3⟩
    · rintro ⟨h1, h2, h3⟩; exact ⟨h2, by omega, h3⟩

theorem LeCaps.getD_le {v w : List Nat} (h : LeCaps v w) (i : Nat) : v.getD i 0 ≤ w.getD i 0 := by
  by_cases hi : i < w.length
  · exact ((LeCaps_iff_getD v w).1 h).2 i hi
  · have := h.length_eq
    have h1 : w.length ≤ i := by omega
    have h2 : v.length ≤ i := by omega
    simp [List.getD_eq_getElem?_getD, h1, h2]

theorem LeCaps.sum_le : ∀ {v w : List Nat}, LeCaps v w → v.sum ≤ w.sum
  | [], [], _ => by simp
  | [], _ :: _, h => by simp at h
  | _ :: _, [], h => by simp at h
  | a :: v, b :: w, h => by
    simp only [LeCaps_cons_cons] at h
    have := LeCaps.sum_le h.2
    simp only [List.sum_cons]; omega

theorem mem_prodLists : ∀ (ls : List (List Nat)) (t : List Nat),
    t ∈ prodLists ls ↔ t.length = ls.length ∧ ∀ i, i < ls.length → t.getD i 0 ∈ ls.getD i []
  | [], t => by simp [prodLists]
  | l :: ls, t => by
    simp only [prodLists, List.mem_flatMap, List.mem_map, List.length_cons, forall_lt_succ_iff,
      List.getD_cons_zero, List.getD_cons_succ]
    constructor
    · rintro ⟨x, hx, w, hw, rfl⟩
      rw [mem_prodLists ls w] at hw
      simpa [hw.1, hx] using hw.2
    · cases t with
      | nil => simp
      | cons a t =>
        rintro ⟨h1, h2, h3⟩
        refine ⟨a, by simpa using h2, t, ?_, rfl⟩
        rw [mem_prodLists ls t]
        exact ⟨by simpa using h1, by simpa using h3⟩

theorem zip_all_contains : ∀ (t : List Nat) (ls : List (List Nat)), t.length = ls.length →
    ((t.zip ls).all (fun p => p.2.contains p.1) = true ↔
      ∀ i, i < ls.length → t.getD i 0 ∈ ls.getD i [])
  | [], [], _ => by simp
  | [], _ :: _, h => by simp at h
  | _ :: _, [], h => by simp at h
  | a :: t, l :: ls, h => by
    have ih := zip_all_contains t ls (by simpa using h)
    simp only [List.zip_cons_cons, List.all_cons, Bool.and_eq_true, ih, List.length_cons,
      forall_lt_succ_iff, List.getD_cons_zero, List.getD_cons_succ, List.contains_iff_mem]

theorem getD_map_range {α : Type} (n : Nat) (f : Nat → α) (d : α) (i : Nat) (hi : i < n) :
    ((List.range n).map f).getD i d = f i := by
  simp [List.getD_eq_getElem?_getD, hi]

theorem foldl_max_ge : ∀ (l : List Nat) (a : Nat),
    a ≤ l.foldl max a ∧ ∀ x ∈ l, x ≤ l.foldl max a
  | [], a => by simp
  | y :: l, a => by
    have := foldl_max_ge l (max a y)
    simp only [List.foldl_cons, List.mem_cons, forall_eq_or_imp]
    refine ⟨by omega, by omega, this.2⟩

/-! ### degree choices -/

theorem degChoices_allows {d : Deg} {ov : Bool} {cap x : Nat} (h : x ∈ degChoices d ov cap) :
    d.allows x = true := by
  cases d with
  | list ds =>
    simp only [degChoices] at h
    simp only [Deg.allows, List.contains_iff_mem]
    split at h
    · exact h
    · exact (List.mem_filter.1 h).1
  | atLeast m =>
    simp only [degChoices, List.mem_filter, List.mem_range, decide_eq_true_eq] at h
    simp [Deg.allows, h.2]

theorem mem_degChoices {d : Deg} {ov : Bool} {cap x : Nat} (h : d.allows x = true) (hc : x ≤ cap) :
    x ∈ degChoices d ov cap := by
  cases d with
  | list ds =>
    simp only [Deg.allows, List.contains_iff_mem] at h
    simp only [degChoices]
    split
    · exact h
    · simp [h, hc]
  | atLeast m =>
    simp only [Deg.allows, decide_eq_true_eq] at h
    simp only [degChoices, List.mem_filter, List.mem_range, decide_eq_true_eq]
    omega

/-! ### shapes and sums -/

theorem maxMat_length (s : ConnSettings) (e : Existence) : (maxMat s e).length = s.src.length := by
  simp [maxMat]

theorem maxMat_row_length (s : ConnSettings) (e : Existence) :
    ∀ row ∈ maxMat s e, row.length = s.tgt.length := by
  intro row h
  simp only [maxMat, List.mem_map] at h
  obtain ⟨i, _, rfl⟩ := h
  simp

theorem leMat_getD : ∀ {M mx : Matrix}, leMat M mx = true → ∀ i, LeCaps (M.getD i []) (mx.getD i [])
  | [], [], _, i => by simp
  | [], _ :: _, h, _ => by simp at h
  | _ :: _, [], h, _ => by simp at h
  | r :: M, m :: mx, h, i => by
    rw [leMat_cons_cons] at h
    cases i with
    | zero => simpa using h.1
    | succ i => simpa using leMat_getD h.2 i

theorem colSum_cons (r : List Nat) (M : Matrix) (j : Nat) :
    colSum (r :: M) j = r.getD j 0 + colSum M j := by simp [colSum]

theorem leMat_colSum_le : ∀ {M mx : Matrix}, leMat M mx = true → ∀ j, colSum M j ≤ colSum mx j
  | [], [], _, j => by simp
  | [], _ :: _, h, _ => by simp at h
  | _ :: _, [], h, _ => by simp at h
  | r :: M, m :: mx, h, j => by
    rw [leMat_cons_cons] at h
    have h1 := h.1.getD_le j
    have h2 := leMat_colSum_le h.2 j
    rw [colSum_cons, colSum_cons]; omega

theorem getD_rowSums (M : Matrix) (i : Nat) : (rowSums M).getD i 0 = (M.getD i []).sum := by
  simp only [rowSums, List.getD_eq_getElem?_getD, List.getElem?_map]
  cases M[i]? <;> simp

theorem getD_colSums (k : Nat) (M : Matrix) (j : Nat) (hj : j < k) :
    (colSums k M).getD j 0 = colSum M j := getD_map_range k _ 0 j hj

theorem sum_zipWith_add : ∀ (a b : List Nat), a.length = b.length →
    (List.zipWith (· + ·) a b).sum = a.sum + b.sum
  | [], [], _ => rfl
  | [], _ :: _, h => by simp at h
  | _ :: _, [], h => by simp at h
  | x :: a, y :: b, h => by
    have := sum_zipWith_add a b (by simpa using h)
    simp only [List.zipWith_cons_cons, List.sum_cons, this]; omega

theorem tails_row_length {M : Matrix} {k : Nat} (h : ∀ row ∈ M, row.length = k + 1) :
    ∀ row ∈ tails M, row.length = k := by
  intro row hr
  simp only [tails, List.mem_map] at hr
  obtain ⟨row', h', rfl⟩ := hr
  have := h row' h'
  simp [this]

/-- total of the row sums = total of the column sums -/
theorem sum_rowSums_eq_sum_colSums : ∀ (k : Nat) (M : Matrix), (∀ row ∈ M, row.length = k) →
    (rowSums M).sum = (colSums k M).sum
  | 0, M, h => by
    have : rowSums M = List.replicate M.length 0 := by
      rw [rowSums, List.eq_replicate_iff]
      refine ⟨by simp, ?_⟩
      intro x hx
      simp only [List.mem_map] at hx
      obtain ⟨row, hrow, rfl⟩ := hx
      rw [List.eq_nil_of_length_eq_zero (h row hrow)]; rfl
    simp [this]
  | k + 1, M, h => by
    have hne : ∀ row ∈ M, row ≠ [] := fun row hr h0 => by
      have := h row hr; simp [h0] at this
    have ih := sum_rowSums_eq_sum_colSums k (tails M) (tails_row_length h)
    rw [colSums_succ, List.sum_cons, ← ih]
    conv_lhs => rw [← consCol_heads_tails M hne, rowSums_consCol]
    rw [sum_zipWith_add _ _ (by simp)]


/-! ### degree tuples -/

theorem mem_srcTuples (s : ConnSettings) (e : Existence) (r : List Nat) :
    r ∈ srcTuples s e ↔ r.length = s.src.length ∧ ∀ i, i < s.src.length →
      r.getD i 0 ∈ degChoices (effDeg s.src e.srcOv i) (isOv e.srcOv i) (((maxMat s e).getD i []).sum) := by
  simp only [srcTuples, mem_prodLists, List.length_map, List.length_range]
  apply and_congr_right
  intro _
  apply forall_congr'
  intro i
  apply imp_congr_right
  intro hi
  rw [getD_map_range _ _ _ _ hi]

theorem mem_tgtTuples (s : ConnSettings) (e : Existence) (n : Nat) (c : List Nat) :
    c ∈ tgtTuples s e n ↔ c.length = s.tgt.length ∧ c.sum = n ∧ ∀ j, j < s.tgt.length →
      c.getD j 0 ∈ degChoices (effDeg s.tgt e.tgtOv j) (isOv e.tgtOv j) (colSum (maxMat s e) j) := by
  simp only [tgtTuples, List.mem_filter, mem_boundedComp']
  constructor
  · rintro ⟨⟨h1, h2⟩, h3⟩
    have hl : c.length = s.tgt.length := by simpa using h1.length_eq
    rw [zip_all_contains _ _ (by simpa using hl)] at h3
    refine ⟨hl, h2, ?_⟩
    intro j hj
    have := h3 j (by simpa using hj)
    rwa [getD_map_range _ _ _ _ hj] at this
  · rintro ⟨hl, h2, h3⟩
    have h3' : ∀ j, j < ((List.range s.tgt.length).map (fun j =>
        degChoices (effDeg s.tgt e.tgtOv j) (isOv e.tgtOv j) (colSum (maxMat s e) j))).length →
        c.getD j 0 ∈ ((List.range s.tgt.length).map (fun j =>
        degChoices (effDeg s.tgt e.tgtOv j) (isOv e.tgtOv j) (colSum (maxMat s e) j))).getD j [] := by
      intro j hj
      have hj' : j < s.tgt.length := by simpa using hj
      rw [getD_map_range _ _ _ _ hj']
      exact h3 j hj'
    refine ⟨⟨?_, h2⟩, ?_⟩
    · rw [LeCaps_iff_getD]
      refine ⟨by simpa using hl, ?_⟩
      intro j hj
      have hj' : j < s.tgt.length := by simpa using hj
      rw [List.map_map, getD_map_range _ _ _ _ hj']
      exact (foldl_max_ge _ 0).2 _ (h3 j hj')
    · rw [zip_all_contains _ _ (by simpa using hl)]
      exact h3'

theorem mem_degTuples (s : ConnSettings) (e : Existence) (r c : List Nat) :
    (r, c) ∈ degTuples s e ↔ r ∈ srcTuples s e ∧ c ∈ tgtTuples s e r.sum := by
  simp only [degTuples, List.mem_flatMap, List.mem_map, Prod.mk.injEq]
  constructor
  · rintro ⟨r', hr', c', hc', rfl, rfl⟩; exact ⟨hr', hc'⟩
  · rintro ⟨h1, h2⟩; exact ⟨r, h1, c, h2, rfl, rfl⟩

/-- what the column recursion is called with -/
structure DegInv (s : ConnSettings) (e : Existence) (r c : List Nat) : Prop where
  rlen : r.length = s.src.length
  clen : c.length = s.tgt.length
  sum_eq : r.sum = c.sum

theorem degTuples_inv {s : ConnSettings} {e : Existence} {r c : List Nat}
    (h : (r, c) ∈ degTuples s e) : DegInv s e r c := by
  rw [mem_degTuples, mem_srcTuples, mem_tgtTuples] at h
  exact ⟨h.1.1, h.2.1, h.2.2.1.symm⟩

/-! ### the enumeration -/

theorem colRecU_nil_left : ∀ (c : List Nat) (mx : Matrix), c.sum = 0 → colRecU [] c mx = [[]]
  | [], _, _ => rfl
  | c0 :: cs, mx, h => by
    simp only [List.sum_cons] at h
    have h0 : c0 = 0 := by omega
    subst h0
    have ih := colRecU_nil_left cs (tails mx) (by omega)
    simp [colRecU, minVec, boundedComp, subVec, ih, consCol]

/-- both branches of `enumLib` are the column recursion -/
theorem enumLib_eq_flatMap (s : ConnSettings) (e : Existence) :
    enumLib s e = (degTuples s e).flatMap (fun p => colRec p.1 p.2 (maxMat s e)) := by
  unfold enumLib
  split
  · rename_i h
    rw [← List.flatMap_singleton' (l := List.map _ _), List.flatMap_map]
    apply List.flatMap_congr
    rintro ⟨r, c⟩ hp
    have inv := degTuples_inv hp
    simp only [Bool.or_eq_true, List.isEmpty_iff] at h
    rcases h with h | h
    · have hr : r = [] := List.eq_nil_of_length_eq_zero (by rw [inv.rlen, h]; rfl)
      subst hr
      rw [colRec_eq_colRecU, colRecU_nil_left _ _ (by rw [← inv.sum_eq]; rfl)]
      rfl
    · have hc : c = [] := List.eq_nil_of_length_eq_zero (by rw [inv.clen, h]; rfl)
      subst hc
      simp [colRec]
  · rfl

theorem mem_enumLib_iff_valid (s : ConnSettings) (e : Existence) (M : Matrix) :
    M ∈ enumLib s e ↔ validMatrix s e M = true := by
  rw [enumLib_eq_flatMap]
  simp only [List.mem_flatMap, Prod.exists]
  constructor
  · rintro ⟨r, c, hp, hM⟩
    have inv := degTuples_inv hp
    rw [colRec_eq_colRecU, colRecU_exact c r _ (by rw [maxMat_length, inv.rlen])
      (by rw [inv.clen]; exact maxMat_row_length s e) inv.sum_eq] at hM
    obtain ⟨hle, hr, hc⟩ := hM
    rw [mem_degTuples, mem_srcTuples, mem_tgtTuples] at hp
    simp only [validMatrix, Bool.and_eq_true, List.all_eq_true, List.mem_range]
    refine ⟨⟨hle, ?_⟩, ?_⟩
    · intro i hi
      have := degChoices_allows (hp.1.2 i hi)
      rwa [← hr, getD_rowSums] at this
    · intro j hj
      have := degChoices_allows (hp.2.2.2 j hj)
      rwa [← hc, inv.clen, getD_colSums _ _ _ hj] at this
  · intro hv
    simp only [validMatrix, Bool.and_eq_true, List.all_eq_true, List.mem_range] at hv
    obtain ⟨⟨hle, hrow⟩, hcol⟩ := hv
    have hlen : M.length = s.src.length := by rw [leMat_length hle, maxMat_length]
    have hrl := leMat_row_length hle (maxMat_row_length s e)
    have hsum := sum_rowSums_eq_sum_colSums _ M hrl
    refine ⟨rowSums M, colSums s.tgt.length M, ?_, ?_⟩
    · rw [mem_degTuples, mem_srcTuples, mem_tgtTuples]
      refine ⟨⟨by simp [hlen], ?_⟩, by simp, hsum.symm, ?_⟩
      · intro i hi
        rw [getD_rowSums]
        exact mem_degChoices (hrow i hi) (leMat_getD hle i).sum_le
      · intro j hj
        rw [getD_colSums _ _ _ hj]
        exact mem_degChoices (hcol j hj) (leMat_colSum_le hle j)
    · rw [colRec_eq_colRecU, colRecU_exact _ _ _ (by simp [maxMat_length, hlen])
        (by simpa using maxMat_row_length s e) hsum]
      simp [hle]


/-! ### no duplicates -/

/-- Well-formedness needed for duplicate-freeness of `enumLib`: the effective degree lists of the
    source connectors (node lists and override lists) contain no duplicates. -/
def WFConn (s : ConnSettings) (e : Existence) : Prop :=
  ∀ i ds, i < s.src.length → effDeg s.src e.srcOv i = .list ds → ds.Nodup

theorem nodup_prodLists : ∀ (ls : List (List Nat)), (∀ l ∈ ls, l.Nodup) → (prodLists ls).Nodup
  | [], _ => by simp [prodLists]
  | l :: ls, h => by
    simp only [prodLists]
    exact nodup_flatMap_cons l (h l (by simp)) (fun _ => prodLists ls) id (fun _ _ h => h)
      (fun _ _ => nodup_prodLists ls (fun l' hl' => h l' (by simp [hl'])))

theorem nodup_degChoices {d : Deg} (ov : Bool) (cap : Nat) (h : ∀ ds, d = .list ds → ds.Nodup) :
    (degChoices d ov cap).Nodup := by
  cases d with
  | list ds =>
    simp only [degChoices]
    split
    · exact h ds rfl
    · exact (h ds rfl).filter _
  | atLeast m => exact List.nodup_range.filter _

theorem nodup_srcTuples {s : ConnSettings} {e : Existence} (wf : WFConn s e) :
    (srcTuples s e).Nodup := by
  apply nodup_prodLists
  intro l hl
  simp only [List.mem_map, List.mem_range] at hl
  obtain ⟨i, hi, rfl⟩ := hl
  exact nodup_degChoices _ _ (fun ds hds => wf i ds hi hds)

theorem nodup_tgtTuples (s : ConnSettings) (e : Existence) (n : Nat) : (tgtTuples s e n).Nodup :=
  (nodup_boundedComp' _ n).filter _

theorem nodup_degTuples {s : ConnSettings} {e : Existence} (wf : WFConn s e) :
    (degTuples s e).Nodup := by
  simp only [degTuples]
  rw [List.nodup_flatMap]
  constructor
  · intro r _
    exact (nodup_tgtTuples s e r.sum).map (fun a b h => by simpa using h)
  · apply List.Pairwise.imp_of_mem ?_ (nodup_srcTuples wf)
    intro a b _ _ hab l hl1 hl2
    simp only [List.mem_map] at hl1 hl2
    obtain ⟨w1, _, rfl⟩ := hl1
    obtain ⟨w2, _, h⟩ := hl2
    simp at h
    exact hab h.1.symm

theorem nodup_enumLib {s : ConnSettings} {e : Existence} (wf : WFConn s e) :
    (enumLib s e).Nodup := by
  rw [enumLib_eq_flatMap, List.nodup_flatMap]
  constructor
  · rintro ⟨r, c⟩ hp
    have inv := degTuples_inv hp
    rw [colRec_eq_colRecU]
    exact colRecU_nodup c r _ (by rw [maxMat_length, inv.rlen])
  · apply List.Pairwise.imp_of_mem ?_ (nodup_degTuples wf)
    rintro ⟨r, c⟩ ⟨r', c'⟩ hp hp' hne M hM hM'
    have inv := degTuples_inv hp
    have inv' := degTuples_inv hp'
    simp only at hM hM'
    rw [colRec_eq_colRecU, colRecU_exact c r _ (by rw [maxMat_length, inv.rlen])
      (by rw [inv.clen]; exact maxMat_row_length s e) inv.sum_eq] at hM
    rw [colRec_eq_colRecU, colRecU_exact c' r' _ (by rw [maxMat_length, inv'.rlen])
      (by rw [inv'.clen]; exact maxMat_row_length s e) inv'.sum_eq] at hM'
    apply hne
    rw [← hM.2.1, ← hM'.2.1, ← hM.2.2, ← hM'.2.2, inv.clen, inv'.clen]

/-- a sufficient condition in terms of the inputs: all source degree lists and source overrides
    are duplicate-free -/
theorem WFConn_of_nodup (s : ConnSettings) (e : Existence)
    (h1 : ∀ nd ∈ s.src, ∀ ds, nd.deg = .list ds → ds.Nodup)
    (h2 : ∀ ds, some ds ∈ e.srcOv → ds.Nodup) : WFConn s e := by
  intro i ds hi hd
  simp only [effDeg] at hd
  split at hd
  · rename_i ds' hov
    cases hd
    apply h2
    cases h : e.srcOv[i]? with
    | none => simp [h] at hov
    | some o =>
      simp only [h, Option.join_some] at hov
      subst hov
      exact List.mem_of_getElem? h
  · simp only [List.getElem?_eq_getElem hi, Option.map_some, Option.getD_some] at hd
    exact h1 _ (List.getElem_mem hi) ds hd


/-! ### the list → open-ended rewrite -/

theorem openRewrite_sound (nMax : Nat) (ds : List Nat) (hsorted : ds.Pairwise (· < ·)) (d : Nat)
    (hd : d ≤ nMax) : (openRewrite nMax (.list ds)).allows d = (Deg.list ds).allows d := by
  simp only [openRewrite]
  split
  · rename_i k hk
    have h1 := List.find?_some hk
    have h2 := List.mem_of_find?_eq_some hk
    simp only [beq_iff_eq, List.mem_range] at h1 h2
    have hmem : ∀ x, x ∈ ds.take (nMax + 1 - k) ↔ k ≤ x ∧ x ≤ nMax := by
      intro x; rw [h1, List.mem_range']
      constructor
      · rintro ⟨i, hi, rfl⟩; omega
      · intro h; exact ⟨x - k, by omega, by omega⟩
    rw [Bool.eq_iff_iff]
    simp only [Deg.allows, decide_eq_true_eq, List.contains_iff_mem]
    constructor
    · intro hk; exact List.mem_of_mem_take ((hmem d).2 ⟨hk, hd⟩)
    · intro hmem_d
      rw [← List.take_append_drop (nMax + 1 - k) ds] at hmem_d hsorted
      rw [List.mem_append] at hmem_d
      rcases hmem_d with h | h
      · exact ((hmem d).1 h).1
      · have := (List.pairwise_append.1 hsorted).2.2 nMax ((hmem nMax).2 ⟨by omega, Nat.le_refl _⟩) d h
        omega
  · rfl


/-! ### counting: the special cases -/

instance (v c : List Nat) : Decidable (LeCaps v c) := decidable_of_iff _ (leRow_iff v c)

theorem boundedComp_zero : ∀ (caps : List Nat), boundedComp 0 caps = [List.replicate caps.length 0]
  | [] => by simp [boundedComp]
  | c :: cs => by
    simp [boundedComp, boundedComp_zero cs, List.replicate_succ]

theorem colRecU_length_cons (r : List Nat) (c0 : Nat) (cs : List Nat) (mx : Matrix) :
    (colRecU r (c0 :: cs) mx).length =
      ((boundedComp c0 (minVec r (heads mx))).map (fun col =>
        (colRecU (subVec r col) cs (tails mx)).length)).sum := by
  simp only [colRecU, List.length_flatMap, List.length_map]

/-- all column sums zero: exactly one matrix -/
theorem colRecU_length_of_sum_zero : ∀ (c r : List Nat) (mx : Matrix), c.sum = 0 →
    (colRecU r c mx).length = 1
  | [], _, _, _ => by simp [colRecU]
  | c0 :: cs, r, mx, h => by
    simp only [List.sum_cons] at h
    have h0 : c0 = 0 := by omega
    subst h0
    rw [colRecU_length_cons, boundedComp_zero]
    simp [colRecU_length_of_sum_zero cs _ _ (by omega)]

/-- a source with degree 0 does not matter -/
theorem colRecU_length_zero_row : ∀ (c r m : List Nat) (mx : Matrix),
    (colRecU (0 :: r) c (m :: mx)).length = (colRecU r c mx).length
  | [], _, _, _ => by simp [colRecU]
  | c0 :: cs, r, m, mx => by
    rw [colRecU_length_cons, colRecU_length_cons]
    have : boundedComp c0 (minVec (0 :: r) (heads (m :: mx))) =
        (boundedComp c0 (minVec r (heads mx))).map (0 :: ·) := by
      simp [minVec, boundedComp]
    rw [this, List.map_map]
    congr 1
    apply List.map_congr_left
    intro col _
    simp only [Function.comp, subVec, List.zipWith_cons_cons, tails_cons, Nat.sub_zero]
    exact colRecU_length_zero_row cs _ _ _

theorem boundedComp_zeros : ∀ (b j : Nat),
    boundedComp j (List.replicate b 0) = if j = 0 then [List.replicate b 0] else []
  | 0, j => by simp [boundedComp]
  | b + 1, j => by
    simp only [List.replicate_succ, boundedComp, Nat.min_zero, Nat.zero_add, List.range_one,
      List.flatMap_cons, List.flatMap_nil, List.append_nil, Nat.sub_zero, boundedComp_zeros b j]
    split <;> simp

theorem boundedComp_unit (c0 m b : Nat) :
    boundedComp c0 (m :: List.replicate b 0) =
      if c0 ≤ m then [c0 :: List.replicate b 0] else [] := by
  simp only [boundedComp, boundedComp_zeros]
  rw [List.range_succ, List.flatMap_append]
  have h1 : (List.range (min c0 m)).flatMap (fun k =>
      (if c0 - k = 0 then [List.replicate b 0] else []).map (k :: ·)) = [] := by
    rw [List.flatMap_eq_nil_iff]
    intro k hk
    rw [List.mem_range] at hk
    rw [if_neg (by omega)]; rfl
  rw [h1]
  by_cases h : c0 ≤ m
  · rw [Nat.min_eq_left h]; simp [h]
  · rw [Nat.min_eq_right (by omega)]
    have : ¬ c0 - m = 0 := by omega
    simp [h, this]

theorem minVec_zeros_left (b : Nat) (h : List Nat) (hl : h.length = b) :
    minVec (List.replicate b 0) h = List.replicate b 0 := by
  subst hl
  induction h with
  | nil => rfl
  | cons x h ih =>
    simp only [minVec] at ih
    simp [minVec, List.replicate_succ, ih]

theorem subVec_zeros (b : Nat) : subVec (List.replicate b 0) (List.replicate b 0) = List.replicate b 0 := by
  simp [subVec]

/-- one source takes all connections (it is the first row, all others are 0) -/
theorem colRecU_length_unit_row : ∀ (c : List Nat) (n : Nat) (row : List Nat) (B : Matrix),
    n = c.sum → row.length = c.length →
    (colRecU (n :: List.replicate B.length 0) c (row :: B)).length = if LeCaps c row then 1 else 0
  | [], n, row, B, _, hrow => by
    have : row = [] := List.eq_nil_of_length_eq_zero hrow
    simp [colRecU, this]
  | c0 :: cs, n, row, B, hn, hrow => by
    cases row with
    | nil => simp at hrow
    | cons h row =>
      simp only [List.sum_cons] at hn
      rw [colRecU_length_cons]
      have h1 : minVec (n :: List.replicate B.length 0) (heads ((h :: row) :: B)) =
          min n h :: List.replicate B.length 0 := by
        have := minVec_zeros_left B.length (heads B) (by simp)
        simp only [minVec] at this
        simp [minVec, this]
      rw [h1, boundedComp_unit]
      simp only [LeCaps_cons_cons]
      by_cases hc : c0 ≤ h
      · rw [if_pos (by omega)]
        simp only [List.map_cons, List.map_nil, List.sum_cons, List.sum_nil, Nat.add_zero, tails_cons,
          List.tail_cons]
        have h2 : subVec (n :: List.replicate B.length 0) (c0 :: List.replicate B.length 0) =
            (n - c0) :: List.replicate (tails B).length 0 := by
          simp [subVec]
        rw [h2, colRecU_length_unit_row cs (n - c0) row (tails B) (by omega) (by simpa using hrow)]
        simp [hc]
      · rw [if_neg (by omega)]
        simp [hc]

theorem getD_le_sum : ∀ (l : List Nat) (i : Nat), l.getD i 0 ≤ l.sum
  | [], i => by simp
  | x :: l, 0 => by simp
  | x :: l, i + 1 => by
    have := getD_le_sum l i
    simp only [List.getD_cons_succ, List.sum_cons]; omega

/-- one source takes all connections -/
theorem colRecU_length_of_row_total : ∀ (i : Nat) (r c : List Nat) (mx : Matrix),
    i < r.length → r.getD i 0 = r.sum → r.sum = c.sum → mx.length = r.length →
    (∀ row ∈ mx, row.length = c.length) →
    (colRecU r c mx).length = if LeCaps c (mx.getD i []) then 1 else 0
  | _, [], _, _, hi, _, _, _, _ => by simp at hi
  | _, _ :: _, _, [], _, _, _, hl, _ => by simp at hl
  | 0, n :: r, c, row :: B, _, h1, h2, hl, hrow => by
    simp only [List.getD_cons_zero, List.sum_cons] at h1
    have hr : r = List.replicate B.length 0 := by
      have := (sum_eq_zero_iff_replicate r).1 (by omega)
      rw [this]; congr 1; simp at hl; omega
    rw [hr, colRecU_length_unit_row c n row B (by simp only [List.sum_cons] at h2; omega)
      (hrow row (by simp))]
    simp
  | i + 1, x :: r, c, m :: mx, hi, h1, h2, hl, hrow => by
    simp only [List.getD_cons_succ, List.sum_cons] at h1
    have := getD_le_sum r i
    have hx : x = 0 := by omega
    subst hx
    rw [colRecU_length_zero_row, colRecU_length_of_row_total i r c mx (by simpa using hi) (by omega)
      (by simpa using h2) (by simpa using hl) (fun row hr => hrow row (by simp [hr]))]
    simp


theorem length_of_unique {α : Type} {l : List α} {x : α} {P : Prop} [Decidable P] (hn : l.Nodup)
    (h : ∀ v, v ∈ l ↔ v = x ∧ P) : l.length = if P then 1 else 0 := by
  match l, hn, h with
  | [], _, h =>
    have : ¬ P := fun hp => by simpa using (h x).2 ⟨rfl, hp⟩
    simp [this]
  | [y], _, h =>
    have : P := ((h y).1 (by simp)).2
    simp [this]
  | y :: z :: l, hn, h =>
    have h1 := ((h y).1 (by simp)).1
    have h2 := ((h z).1 (by simp)).1
    simp [h1, h2] at hn

/-- compositions of the total of `r` below `r` and `h`: only `r` itself -/
theorem boundedComp_total_length (r h : List Nat) (hl : r.length = h.length) :
    (boundedComp r.sum (minVec r h)).length = if LeCaps r h then 1 else 0 := by
  apply length_of_unique (nodup_boundedComp' _ _)
  intro v
  rw [mem_boundedComp', LeCaps_minVec _ _ _ hl]
  constructor
  · rintro ⟨⟨h1, h2⟩, h3⟩
    have := LeCaps_eq_of_sum v r h1 h3
    subst this
    exact ⟨rfl, h2⟩
  · rintro ⟨rfl, h2⟩
    exact ⟨⟨LeCaps_refl _, h2⟩, rfl⟩

theorem heads_eq_map_getD (mx : Matrix) : heads mx = mx.map (·.getD 0 0) := by
  simp only [heads]
  apply List.map_congr_left
  intro r _
  cases r <;> simp

theorem tails_map_getD (mx : Matrix) (j : Nat) :
    (tails mx).map (·.getD j 0) = mx.map (·.getD (j + 1) 0) := by
  simp only [tails, List.map_map]
  apply List.map_congr_left
  intro r _
  cases r <;> simp

theorem subVec_zeros_right (r : List Nat) : subVec r (List.replicate r.length 0) = r := by
  induction r with
  | nil => rfl
  | cons x r ih =>
    simp only [subVec] at ih
    simp [subVec, List.replicate_succ, ih]

/-- one target takes all connections -/
theorem colRecU_length_of_col_total (r : List Nat) : ∀ (j : Nat) (c : List Nat) (mx : Matrix),
    j < c.length → c.getD j 0 = c.sum → r.sum = c.sum → mx.length = r.length →
    (colRecU r c mx).length = if LeCaps r (mx.map (·.getD j 0)) then 1 else 0
  | _, [], _, hj, _, _, _ => by simp at hj
  | 0, n :: c, mx, _, h1, h2, hl => by
    simp only [List.getD_cons_zero, List.sum_cons] at h1 h2
    have hc : c.sum = 0 := by omega
    rw [colRecU_length_cons]
    have : ∀ col ∈ boundedComp n (minVec r (heads mx)),
        (colRecU (subVec r col) c (tails mx)).length = 1 :=
      fun col _ => colRecU_length_of_sum_zero c _ _ hc
    rw [List.map_congr_left this]
    have hn : n = r.sum := by omega
    have hb := boundedComp_total_length r (heads mx) (by simp [hl])
    rw [hn, List.map_const', ← heads_eq_map_getD, ← hb]
    simp
  | j + 1, x :: c, mx, hj, h1, h2, hl => by
    simp only [List.getD_cons_succ, List.sum_cons] at h1
    have := getD_le_sum c j
    have hx : x = 0 := by omega
    subst hx
    rw [colRecU_length_cons, boundedComp_zero]
    have hlen : (minVec r (heads mx)).length = r.length := by simp [minVec_length, hl]
    simp only [List.map_cons, List.map_nil, List.sum_cons, List.sum_nil, Nat.add_zero, hlen,
      subVec_zeros_right]
    rw [colRecU_length_of_col_total r j c (tails mx) (by simpa using hj) (by omega)
      (by simpa using h2) (by simpa using hl), tails_map_getD]

theorem zip_filter_pos_of_sum_zero : ∀ (c row : List Nat), c.sum = 0 → c.length = row.length →
    LeCaps c row ∧ (c.zip row).filter (fun p => decide (0 < p.1) && decide (0 < p.2)) = []
  | [], [], _, _ => by simp
  | [], _ :: _, _, h => by simp at h
  | _ :: _, [], _, h => by simp at h
  | x :: c, y :: row, hs, hl => by
    simp only [List.sum_cons] at hs
    have hx : x = 0 := by omega
    subst hx
    have := zip_filter_pos_of_sum_zero c row (by omega) (by simpa using hl)
    simp [this]

/-- the count used when a single connection is made from a single source -/
theorem zip_filter_pos_length : ∀ (c row : List Nat), c.sum = 1 → c.length = row.length →
    ((c.zip row).filter (fun p => decide (0 < p.1) && decide (0 < p.2))).length =
      if LeCaps c row then 1 else 0
  | [], [], h, _ => by simp at h
  | [], _ :: _, _, h => by simp at h
  | _ :: _, [], _, h => by simp at h
  | x :: c, y :: row, hs, hl => by
    simp only [List.sum_cons] at hs
    by_cases hx : x = 0
    · subst hx
      have := zip_filter_pos_length c row (by omega) (by simpa using hl)
      simp [this]
    · have hx1 : x = 1 := by omega
      subst hx1
      have := zip_filter_pos_of_sum_zero c row (by omega) (by simpa using hl)
      by_cases hy : 0 < y
      · have hy' : 1 ≤ y := hy
        simp [this, hy, hy']
      · have hy' : ¬ 1 ≤ y := hy
        simp [this, hy, hy']

theorem zip_all_le_iff (c row : List Nat) (hl : c.length = row.length) :
    ((c.zip row).all (fun p => decide (p.1 ≤ p.2)) = true) ↔ LeCaps c row := by
  rw [← leRow_iff]; simp [hl]

theorem countSpecial_eq (r c : List Nat) (mx : Matrix) (hsum : r.sum = c.sum)
    (hl : mx.length = r.length) (hrow : ∀ row ∈ mx, row.length = c.length) (k : Nat)
    (hk : countSpecial r c mx = some k) : k = (colRecU r c mx).length := by
  unfold countSpecial at hk
  split at hk
  · rename_i h
    have hc : c.sum = 0 := by
      simp only [Bool.or_eq_true, decide_eq_true_eq] at h; omega
    rw [colRecU_length_of_sum_zero c r mx hc]
    simpa using hk.symm
  · split at hk
    · rename_i _ h
      have hr : r = [1] := by simpa using h
      subst hr
      have hlen : (mx.getD 0 []).length = c.length := by
        match mx, hl, hrow with
        | [row], _, hrow => simpa using hrow
      rw [colRecU_length_of_row_total 0 [1] c mx (by simp) (by simp) hsum hl hrow,
        ← zip_filter_pos_length c _ (by simpa using hsum.symm) hlen.symm]
      simpa using hk.symm
    · split at hk
      · rename_i i hfind
        have h1 := List.find?_some hfind
        have h2 := List.mem_of_find?_eq_some hfind
        simp only [beq_iff_eq, List.mem_range] at h1 h2
        have hlen : (mx.getD i []).length = c.length := by
          apply hrow
          have hi : i < mx.length := by omega
          simp [List.getD_eq_getElem?_getD, List.getElem?_eq_getElem hi]
        rw [colRecU_length_of_row_total i r c mx h2 (by omega) hsum hl hrow]
        simp only [Option.some.injEq, zip_all_le_iff c _ hlen.symm] at hk
        exact hk.symm
      · simp at hk

theorem getD_transposeN (nt : Nat) (mx : Matrix) (j : Nat) (hj : j < nt) :
    (transposeN nt mx).getD j [] = mx.map (·.getD j 0) := getD_map_range nt _ [] j hj

theorem countSpecial_transpose_eq (r c : List Nat) (mx : Matrix) (hsum : r.sum = c.sum)
    (hl : mx.length = r.length) (k : Nat)
    (hk : countSpecial c r (transposeN c.length mx) = some k) : k = (colRecU r c mx).length := by
  unfold countSpecial at hk
  split at hk
  · rename_i h
    have hc : c.sum = 0 := by
      simp only [Bool.or_eq_true, decide_eq_true_eq] at h; omega
    rw [colRecU_length_of_sum_zero c r mx hc]
    simpa using hk.symm
  · split at hk
    · rename_i _ h
      have hc : c = [1] := by simpa using h
      subst hc
      rw [colRecU_length_of_col_total r 0 [1] mx (by simp) (by simp) hsum hl,
        ← zip_filter_pos_length r _ (by simpa using hsum) (by simp [hl])]
      rw [getD_transposeN _ _ _ (by simp)] at hk
      simpa using hk.symm
    · split at hk
      · rename_i j hfind
        have h1 := List.find?_some hfind
        have h2 := List.mem_of_find?_eq_some hfind
        simp only [beq_iff_eq, List.mem_range] at h1 h2
        rw [colRecU_length_of_col_total r j c mx h2 (by omega) hsum hl]
        rw [getD_transposeN _ _ _ h2] at hk
        simp only [Option.some.injEq,
          zip_all_le_iff r (mx.map (·.getD j 0)) (by simp [hl])] at hk
        exact hk.symm
      · simp at hk

theorem countMatrices_eq (r c : List Nat) (mx : Matrix) (hsum : r.sum = c.sum)
    (hl : mx.length = r.length) (hrow : ∀ row ∈ mx, row.length = c.length) :
    countMatrices r c mx = (colRec r c mx).length := by
  rw [colRec_eq_colRecU]
  unfold countMatrices
  split
  · rename_i k hk
    exact countSpecial_eq r c mx hsum hl hrow k hk
  · split
    · rename_i k hk
      exact countSpecial_transpose_eq r c mx hsum hl k hk
    · rw [colCount_eq_length', colRec_eq_colRecU]

theorem countAll_eq_length (s : ConnSettings) (e : Existence) :
    countAll s e = (enumLib s e).length := by
  rw [enumLib_eq_flatMap, List.length_flatMap, countAll]
  congr 1
  apply List.map_congr_left
  rintro ⟨r, c⟩ hp
  have inv := degTuples_inv hp
  exact countMatrices_eq r c _ inv.sum_eq (by rw [maxMat_length, inv.rlen])
    (by rw [inv.clen]; exact maxMat_row_length s e)

end Adsg
