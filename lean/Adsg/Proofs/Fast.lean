/- Helper lemmas about Adsg/Model/Fast.lean. -/
import Adsg.Model.Fast
import Adsg.Proofs.Steps
namespace Adsg

/-! ### iterValues -/

theorem mem_iterValues_go (n cur v : Nat) (hcur : cur < n) :
    ∀ (fuel dist : Nat), 1 ≤ dist → n ≤ dist + fuel →
      (v ∈ iterValues.go n cur dist fuel ↔ v < n ∧ (cur + dist ≤ v ∨ v + dist ≤ cur)) := by
  intro fuel
  induction fuel with
  | zero =>
    intro dist h1 h2
    simp only [iterValues.go, List.not_mem_nil, false_iff]
    omega
  | succ fuel ih =>
    intro dist h1 h2
    unfold iterValues.go
    by_cases hd : dist ≥ n
    · simp only [hd, if_true, List.not_mem_nil, false_iff]
      omega
    · simp only [hd, if_false]
      have ih' := ih (dist + 1) (by omega) (by omega)
      by_cases hp : cur + dist < n <;> by_cases hn : dist ≤ cur <;>
        simp [hp, hn, ih'] <;> omega

theorem nodup_iterValues_go (n cur : Nat) (hcur : cur < n) :
    ∀ (fuel dist : Nat), 1 ≤ dist → n ≤ dist + fuel → (iterValues.go n cur dist fuel).Nodup := by
  intro fuel
  induction fuel with
  | zero => intro dist _ _; simp [iterValues.go]
  | succ fuel ih =>
    intro dist h1 h2
    unfold iterValues.go
    by_cases hd : dist ≥ n
    · simp [hd]
    · simp only [hd, if_false]
      have ih' := ih (dist + 1) (by omega) (by omega)
      have hm := fun v => mem_iterValues_go n cur v hcur fuel (dist + 1) (by omega) (by omega)
      by_cases hp : cur + dist < n <;> by_cases hn : dist ≤ cur <;>
        simp [hp, hn, ih', hm] <;> omega

theorem iterValues_fixed (n cur : Nat) : iterValues n cur true = [cur] := by
  simp [iterValues]

theorem iterValues_head (n cur : Nat) (fixed : Bool) :
    ∃ rest, iterValues n cur fixed = cur :: rest := by
  cases fixed
  · exact ⟨iterValues.go n cur 1 n, by simp [iterValues]⟩
  · exact ⟨[], by simp [iterValues]⟩

theorem mem_iterValues (n cur v : Nat) (fixed : Bool) (hcur : cur < n) :
    v ∈ iterValues n cur fixed ↔ v < n ∧ (fixed = true → v = cur) := by
  cases fixed
  · simp only [iterValues, Bool.false_eq_true, if_false, List.mem_cons,
      mem_iterValues_go n cur v hcur n 1 (by omega) (by omega)]
    constructor
    · rintro (h | h)
      · exact ⟨by omega, fun h' => by cases h'⟩
      · exact ⟨h.1, fun h' => by cases h'⟩
    · intro h
      have := h.1
      omega
  · rw [iterValues_fixed, List.mem_singleton]
    constructor
    · rintro rfl; exact ⟨hcur, fun _ => rfl⟩
    · intro h; exact h.2 (by trivial)

theorem nodup_iterValues (n cur : Nat) (fixed : Bool) (hcur : cur < n) :
    (iterValues n cur fixed).Nodup := by
  cases fixed
  · simp only [iterValues, Bool.false_eq_true, if_false, List.nodup_cons,
      mem_iterValues_go n cur cur hcur n 1 (by omega) (by omega)]
    exact ⟨by omega, nodup_iterValues_go n cur hcur n 1 (by omega) (by omega)⟩
  · simp [iterValues_fixed]

/-! ### neighborhood / inBox -/

theorem inBox_iff (nOpts x : List Nat) (fx : List Bool) (v : List Nat) :
    inBox nOpts x fx v = true ↔ v.length = nOpts.length ∧
      ∀ i, i < nOpts.length → v.getD i 0 < nOpts.getD i 0 ∧
        (fx.getD i false = true → v.getD i 0 = x.getD i 0) := by
  unfold inBox
  simp only [Bool.and_eq_true, beq_iff_eq, List.all_eq_true, List.mem_range, decide_eq_true_eq,
    Bool.or_eq_true, Bool.not_eq_true']
  constructor
  · rintro ⟨h1, h2⟩
    refine ⟨h1, fun i hi => ⟨(h2 i hi).1, fun hf => ?_⟩⟩
    rcases (h2 i hi).2 with h | h
    · rw [h] at hf; cases hf
    · exact h
  · rintro ⟨h1, h2⟩
    refine ⟨h1, fun i hi => ⟨(h2 i hi).1, ?_⟩⟩
    cases hf : fx.getD i false
    · exact Or.inl rfl
    · exact Or.inr ((h2 i hi).2 hf)

theorem getD_succ_tail {α} (l : List α) (i : Nat) (d : α) : l.getD (i + 1) d = l.tail.getD i d := by
  cases l <;> simp

theorem getD_zero_headD {α} (l : List α) (d : α) : l.getD 0 d = l.headD d := by
  cases l <;> simp

theorem inBox_cons (n : Nat) (ns x : List Nat) (fx : List Bool) (v0 : Nat) (vt : List Nat) :
    inBox (n :: ns) x fx (v0 :: vt) = true ↔
      (v0 < n ∧ (fx.headD false = true → v0 = x.headD 0)) ∧ inBox ns x.tail fx.tail vt = true := by
  rw [inBox_iff, inBox_iff]
  simp only [List.length_cons, Nat.add_right_cancel_iff]
  constructor
  · rintro ⟨h1, h2⟩
    refine ⟨?_, h1, fun i hi => ?_⟩
    · have := h2 0 (by omega)
      simpa [List.head?_eq_getElem?] using this
    · have := h2 (i + 1) (by omega)
      simpa [getD_succ_tail] using this
  · rintro ⟨h0, h1, h2⟩
    refine ⟨h1, fun i hi => ?_⟩
    cases i with
    | zero => simpa [List.head?_eq_getElem?] using h0
    | succ i =>
      have := h2 i (by omega)
      simpa [getD_succ_tail] using this

theorem inBox_nil_right (n : Nat) (ns x : List Nat) (fx : List Bool) :
    inBox (n :: ns) x fx [] = false := by
  simp [inBox]

theorem nodup_flatMap_cons {α} (l : List α) (m : List (List α)) (hl : l.Nodup) (hm : m.Nodup) :
    (l.flatMap (fun v => m.map (v :: ·))).Nodup := by
  induction l with
  | nil => simp
  | cons a l ih =>
    rw [List.nodup_cons] at hl
    rw [List.flatMap_cons, List.nodup_append]
    refine ⟨?_, ih hl.2, ?_⟩
    · exact (List.nodup_map_iff (fun _ _ h => List.tail_eq_of_cons_eq h)).2 hm
    · intro u hu w hw
      simp only [List.mem_map] at hu
      simp only [List.mem_flatMap, List.mem_map] at hw
      obtain ⟨t, _, rfl⟩ := hu
      obtain ⟨b, hb, t', _, rfl⟩ := hw
      intro he
      have : a = b := List.head_eq_of_cons_eq he
      exact hl.1 (this ▸ hb)

theorem neighborhood_spec : ∀ (nOpts x : List Nat) (fx : List Bool),
    x.length = nOpts.length → (∀ i, i < nOpts.length → x.getD i 0 < nOpts.getD i 0) →
    (neighborhood nOpts x fx).Nodup ∧
    (∀ v, v ∈ neighborhood nOpts x fx ↔ inBox nOpts x fx v = true) ∧
    (neighborhood nOpts x fx).head? = some x := by
  intro nOpts
  induction nOpts with
  | nil =>
    intro x fx hx _
    have hx' : x = [] := List.length_eq_zero_iff.1 hx
    subst hx'
    refine ⟨by simp [neighborhood], fun v => ?_, by simp [neighborhood]⟩
    simp [neighborhood, inBox_iff]
  | cons n ns ih =>
    intro x fx hx hin
    cases x with
    | nil => simp at hx
    | cons x0 xt =>
      simp only [List.length_cons, Nat.add_right_cancel_iff] at hx
      have h0 : x0 < n := by simpa using hin 0 (by simp)
      have hint : ∀ i, i < ns.length → xt.getD i 0 < ns.getD i 0 := by
        intro i hi
        simpa using hin (i + 1) (by simp; omega)
      obtain ⟨ih1, ih2, ih3⟩ := ih xt fx.tail hx hint
      simp only [neighborhood, List.headD_cons, List.tail_cons]
      refine ⟨nodup_flatMap_cons _ _ (nodup_iterValues n x0 _ h0) ih1, fun v => ?_, ?_⟩
      · cases v with
        | nil =>
          rw [inBox_nil_right]
          simp
        | cons v0 vt =>
          rw [inBox_cons]
          simp only [List.mem_flatMap, List.mem_map, List.cons.injEq, List.headD_cons,
            List.tail_cons]
          constructor
          · rintro ⟨b, hb, t, ht, rfl, rfl⟩
            exact ⟨(mem_iterValues n x0 b _ h0).1 hb, (ih2 t).1 ht⟩
          · rintro ⟨hb, ht⟩
            exact ⟨v0, (mem_iterValues n x0 v0 _ h0).2 hb, vt, (ih2 vt).2 ht, rfl, rfl⟩
      · obtain ⟨rest, hrest⟩ := iterValues_head n x0 (fx.headD false)
        rw [hrest]
        cases hn : neighborhood ns xt fx.tail with
        | nil => rw [hn] at ih3; simp at ih3
        | cons y ys =>
          rw [hn] at ih3
          simp only [List.head?_cons, Option.some.injEq] at ih3
          subst ih3
          simp

/-! ### greedy -/

theorem chooser_mem (choose : List Nat → Option Nat) (hc : ChooserOK choose) (l : List Nat) (c : Nat)
    (h : choose l = some c) : c ∈ l := by
  by_cases hl : l = []
  · rw [hl, hc.2] at h; cases h
  · obtain ⟨c', hc', he⟩ := hc.1 l hl
    rw [he] at h
    cases h
    exact hc'

theorem chooser_none (choose : List Nat → Option Nat) (hc : ChooserOK choose) (l : List Nat)
    (h : choose l = none) : l = [] := by
  by_contra hl
  obtain ⟨c', _, he⟩ := hc.1 l hl
  rw [he] at h
  cases h

/-- What a successful greedy step did. -/
theorem greedy_succ_some (g : DSG) (off : Offered) (choose : List Nat → Option Nat) (v : List Nat)
    (fuel : Nat) (acc s : Picks) (c : Nat) (hch : choose (nextChoices g acc) = some c)
    (h : greedy g off choose v (fuel + 1) acc = some s) :
    ∃ k, k ∈ off (assignOf g acc) c ∧ greedy g off choose v fuel ((c, k) :: acc) = some s := by
  simp only [greedy, hch] at h
  split at h
  · cases h
  · rename_i k hk
    exact ⟨k, by rw [hk]; simp, h⟩
  · split at h
    · rename_i hcont
      exact ⟨v.getD c 0, by simpa using hcont, h⟩
    · cases h

/-- A greedy step that follows the vector. -/
theorem greedy_step_eq (g : DSG) (off : Offered) (choose : List Nat → Option Nat) (v : List Nat)
    (fuel : Nat) (acc : Picks) (c k : Nat) (hch : choose (nextChoices g acc) = some c)
    (hk : k ∈ off (assignOf g acc) c) (hv : v.getD c 0 = k) :
    greedy g off choose v (fuel + 1) acc = greedy g off choose v fuel ((c, k) :: acc) := by
  simp only [greedy, hch]
  split
  · rename_i h0; rw [h0] at hk; cases hk
  · rename_i k' hk'
    rw [hk'] at hk
    rw [List.mem_singleton.1 hk]
  · have : (off (assignOf g acc) c).contains (v.getD c 0) = true := by
      rw [hv]; simpa using hk
    rw [if_pos this, hv]

/-- A successful greedy application is a valid run that ends in a state without open choices. -/
theorem greedy_run (g : DSG) (off : Offered) (choose : List Nat → Option Nat) (hc : ChooserOK choose)
    (v : List Nat) : ∀ (fuel : Nat) (acc s : Picks), greedy g off choose v fuel acc = some s →
      ∃ ops, run g off ops acc = some s ∧ nextChoices g s = [] := by
  intro fuel
  induction fuel with
  | zero =>
    intro acc s h
    simp only [greedy] at h
    split at h
    · rename_i hn
      cases h
      exact ⟨[], rfl, by simpa using hn⟩
    · cases h
  | succ fuel ih =>
    intro acc s h
    cases hch : choose (nextChoices g acc) with
    | none =>
      simp only [greedy, hch] at h
      cases h
      exact ⟨[], rfl, chooser_none choose hc _ hch⟩
    | some c =>
      obtain ⟨k, hk, hrec⟩ := greedy_succ_some g off choose v fuel acc s c hch h
      obtain ⟨ops, hops, hdone⟩ := ih _ _ hrec
      have hmem := chooser_mem choose hc _ c hch
      have hstep : stepOK g off acc c k = true := by
        rw [stepOK_iff]
        exact ⟨((mem_nextChoices g acc c).1 hmem).1, ((mem_nextChoices g acc c).1 hmem).2, hk⟩
      exact ⟨(c, k) :: ops, by simp [run, hstep, hops], hdone⟩

theorem feasibleRun_iff (g : DSG) (s : Picks) :
    feasibleRun g s = true ↔ nextChoices g s = [] ∧
      conflictFreeB g (closure g (assignOf g s)) = true ∧ consOK g (assignOf g s) = true := by
  simp [feasibleRun, and_assoc]

theorem fast_sound_aux (g : DSG) (hw : g.WF = true) (off : Offered) (hs : Sandwich g off)
    (choose : List Nat → Option Nat) (hc : ChooserOK choose) (nOpts x : List Nat) (fx : List Bool)
    (v : List Nat) (s : Picks) (h : fastDecode g off choose nOpts x fx = some (v, s)) :
    row g (assignOf g s) ∈ allRows g := by
  unfold fastDecode at h
  obtain ⟨w, _, hw'⟩ := List.exists_of_findSome?_eq_some h
  cases hgr : greedy g off choose w g.sel.length [] with
  | none => simp [hgr] at hw'
  | some s' =>
    simp only [hgr] at hw'
    split at hw'
    · rename_i hf
      simp only [Option.some.injEq, Prod.mk.injEq] at hw'
      obtain ⟨_, rfl⟩ := hw'
      obtain ⟨ops, hops, _⟩ := greedy_run g off choose hc w _ _ _ hgr
      obtain ⟨hdone, hcf, hcons⟩ := (feasibleRun_iff g s').1 hf
      exact feasible_final_is_arch_aux g hw off hs ops s' hops hdone hcf hcons
    · cases hw'

theorem fast_valid_unchanged_aux (g : DSG) (off : Offered) (choose : List Nat → Option Nat)
    (nOpts x : List Nat) (fx : List Bool) (hx : x.length = nOpts.length)
    (hin : ∀ i, i < nOpts.length → x.getD i 0 < nOpts.getD i 0)
    (s : Picks) (hg : greedy g off choose x g.sel.length [] = some s) (hf : feasibleRun g s = true) :
    fastDecode g off choose nOpts x fx = some (x, s) := by
  obtain ⟨_, _, hhead⟩ := neighborhood_spec nOpts x fx hx hin
  unfold fastDecode
  cases hn : neighborhood nOpts x fx with
  | nil => rw [hn] at hhead; simp at hhead
  | cons y ys =>
    rw [hn] at hhead
    simp only [List.head?_cons, Option.some.injEq] at hhead
    subst hhead
    simp [hg, hf]

/-! ### coverage -/

theorem vec_getD (a : Assign) (c k : Nat) (h : a.get c = some k) :
    (a.map (fun o => o.getD 0)).getD c 0 = k := by
  have hlt := get_lt_of_some a c k h
  unfold Assign.get at h
  rw [List.getElem?_eq_getElem hlt] at h
  simp only [Option.join_some] at h
  simp [List.getD_eq_getElem?_getD, List.getElem?_eq_getElem hlt, h]

theorem greedy_reaches (g : DSG) (hw : g.WF = true) (off : Offered) (hs : Sandwich g off)
    (choose : List Nat → Option Nat) (hc : ChooserOK choose) (a : Assign) (ha : a ∈ allAssigns g)
    (hadm : admissible g a = true) :
    ∀ (fuel : Nat) (acc : Picks), CanonInv g a acc → g.sel.length ≤ fuel + acc.length →
      ∃ s, greedy g off choose (a.map (fun o => o.getD 0)) fuel acc = some s ∧ CanonInv g a s ∧
        nextChoices g s = [] := by
  intro fuel
  induction fuel with
  | zero =>
    intro acc hinv hlen
    have hn := nextChoices_nil_of_full g acc hinv.1 (by omega)
    exact ⟨acc, by simp [greedy, hn], hinv, hn⟩
  | succ fuel ih =>
    intro acc hinv hlen
    cases hch : choose (nextChoices g acc) with
    | none =>
      exact ⟨acc, by simp [greedy, hch], hinv, chooser_none choose hc _ hch⟩
    | some c =>
      have hmem := chooser_mem choose hc _ c hch
      obtain ⟨k, hk, hstep, hinv'⟩ := canon_step g hw off hs a ha hadm acc hinv c hmem
      rw [stepOK_iff] at hstep
      rw [greedy_step_eq g off choose _ fuel acc c k hch hstep.2.2 (vec_getD a c k hk)]
      exact ih _ hinv' (by simp only [List.length_cons]; omega)

theorem fast_reaches_aux (g : DSG) (hw : g.WF = true) (off : Offered) (hs : Sandwich g off)
    (choose : List Nat → Option Nat) (hc : ChooserOK choose) (a : Assign) (ha : a ∈ allAssigns g)
    (hadm : admissible g a = true) :
    ∃ s, greedy g off choose (a.map (fun o => o.getD 0)) g.sel.length [] = some s ∧
      feasibleRun g s = true ∧ row g (assignOf g s) = row g a := by
  have h0 : CanonInv g a [] := ⟨⟨by simp, by simp⟩, by simp⟩
  obtain ⟨s, hgr, hinv, hdone⟩ :=
    greedy_reaches g hw off hs choose hc a ha hadm g.sel.length [] h0 (by simp)
  have hag := done_agree g s hdone a (canonInv_extends g a s hinv)
  obtain ⟨_, hcf, hcons⟩ := (admissible_split g a).1 hadm
  refine ⟨s, hgr, ?_, row_congr g hw _ a hag⟩
  rw [feasibleRun_iff]
  refine ⟨hdone, ?_, ?_⟩
  · rw [conflictFreeB_congr g _ _ (mem_closure_congr_active g hw _ a hag)]; exact hcf
  · rw [consOK_congr g hw _ a hag]; exact hcons

theorem length_of_mem_allAssigns (g : DSG) (a : Assign) (ha : a ∈ allAssigns g) :
    a.length = g.sel.length := by
  rw [mem_allAssigns_iff] at ha
  exact ha.length_eq.symm

theorem vec_in_box (g : DSG) (a : Assign) (ha : a ∈ allAssigns g) (i : Nat) (hi : i < g.sel.length) :
    (a.map (fun o => o.getD 0)).getD i 0 < (g.sel.map (fun c => max c.opts.length 1)).getD i 0 := by
  obtain ⟨h2, hok⟩ := optOK_of_mem_allAssigns g a ha i hi
  simp only [List.getD_eq_getElem?_getD, List.getElem?_map, List.getElem?_eq_getElem hi,
    List.getElem?_eq_getElem h2, Option.map_some, Option.getD_some]
  unfold OptOK at hok
  split at hok
  · rw [hok]; simp only [Option.getD_none]; omega
  · obtain ⟨k, hk, he⟩ := hok
    rw [he]
    simp only [Option.getD_some]
    omega

theorem fast_cover_aux (g : DSG) (hw : g.WF = true) (off : Offered) (hs : Sandwich g off)
    (choose : List Nat → Option Nat) (hc : ChooserOK choose) (r : List (Option Nat))
    (hr : r ∈ allRows g) :
    ∃ x s, fastDecode g off choose (g.sel.map (fun c => max c.opts.length 1)) x
        (List.replicate g.sel.length false) = some (x, s) ∧ row g (assignOf g s) = r := by
  obtain ⟨a, ha, hadm, rfl⟩ := (mem_allRows_iff g r).1 hr
  obtain ⟨s, hgr, hf, hrow⟩ := fast_reaches_aux g hw off hs choose hc a ha hadm
  refine ⟨a.map (fun o => o.getD 0), s, ?_, hrow⟩
  apply fast_valid_unchanged_aux _ _ _ _ _ _ _ _ s hgr hf
  · simp [length_of_mem_allAssigns g a ha]
  · intro i hi
    exact vec_in_box g a ha i (by simpa using hi)

theorem fast_total_aux (g : DSG) (hw : g.WF = true) (off : Offered) (hs : Sandwich g off)
    (choose : List Nat → Option Nat) (hc : ChooserOK choose) (hne : allRows g ≠ [])
    (x : List Nat) (hx : x.length = g.sel.length)
    (hin : ∀ i, i < g.sel.length →
      x.getD i 0 < (g.sel.map (fun c => max c.opts.length 1)).getD i 0) :
    (fastDecode g off choose (g.sel.map (fun c => max c.opts.length 1)) x
      (List.replicate g.sel.length false)).isSome = true := by
  obtain ⟨r, hr⟩ := List.exists_mem_of_ne_nil _ hne
  obtain ⟨a, ha, hadm, _⟩ := (mem_allRows_iff g r).1 hr
  obtain ⟨s, hgr, hf, _⟩ := fast_reaches_aux g hw off hs choose hc a ha hadm
  obtain ⟨_, hmem, _⟩ := neighborhood_spec (g.sel.map (fun c => max c.opts.length 1)) x
    (List.replicate g.sel.length false) (by simpa using hx) (fun i hi => hin i (by simpa using hi))
  have hy : a.map (fun o => o.getD 0) ∈ neighborhood (g.sel.map (fun c => max c.opts.length 1)) x
      (List.replicate g.sel.length false) := by
    rw [hmem, inBox_iff]
    refine ⟨by simp [length_of_mem_allAssigns g a ha], fun i hi => ?_⟩
    have hi' : i < g.sel.length := by simpa using hi
    refine ⟨vec_in_box g a ha i hi', fun hfalse => ?_⟩
    simp [List.getD_eq_getElem?_getD, hi'] at hfalse
  unfold fastDecode
  rw [List.findSome?_isSome_iff]
  exact ⟨_, hy, by simp [hgr, hf]⟩

end Adsg
