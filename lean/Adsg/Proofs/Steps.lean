/- Helper lemmas about Adsg/Model/Steps.lean (runs, picks, allAssigns, viable). -/
import Adsg.Model.Steps
import Adsg.Proofs.Closure
import Mathlib.Data.List.Perm.Basic
import Mathlib.Data.List.Nodup
import Mathlib.Data.List.Forall2
namespace Adsg

/-! ### dedup -/

theorem mem_dedup {α} [BEq α] [LawfulBEq α] (l : List α) (x : α) : x ∈ dedup l ↔ x ∈ l := by
  induction l with
  | nil => simp [dedup]
  | cons y ys ih =>
    simp only [dedup]
    by_cases h : (dedup ys).contains y = true
    · simp only [h, if_true, List.mem_cons, ih]
      constructor
      · exact Or.inr
      · rintro (rfl | h1)
        · exact ih.1 (by simpa using h)
        · exact h1
    · simp only [h, Bool.false_eq_true, if_false, List.mem_cons]
      rw [ih]

theorem dedup_eq_nil_iff {α} [BEq α] [LawfulBEq α] (l : List α) : dedup l = [] ↔ l = [] := by
  rw [List.eq_nil_iff_forall_not_mem, List.eq_nil_iff_forall_not_mem]
  simp only [mem_dedup]

/-! ### lookupPick / assignOf -/

theorem get_lt_of_some (a : Assign) (c k : Nat) (h : a.get c = some k) : c < a.length := by
  unfold Assign.get at h
  by_contra hc
  rw [List.getElem?_eq_none (by omega)] at h
  simp at h

theorem assignOf_get (g : DSG) (s : Picks) (c : Nat) :
    (assignOf g s).get c = if c < g.sel.length then lookupPick s c else none := by
  unfold Assign.get assignOf
  by_cases h : c < g.sel.length
  · simp [h]
  · simp [h]

theorem assignOf_get_of_lt (g : DSG) (s : Picks) (c : Nat) (h : c < g.sel.length) :
    (assignOf g s).get c = lookupPick s c := by
  rw [assignOf_get, if_pos h]

theorem assignOf_get_some (g : DSG) (s : Picks) (c k : Nat) :
    (assignOf g s).get c = some k ↔ c < g.sel.length ∧ lookupPick s c = some k := by
  rw [assignOf_get]
  by_cases h : c < g.sel.length <;> simp [h]

theorem lookupPick_nil (c : Nat) : lookupPick [] c = none := rfl

theorem lookupPick_cons (p : Nat × Nat) (s : Picks) (c : Nat) :
    lookupPick (p :: s) c = if p.1 = c then some p.2 else lookupPick s c := by
  unfold lookupPick
  by_cases h : p.1 = c <;> simp [h]

theorem lookupPick_eq_none_iff (s : Picks) (c : Nat) :
    lookupPick s c = none ↔ c ∉ s.map Prod.fst := by
  induction s with
  | nil => simp [lookupPick_nil]
  | cons p s ih =>
    rw [lookupPick_cons]
    by_cases h : p.1 = c
    · simp [h]
    · simp only [h, if_false, ih, List.map_cons, List.mem_cons]
      constructor
      · rintro h1 (h2 | h2)
        · exact h h2.symm
        · exact h1 h2
      · intro h1 h2; exact h1 (Or.inr h2)

theorem mem_of_lookupPick (s : Picks) (c k : Nat) (h : lookupPick s c = some k) : (c, k) ∈ s := by
  induction s with
  | nil => simp [lookupPick_nil] at h
  | cons p s ih =>
    rw [lookupPick_cons] at h
    by_cases hp : p.1 = c
    · simp only [hp, if_true, Option.some.injEq] at h
      have : p = (c, k) := by cases p; simp_all
      simp [this]
    · simp only [hp, if_false] at h
      exact List.mem_cons_of_mem _ (ih h)

theorem lookupPick_of_mem (s : Picks) (hnd : (s.map Prod.fst).Nodup) (c k : Nat) (h : (c, k) ∈ s) :
    lookupPick s c = some k := by
  induction s with
  | nil => simp at h
  | cons p s ih =>
    rw [lookupPick_cons]
    simp only [List.map_cons, List.nodup_cons] at hnd
    rcases List.mem_cons.1 h with h1 | h1
    · subst h1; simp
    · have hne : p.1 ≠ c := by
        intro he
        apply hnd.1
        rw [he]
        exact List.mem_map.2 ⟨(c, k), h1, rfl⟩
      simp only [hne, if_false]
      exact ih hnd.2 h1

theorem lookupPick_eq_some_iff (s : Picks) (hnd : (s.map Prod.fst).Nodup) (c k : Nat) :
    lookupPick s c = some k ↔ (c, k) ∈ s :=
  ⟨mem_of_lookupPick s c k, lookupPick_of_mem s hnd c k⟩

theorem lookupPick_perm (s₁ s₂ : Picks) (hp : s₁.Perm s₂) (hnd : (s₁.map Prod.fst).Nodup) (c : Nat) :
    lookupPick s₁ c = lookupPick s₂ c := by
  have hnd2 : (s₂.map Prod.fst).Nodup := (hp.map Prod.fst).nodup_iff.1 hnd
  apply Option.ext
  intro k
  rw [lookupPick_eq_some_iff s₁ hnd, lookupPick_eq_some_iff s₂ hnd2]
  exact hp.mem_iff

/-! ### steps and runs -/

theorem mem_nextChoices (g : DSG) (s : Picks) (c : Nat) :
    c ∈ nextChoices g s ↔ c ∈ activeChoices g (assignOf g s) ∧ lookupPick s c = none := by
  simp [nextChoices, List.mem_filter]

theorem lt_of_mem_activeChoices (g : DSG) (a : Assign) (c : Nat) (h : c ∈ activeChoices g a) :
    c < g.sel.length := by
  simp only [activeChoices, List.mem_filter, List.mem_range] at h
  exact h.1

theorem stepOK_iff (g : DSG) (off : Offered) (acc : Picks) (c k : Nat) :
    stepOK g off acc c k = true ↔
      c ∈ activeChoices g (assignOf g acc) ∧ lookupPick acc c = none ∧ k ∈ off (assignOf g acc) c := by
  simp [stepOK, mem_nextChoices, and_assoc]

theorem run_append (g : DSG) (off : Offered) (ops₁ ops₂ acc : Picks) :
    run g off (ops₁ ++ ops₂) acc = (run g off ops₁ acc).bind (run g off ops₂) := by
  induction ops₁ generalizing acc with
  | nil => simp [run]
  | cons p ops ih =>
    obtain ⟨c, k⟩ := p
    simp only [List.cons_append, run]
    by_cases h : stepOK g off acc c k = true
    · simp [h, ih]
    · simp [h]

theorem run_eq_reverse (g : DSG) (off : Offered) (ops acc s : Picks) (h : run g off ops acc = some s) :
    s = ops.reverse ++ acc := by
  induction ops generalizing acc with
  | nil => simp [run] at h; simp [h]
  | cons p ops ih =>
    obtain ⟨c, k⟩ := p
    simp only [run] at h
    by_cases hs : stepOK g off acc c k = true
    · simp only [hs, if_true] at h
      rw [ih _ h]; simp
    · simp [hs] at h

/-- Any property preserved by valid steps holds at the end of a valid run. -/
theorem run_induction (g : DSG) (off : Offered) (P : Picks → Prop)
    (hstep : ∀ acc c k, P acc → stepOK g off acc c k = true → P ((c, k) :: acc))
    (ops acc s : Picks) (h : run g off ops acc = some s) (h0 : P acc) : P s := by
  induction ops generalizing acc with
  | nil => simp [run] at h; rw [← h]; exact h0
  | cons p ops ih =>
    obtain ⟨c, k⟩ := p
    simp only [run] at h
    by_cases hs : stepOK g off acc c k = true
    · simp only [hs, if_true] at h
      exact ih _ h (hstep acc c k h0 hs)
    · simp [hs] at h

/-- Keys are pairwise distinct and in range. -/
def KeysOK (g : DSG) (s : Picks) : Prop := (s.map Prod.fst).Nodup ∧ ∀ p ∈ s, p.1 < g.sel.length

theorem keysOK_step (g : DSG) (off : Offered) (acc : Picks) (c k : Nat) (h : KeysOK g acc)
    (hs : stepOK g off acc c k = true) : KeysOK g ((c, k) :: acc) := by
  rw [stepOK_iff] at hs
  obtain ⟨hact, hnone, _⟩ := hs
  refine ⟨?_, ?_⟩
  · simp only [List.map_cons, List.nodup_cons]
    exact ⟨(lookupPick_eq_none_iff acc c).1 hnone, h.1⟩
  · intro p hp
    rcases List.mem_cons.1 hp with rfl | hp
    · exact lt_of_mem_activeChoices g _ c hact
    · exact h.2 p hp

theorem run_keysOK (g : DSG) (off : Offered) (ops s : Picks) (h : run g off ops [] = some s) :
    KeysOK g s :=
  run_induction g off (KeysOK g) (fun acc c k => keysOK_step g off acc c k) ops [] s h
    ⟨by simp, by simp⟩

theorem run_inRange (g : DSG) (off : Offered) (hsw : Sandwich g off) (ops s : Picks)
    (h : run g off ops [] = some s) : ∀ p ∈ s, p.2 < nOpts g p.1 := by
  refine run_induction g off (fun s => ∀ p ∈ s, p.2 < nOpts g p.1) ?_ ops [] s h (by simp)
  intro acc c k h0 hs p hp
  rw [stepOK_iff] at hs
  rcases List.mem_cons.1 hp with rfl | hp
  · exact (hsw _ _).2 _ hs.2.2
  · exact h0 p hp

theorem assignOf_congr (g : DSG) (s₁ s₂ : Picks) (h : ∀ c, lookupPick s₁ c = lookupPick s₂ c) :
    assignOf g s₁ = assignOf g s₂ := by
  unfold assignOf
  exact List.map_congr_left (fun c _ => h c)

theorem nextChoices_congr (g : DSG) (s₁ s₂ : Picks) (h : ∀ c, lookupPick s₁ c = lookupPick s₂ c) :
    nextChoices g s₁ = nextChoices g s₂ := by
  unfold nextChoices
  rw [assignOf_congr g s₁ s₂ h]
  exact List.filter_congr (fun c _ => by rw [h c])

theorem run_perm_aux (g : DSG) (off : Offered) (ops₁ ops₂ s₁ s₂ : Picks)
    (h₁ : run g off ops₁ [] = some s₁) (h₂ : run g off ops₂ [] = some s₂) (hp : ops₁.Perm ops₂) :
    assignOf g s₁ = assignOf g s₂ ∧ nextChoices g s₁ = nextChoices g s₂ := by
  have e₁ := run_eq_reverse g off ops₁ [] s₁ h₁
  have e₂ := run_eq_reverse g off ops₂ [] s₂ h₂
  simp only [List.append_nil] at e₁ e₂
  have hperm : s₁.Perm s₂ := by
    rw [e₁, e₂]
    exact (List.reverse_perm _).trans (hp.trans (List.reverse_perm _).symm)
  have hl := lookupPick_perm s₁ s₂ hperm (run_keysOK g off ops₁ s₁ h₁).1
  exact ⟨assignOf_congr g s₁ s₂ hl, nextChoices_congr g s₁ s₂ hl⟩

/-! ### congruence on active choices -/

theorem conflictFreeB_congr (g : DSG) (X Y : List Node) (h : ∀ v, v ∈ X ↔ v ∈ Y) :
    conflictFreeB g X = conflictFreeB g Y := by
  have hc : ∀ v, X.contains v = Y.contains v := by
    intro v; rw [Bool.eq_iff_iff]; simp [h v]
  unfold conflictFreeB
  simp only [hc]

theorem conflictFreeB_iff (g : DSG) (X : List Node) :
    conflictFreeB g X = true ↔ ∀ e ∈ g.incompat, ¬ (e.1 ∈ X ∧ e.2 ∈ X) := by
  unfold conflictFreeB
  rw [List.all_eq_true]
  constructor
  · rintro h e he ⟨h1, h2⟩
    have := h e he
    simp [h1, h2] at this
  · intro h e he
    have := h e he
    by_cases h1 : e.1 ∈ X <;> by_cases h2 : e.2 ∈ X <;> simp_all

theorem activeResolved_congr (g : DSG) (hw : g.WF = true) (a b : Assign)
    (hag : ∀ c ∈ activeChoices g a, a.get c = b.get c) : activeResolved g a = activeResolved g b := by
  unfold activeResolved
  rw [← activeChoices_congr g hw a b hag, Bool.eq_iff_iff, List.all_eq_true, List.all_eq_true]
  constructor <;> intro h c hc
  · rw [← selectedOpt_of_get_eq g a b c (hag c hc)]; exact h c hc
  · rw [selectedOpt_of_get_eq g a b c (hag c hc)]; exact h c hc

theorem consOK_congr (g : DSG) (hw : g.WF = true) (a b : Assign)
    (hag : ∀ c ∈ activeChoices g a, a.get c = b.get c) : consOK g a = consOK g b := by
  unfold consOK
  simp only
  rw [← activeChoices_congr g hw a b hag]
  have key : ∀ k : ChoiceCons,
      (k.choices.filter ((activeChoices g a).contains ·)).filterMap (a.get ·) =
      (k.choices.filter ((activeChoices g a).contains ·)).filterMap (b.get ·) := by
    intro k
    apply List.filterMap_congr
    intro c hc
    rw [List.mem_filter] at hc
    exact hag c (by simpa using hc.2)
  simp only [key]

theorem row_congr (g : DSG) (hw : g.WF = true) (a b : Assign)
    (hag : ∀ c ∈ activeChoices g a, a.get c = b.get c) : row g a = row g b := by
  unfold row
  simp only
  rw [← activeChoices_congr g hw a b hag]
  apply List.map_congr_left
  intro c _
  by_cases h : c ∈ activeChoices g a
  · simp [h, hag c h]
  · simp [h]

theorem admissible_congr (g : DSG) (hw : g.WF = true) (a b : Assign)
    (hag : ∀ c ∈ activeChoices g a, a.get c = b.get c) : admissible g a = admissible g b := by
  unfold admissible
  rw [activeResolved_congr g hw a b hag, consOK_congr g hw a b hag,
    conflictFreeB_congr g _ _ (mem_closure_congr_active g hw a b hag)]

/-- In a state without open choices, every extension agrees with the picks on all active choices. -/
theorem done_agree (g : DSG) (s : Picks) (hdone : nextChoices g s = []) (a : Assign)
    (hext : ∀ c k, (assignOf g s).get c = some k → a.get c = some k) :
    ∀ c ∈ activeChoices g (assignOf g s), (assignOf g s).get c = a.get c := by
  intro c hc
  have hlt := lt_of_mem_activeChoices g _ c hc
  cases hl : lookupPick s c with
  | none =>
    exfalso
    have : c ∈ nextChoices g s := (mem_nextChoices g s c).2 ⟨hc, hl⟩
    rw [hdone] at this
    simp at this
  | some k =>
    have h1 : (assignOf g s).get c = some k := by rw [assignOf_get_of_lt _ _ _ hlt, hl]
    rw [h1, hext c k h1]

theorem done_taken (g : DSG) (s : Picks) (hdone : nextChoices g s = []) (c : Nat)
    (hc : c ∈ activeChoices g (assignOf g s)) : ∃ k, lookupPick s c = some k := by
  cases hl : lookupPick s c with
  | none =>
    exfalso
    have : c ∈ nextChoices g s := (mem_nextChoices g s c).2 ⟨hc, hl⟩
    rw [hdone] at this
    simp at this
  | some k => exact ⟨k, rfl⟩

theorem complete_run_eq_closure_aux (g : DSG) (hw : g.WF = true) (s : Picks)
    (hdone : nextChoices g s = []) (a : Assign)
    (hext : ∀ c k, (assignOf g s).get c = some k → a.get c = some k) (v : Node) :
    v ∈ closure g a ↔ v ∈ closure g (assignOf g s) :=
  (mem_closure_congr_active g hw (assignOf g s) a (done_agree g s hdone a hext) v).symm

/-! ### allAssigns -/

/-- The value `v` is a legal total-assignment entry for choice `ch`. -/
def OptOK (ch : SelChoice) (v : Option Nat) : Prop :=
  if ch.opts.isEmpty then v = none else ∃ k, k < ch.opts.length ∧ v = some k

theorem mem_allAssigns_aux (sel : List SelChoice) (a : Assign) :
    a ∈ sel.foldr (fun ch acc =>
      let vals : List (Option Nat) :=
        if ch.opts.isEmpty then [none] else (List.range ch.opts.length).map some
      vals.flatMap (fun v => acc.map (v :: ·))) [[]] ↔ List.Forall₂ OptOK sel a := by
  induction sel generalizing a with
  | nil => simp
  | cons ch sel ih =>
    rw [List.forall₂_cons_left_iff]
    simp only [List.foldr_cons, List.mem_flatMap, List.mem_map]
    constructor
    · rintro ⟨v, hv, t, ht, rfl⟩
      refine ⟨v, t, ?_, (ih t).1 ht, rfl⟩
      unfold OptOK
      split at hv
      · rename_i h; simp only [h, if_true]; simpa using hv
      · rename_i h
        simp only [h]
        simp only [List.mem_map, List.mem_range] at hv
        obtain ⟨k, hk, rfl⟩ := hv
        exact ⟨k, hk, rfl⟩
    · rintro ⟨v, t, hv, ht, rfl⟩
      refine ⟨v, ?_, t, (ih t).2 ht, rfl⟩
      unfold OptOK at hv
      split at hv
      · rename_i h; simp only [h, if_true]; simpa using hv
      · rename_i h
        simp only [h]
        obtain ⟨k, hk, rfl⟩ := hv
        simp only [Bool.false_eq_true, if_false, List.mem_map, List.mem_range]
        exact ⟨k, hk, rfl⟩

theorem mem_allAssigns_iff (g : DSG) (a : Assign) :
    a ∈ allAssigns g ↔ List.Forall₂ OptOK g.sel a :=
  mem_allAssigns_aux g.sel a

theorem mem_allAssigns_of_index (g : DSG) (a : Assign) (hlen : g.sel.length = a.length)
    (h : ∀ c (h1 : c < g.sel.length) (h2 : c < a.length), OptOK g.sel[c] a[c]) :
    a ∈ allAssigns g := by
  rw [mem_allAssigns_iff, List.forall₂_iff_get]
  exact ⟨hlen, fun i h1 h2 => by simpa using h i h1 h2⟩

theorem optOK_of_mem_allAssigns (g : DSG) (a : Assign) (ha : a ∈ allAssigns g) (c : Nat)
    (h1 : c < g.sel.length) : ∃ h2 : c < a.length, OptOK g.sel[c] a[c] := by
  rw [mem_allAssigns_iff, List.forall₂_iff_get] at ha
  have h2 : c < a.length := by omega
  exact ⟨h2, by simpa using ha.2 c h1 h2⟩

theorem nOpts_of_lt (g : DSG) (c : Nat) (hc : c < g.sel.length) :
    nOpts g c = g.sel[c].opts.length := by
  unfold nOpts
  rw [List.getElem?_eq_getElem hc]

theorem lt_nOpts_of_mem_allAssigns (g : DSG) (b : Assign) (hb : b ∈ allAssigns g) (c k : Nat)
    (hc : c < g.sel.length) (hk : b.get c = some k) : k < nOpts g c := by
  obtain ⟨h2, hok⟩ := optOK_of_mem_allAssigns g b hb c hc
  have hbc : b[c] = some k := by
    unfold Assign.get at hk
    rw [List.getElem?_eq_getElem h2] at hk
    simpa using hk
  rw [nOpts_of_lt g c hc]
  unfold OptOK at hok
  rw [hbc] at hok
  split at hok
  · simp at hok
  · obtain ⟨k', hk', e⟩ := hok
    cases e
    exact hk'

/-! ### extendsB / viable / allRows -/

theorem extendsB_iff (g : DSG) (a b : Assign) :
    extendsB g a b = true ↔ ∀ c, c < g.sel.length → ∀ k, a.get c = some k → b.get c = some k := by
  unfold extendsB
  rw [List.all_eq_true]
  simp only [List.mem_range]
  constructor
  · intro h c hc k hk
    have := h c hc
    rw [hk] at this
    simp only [Option.isNone_some, Bool.false_or, beq_iff_eq] at this
    exact this.symm
  · intro h c hc
    cases hk : a.get c with
    | none => simp
    | some k => simp [h c hc k hk]

theorem extendsB_assignOf_iff (g : DSG) (s : Picks) (b : Assign) :
    extendsB g (assignOf g s) b = true ↔ ∀ c k, (assignOf g s).get c = some k → b.get c = some k := by
  rw [extendsB_iff]
  constructor
  · intro h c k hk
    exact h c ((assignOf_get_some g s c k).1 hk).1 k hk
  · intro h c _ k hk
    exact h c k hk

theorem mem_viable_iff_aux (g : DSG) (a : Assign) (c k : Nat) :
    k ∈ viable g a c ↔ k < nOpts g c ∧ ∃ b ∈ allAssigns g, admissible g b = true ∧
      extendsB g a b = true ∧ b.get c = some k := by
  unfold viable nOpts
  cases g.sel[c]? with
  | none => simp
  | some ch => simp [List.mem_filter, List.any_eq_true, and_assoc]

theorem needed_option_viable_aux (g : DSG) (a b : Assign) (c k : Nat) (hb : b ∈ allAssigns g)
    (hadm : admissible g b = true) (hext : extendsB g a b = true) (hk : b.get c = some k)
    (hc : c < g.sel.length) : k ∈ viable g a c :=
  (mem_viable_iff_aux g a c k).2
    ⟨lt_nOpts_of_mem_allAssigns g b hb c k hc hk, b, hb, hadm, hext, hk⟩

theorem mem_allRows_iff (g : DSG) (r : List (Option Nat)) :
    r ∈ allRows g ↔ ∃ a ∈ allAssigns g, admissible g a = true ∧ row g a = r := by
  unfold allRows
  rw [mem_dedup]
  simp [List.mem_map, List.mem_filter, and_assoc]

theorem allRows_eq_nil_iff (g : DSG) :
    allRows g = [] ↔ ∀ a ∈ allAssigns g, admissible g a = false := by
  rw [List.eq_nil_iff_forall_not_mem]
  simp only [mem_allRows_iff]
  constructor
  · intro h a ha
    cases hadm : admissible g a with
    | false => rfl
    | true => exact absurd ⟨a, ha, hadm, rfl⟩ (h (row g a))
  · rintro h r ⟨a, ha, hadm, _⟩
    rw [h a ha] at hadm
    cases hadm

theorem admissible_split (g : DSG) (a : Assign) :
    admissible g a = true ↔
      activeResolved g a = true ∧ conflictFreeB g (closure g a) = true ∧ consOK g a = true := by
  simp [admissible, and_assoc]

theorem arch_conflict_free_aux (g : DSG) (r : List (Option Nat)) (hr : r ∈ allRows g) :
    ∃ a ∈ allAssigns g, admissible g a = true ∧ row g a = r ∧
      ∀ e ∈ g.incompat, ¬ (e.1 ∈ closure g a ∧ e.2 ∈ closure g a) := by
  obtain ⟨a, ha, hadm, hrow⟩ := (mem_allRows_iff g r).1 hr
  exact ⟨a, ha, hadm, hrow, (conflictFreeB_iff g _).1 ((admissible_split g a).1 hadm).2.1⟩

theorem forced_conflict_aux (g : DSG) (hw : g.WF = true) (p a : Assign)
    (hext : ∀ c k, p.get c = some k → a.get c = some k)
    (e : Node × Node) (he : e ∈ g.incompat) (h1 : e.1 ∈ closure g p) (h2 : e.2 ∈ closure g p) :
    admissible g a = false := by
  cases hadm : admissible g a with
  | false => rfl
  | true =>
    exfalso
    have hcf := (conflictFreeB_iff g _).1 ((admissible_split g a).1 hadm).2.1
    exact hcf e he ⟨closure_mono g hw p a hext _ h1, closure_mono g hw p a hext _ h2⟩

theorem conflicting_option_not_viable_aux (g : DSG) (hw : g.WF = true) (ops : Picks) (c k : Nat)
    (e : Node × Node) (he : e ∈ g.incompat)
    (h1 : e.1 ∈ closure g (assignOf g ((c, k) :: ops)))
    (h2 : e.2 ∈ closure g (assignOf g ((c, k) :: ops))) :
    k ∉ viable g (assignOf g ops) c := by
  intro hv
  obtain ⟨_, b, _, hadm, hext, hk⟩ := (mem_viable_iff_aux g _ c k).1 hv
  rw [extendsB_assignOf_iff] at hext
  have hext' : ∀ c' k', (assignOf g ((c, k) :: ops)).get c' = some k' → b.get c' = some k' := by
    intro c' k' h
    rw [assignOf_get_some, lookupPick_cons] at h
    obtain ⟨hlt, h⟩ := h
    by_cases hcc : c = c'
    · subst hcc
      simp only [if_true, Option.some.injEq] at h
      rw [← h]; exact hk
    · simp only [hcc, if_false] at h
      exact hext c' k' ((assignOf_get_some g ops c' k').2 ⟨hlt, h⟩)
  have := forced_conflict_aux g hw _ b hext' e he h1 h2
  rw [hadm] at this
  cases this

/-! ### the canonical run -/

/-- Invariant of the canonical run towards `a`: distinct in-range keys, every pick is `a`'s. -/
def CanonInv (g : DSG) (a : Assign) (s : Picks) : Prop :=
  KeysOK g s ∧ ∀ p ∈ s, a.get p.1 = some p.2

theorem canonInv_extends (g : DSG) (a : Assign) (s : Picks) (h : CanonInv g a s) :
    ∀ c k, (assignOf g s).get c = some k → a.get c = some k := by
  intro c k hck
  rw [assignOf_get_some] at hck
  exact h.2 (c, k) (mem_of_lookupPick s c k hck.2)

theorem selectedOpt_isSome_get (g : DSG) (a : Assign) (c : Nat)
    (h : (selectedOpt g a c).isSome = true) : ∃ k, a.get c = some k := by
  unfold selectedOpt at h
  cases hk : a.get c with
  | some k => exact ⟨k, rfl⟩
  | none =>
    rw [hk] at h
    cases hs : g.sel[c]? <;> simp [hs] at h

theorem selectedOpt_isSome_of (g : DSG) (a : Assign) (c k : Nat) (hc : c < g.sel.length)
    (hk : a.get c = some k) (hlt : k < nOpts g c) : (selectedOpt g a c).isSome = true := by
  rw [nOpts_of_lt g c hc] at hlt
  unfold selectedOpt
  rw [hk, List.getElem?_eq_getElem hc]
  simp only
  rw [List.getElem?_eq_getElem hlt]
  rfl

theorem canon_step (g : DSG) (hw : g.WF = true) (off : Offered) (hsw : Sandwich g off)
    (a : Assign) (ha : a ∈ allAssigns g) (hadm : admissible g a = true)
    (acc : Picks) (hinv : CanonInv g a acc) (c : Nat) (hc : c ∈ nextChoices g acc) :
    ∃ k, a.get c = some k ∧ stepOK g off acc c k = true ∧ CanonInv g a ((c, k) :: acc) := by
  obtain ⟨hact, hnone⟩ := (mem_nextChoices g acc c).1 hc
  have hlt := lt_of_mem_activeChoices g _ c hact
  have hext := canonInv_extends g a acc hinv
  have hacta : c ∈ activeChoices g a := by
    rw [mem_activeChoices] at hact ⊢
    obtain ⟨ch, h1, h2⟩ := hact
    exact ⟨ch, h1, closure_mono g hw _ a hext _ h2⟩
  have hres := ((admissible_split g a).1 hadm).1
  unfold activeResolved at hres
  rw [List.all_eq_true] at hres
  obtain ⟨k, hk⟩ := selectedOpt_isSome_get g a c (hres c hacta)
  have hstep : stepOK g off acc c k = true := by
    rw [stepOK_iff]
    refine ⟨hact, hnone, (hsw _ _).1 k ?_⟩
    exact needed_option_viable_aux g _ a c k ha hadm
      ((extendsB_assignOf_iff g acc a).2 hext) hk hlt
  refine ⟨k, hk, hstep, keysOK_step g off acc c k hinv.1 hstep, ?_⟩
  intro p hp
  rcases List.mem_cons.1 hp with rfl | hp
  · exact hk
  · exact hinv.2 p hp

theorem nextChoices_nil_of_full (g : DSG) (acc : Picks) (hk : KeysOK g acc)
    (hlen : g.sel.length ≤ acc.length) : nextChoices g acc = [] := by
  rw [List.eq_nil_iff_forall_not_mem]
  intro c hc
  obtain ⟨hact, hnone⟩ := (mem_nextChoices g acc c).1 hc
  have hlt := lt_of_mem_activeChoices g _ c hact
  have hnot := (lookupPick_eq_none_iff acc c).1 hnone
  have hnd : (c :: acc.map Prod.fst).Nodup := List.nodup_cons.2 ⟨hnot, hk.1⟩
  have hb : Bounded g.sel.length (c :: acc.map Prod.fst) := by
    intro v hv
    rcases List.mem_cons.1 hv with rfl | hv
    · exact hlt
    · obtain ⟨p, hp, rfl⟩ := List.mem_map.1 hv
      exact hk.2 p hp
  have := length_le_of_bounded _ _ hnd hb
  simp at this
  omega

theorem canonRun_spec (g : DSG) (hw : g.WF = true) (off : Offered) (hsw : Sandwich g off)
    (a : Assign) (ha : a ∈ allAssigns g) (hadm : admissible g a = true) :
    ∀ (fuel : Nat) (acc : Picks), CanonInv g a acc → (∃ ops, run g off ops [] = some acc) →
      g.sel.length ≤ fuel + acc.length →
      CanonInv g a (canonRun g a fuel acc) ∧
      (∃ ops, run g off ops [] = some (canonRun g a fuel acc)) ∧
      nextChoices g (canonRun g a fuel acc) = [] := by
  intro fuel
  induction fuel with
  | zero =>
    intro acc hinv hrun hlen
    simp only [canonRun]
    exact ⟨hinv, hrun, nextChoices_nil_of_full g acc hinv.1 (by omega)⟩
  | succ fuel ih =>
    intro acc hinv hrun hlen
    cases hnc : nextChoices g acc with
    | nil =>
      simp only [canonRun, hnc]
      exact ⟨hinv, hrun, trivial⟩
    | cons c rest =>
      have hc : c ∈ nextChoices g acc := by rw [hnc]; simp
      obtain ⟨k, hk, hstep, hinv'⟩ := canon_step g hw off hsw a ha hadm acc hinv c hc
      simp only [canonRun, hnc, hk]
      apply ih _ hinv'
      · obtain ⟨ops, hops⟩ := hrun
        refine ⟨ops ++ [(c, k)], ?_⟩
        rw [run_append, hops]
        simp [run, hstep]
      · simp only [List.length_cons]; omega

theorem canonical_run_exists_aux (g : DSG) (hw : g.WF = true) (off : Offered) (hs : Sandwich g off)
    (a : Assign) (ha : a ∈ allAssigns g) (hadm : admissible g a = true) :
    ∃ ops s, run g off ops [] = some s ∧ nextChoices g s = [] ∧
      (∀ v, v ∈ closure g (assignOf g s) ↔ v ∈ closure g a) ∧
      row g (assignOf g s) = row g a := by
  have h0 : CanonInv g a [] := ⟨⟨by simp, by simp⟩, by simp⟩
  obtain ⟨hinv, ⟨ops, hops⟩, hdone⟩ :=
    canonRun_spec g hw off hs a ha hadm g.sel.length [] h0 ⟨[], rfl⟩ (by simp)
  refine ⟨ops, _, hops, hdone, ?_, ?_⟩
  · intro v
    exact (complete_run_eq_closure_aux g hw _ hdone a (canonInv_extends g a _ hinv) v).symm
  · exact row_congr g hw _ a (done_agree g _ hdone a (canonInv_extends g a _ hinv))

theorem arch_is_reachable_aux (g : DSG) (hw : g.WF = true) (off : Offered) (hs : Sandwich g off)
    (r : List (Option Nat)) (hr : r ∈ allRows g) :
    ∃ ops s, run g off ops [] = some s ∧ nextChoices g s = [] ∧ row g (assignOf g s) = r := by
  obtain ⟨a, ha, hadm, rfl⟩ := (mem_allRows_iff g r).1 hr
  obtain ⟨ops, s, h1, h2, _, h4⟩ := canonical_run_exists_aux g hw off hs a ha hadm
  exact ⟨ops, s, h1, h2, h4⟩

/-! ### complete valid runs are enumerated -/

/-- Total completion of a list of picks: untaken choices get option 0 (or `none` without options). -/
def totalOf (g : DSG) (s : Picks) : Assign :=
  (List.range g.sel.length).map (fun c =>
    match lookupPick s c with
    | some k => some k
    | none => if nOpts g c = 0 then none else some 0)

theorem totalOf_extends (g : DSG) (s : Picks) :
    ∀ c k, (assignOf g s).get c = some k → (totalOf g s).get c = some k := by
  intro c k h
  rw [assignOf_get_some] at h
  obtain ⟨hlt, hl⟩ := h
  unfold totalOf Assign.get
  simp [hlt, hl]

theorem totalOf_mem_allAssigns (g : DSG) (s : Picks) (hr : ∀ p ∈ s, p.2 < nOpts g p.1) :
    totalOf g s ∈ allAssigns g := by
  apply mem_allAssigns_of_index
  · simp [totalOf]
  · intro c h1 h2
    have hn := nOpts_of_lt g c h1
    unfold OptOK
    simp only [totalOf, List.getElem_map, List.getElem_range]
    cases hl : lookupPick s c with
    | some k =>
      have hk : k < nOpts g c := hr (c, k) (mem_of_lookupPick s c k hl)
      rw [hn] at hk
      have hne : g.sel[c].opts.isEmpty = false := by
        cases ho : g.sel[c].opts with
        | nil => rw [ho] at hk; simp at hk
        | cons _ _ => rfl
      simp only [hne]
      exact ⟨k, hk, rfl⟩
    | none =>
      simp only
      rw [hn]
      cases ho : g.sel[c].opts with
      | nil => simp
      | cons x xs => simp

theorem admissible_row_enumerated_aux (g : DSG) (a : Assign) (ha : a ∈ allAssigns g)
    (hadm : admissible g a = true) : row g a ∈ allRows g :=
  (mem_allRows_iff g _).2 ⟨a, ha, hadm, rfl⟩

theorem feasible_final_is_arch_aux (g : DSG) (hw : g.WF = true) (off : Offered)
    (hs : Sandwich g off) (ops s : Picks) (hr : run g off ops [] = some s)
    (hdone : nextChoices g s = [])
    (hcf : conflictFreeB g (closure g (assignOf g s)) = true)
    (hcons : consOK g (assignOf g s) = true) :
    row g (assignOf g s) ∈ allRows g := by
  have hrange := run_inRange g off hs ops s hr
  have hag := done_agree g s hdone (totalOf g s) (totalOf_extends g s)
  have hres : activeResolved g (assignOf g s) = true := by
    unfold activeResolved
    rw [List.all_eq_true]
    intro c hc
    obtain ⟨k, hk⟩ := done_taken g s hdone c hc
    have hlt := lt_of_mem_activeChoices g _ c hc
    exact selectedOpt_isSome_of g _ c k hlt ((assignOf_get_some g s c k).2 ⟨hlt, hk⟩)
      (hrange (c, k) (mem_of_lookupPick s c k hk))
  have hadm : admissible g (totalOf g s) = true := by
    rw [← admissible_congr g hw _ _ hag, admissible_split]
    exact ⟨hres, hcf, hcons⟩
  rw [row_congr g hw _ _ hag]
  exact admissible_row_enumerated_aux g _ (totalOf_mem_allAssigns g s hrange) hadm

end Adsg
