/-
  Helper lemmas for the activeness / canonical-value / onto-ness theorems of the decode model
  (C07, C04 part 2), on top of Adsg/Proofs/Decode.lean.
-/
import Adsg.Proofs.Decode
namespace Adsg

/-! ### locating a position inside a concatenation of blocks -/

/-- Position `i` of a concatenation of blocks lies in block `k` if it lies between the summed lengths
    of the first `k` and the first `k + 1` blocks. -/
theorem flatten_getD_block {α} (d : α) : ∀ (bs : List (List α)) (rest : List α) (k i : Nat),
    k < bs.length → ((bs.take k).map List.length).sum ≤ i →
    i < ((bs.take (k + 1)).map List.length).sum →
    (bs.flatten ++ rest).getD i d = (bs.getD k []).getD (i - ((bs.take k).map List.length).sum) d
  | [], _, _, _, hk, _, _ => by simp at hk
  | b :: bs, rest, 0, i, _, _, hhi => by
    simp only [List.take_succ_cons, List.take_zero, List.map_cons, List.map_nil, List.sum_cons,
      List.sum_nil, Nat.add_zero] at hhi
    simp only [List.flatten_cons, List.append_assoc, List.take_zero, List.map_nil, List.sum_nil,
      Nat.sub_zero, List.getD_cons_zero]
    exact getD_append_left' _ _ _ _ hhi
  | b :: bs, rest, k + 1, i, hk, hlo, hhi => by
    simp only [List.take_succ_cons, List.map_cons, List.sum_cons] at hlo hhi ⊢
    simp only [List.flatten_cons, List.append_assoc, List.getD_cons_succ]
    rw [getD_append_right' _ _ _ _ (by omega),
      flatten_getD_block d bs rest k (i - b.length) (by simpa using hk) (by omega) (by omega)]
    congr 1
    omega

/-- The same for the blocks of a decode: the offsets are the summed declared lengths. -/
theorem Enc.flatMap_getD_block {α : Type} (E : Enc) (f : Nat → List α) (n : Nat) (hn : E.connNOpts.length = n)
    (hf : ∀ k, k < n → (f k).length = (E.connNOpts.getD k []).length) (rest : List α) (d : α)
    (k i : Nat) (hk : k < n) (hlo : ((E.connNOpts.take k).map List.length).sum ≤ i)
    (hhi : i < ((E.connNOpts.take (k + 1)).map List.length).sum) :
    ((List.range n).flatMap f ++ rest).getD i d =
      (f k).getD (i - ((E.connNOpts.take k).map List.length).sum) d := by
  have hl := E.connLens_eq f n hn hf
  have ht : ∀ m, (((List.range n).map f).take m).map List.length = (E.connNOpts.take m).map List.length := by
    intro m
    rw [List.map_take, List.map_take, ← hl, Enc.connLens]
  rw [List.flatMap_def, flatten_getD_block d _ rest k i (by simpa using hk) (by rw [ht]; exact hlo)
    (by rw [ht]; exact hhi), ht, getD_map_range _ _ _ _ hk]

/-! ### "inactive ⇒ zero" for pairs (values, activeness) -/

/-- Every position reported inactive holds 0 (vacuous outside the lists). -/
def InactZero (xs : List Int) (as : List Bool) : Prop :=
  ∀ i, as.getD i true = false → xs.getD i 0 = 0

theorem InactZero.append {xs ys : List Int} {as bs : List Bool} (hl : xs.length = as.length)
    (h1 : InactZero xs as) (h2 : InactZero ys bs) : InactZero (xs ++ ys) (as ++ bs) := by
  intro i hi
  by_cases hlt : i < as.length
  · rw [getD_append_left' _ _ _ _ hlt] at hi
    rw [getD_append_left' _ _ _ _ (hl ▸ hlt)]
    exact h1 i hi
  · rw [getD_append_right' _ _ _ _ (by omega)] at hi
    rw [getD_append_right' _ _ _ _ (by omega), hl]
    exact h2 _ hi

theorem InactZero.flatMap {ι} (l : List ι) (f : ι → List Int) (g : ι → List Bool)
    (hl : ∀ k ∈ l, (f k).length = (g k).length) (h : ∀ k ∈ l, InactZero (f k) (g k)) :
    InactZero (l.flatMap f) (l.flatMap g) := by
  induction l with
  | nil => intro i hi; simp at hi
  | cons a l ih =>
    simp only [List.flatMap_cons]
    exact InactZero.append (hl a (by simp)) (h a (by simp))
      (ih (fun k hk => hl k (by simp [hk])) (fun k hk => h k (by simp [hk])))

theorem inactZero_correctIsActive (dv : List Int) :
    InactZero (correctIsActive dv).1 (correctIsActive dv).2 := by
  intro i hi
  by_cases hlt : i < dv.length
  · have := C10.inactive_canonical dv i hlt hi
    have hl : i < (correctIsActive dv).1.length := by simpa [correctIsActive] using hlt
    simpa [List.getD_eq_getElem?_getD, List.getElem?_eq_getElem hl] using this
  · have hl : (correctIsActive dv).1.length ≤ i := by simp [correctIsActive]; omega
    simp [List.getD_eq_getElem?_getD, List.getElem?_eq_none hl]

theorem inactZero_replicate (n : Nat) (as : List Bool) : InactZero (List.replicate n 0) as := by
  intro i _
  simp only [List.getD_eq_getElem?_getD, List.getElem?_replicate]
  split <;> rfl

/-- One connection block of the code as it is: inactive positions hold 0. -/
theorem decodeConn_impl_inactZero (P : Problem) (E : Enc) (X : List Node) (k : Nat) (xk : List Int) :
    InactZero (decodeConn managerGetImpl P E X k xk).1 (decodeConn managerGetImpl P E X k xk).2.1 := by
  cases hp : connPresent X (P.conn.getD k default) with
  | false =>
    rw [decodeConn_of_absent _ _ _ _ _ _ hp]
    exact inactZero_replicate _ _
  | true =>
    simp only [decodeConn, hp, if_true]
    exact inactZero_correctIsActive _

/-! ### the three parts of the outputs of a decode -/

section parts
variable {P : Problem} {E : Enc} (h : EncOK P E) (x : List Int) (hx : x.length = E.nVars P)

/-- The activeness of a decode, spelled out. -/
theorem decodeWith_act (mgr : Mgr) (P : Problem) (E : Enc) (x : List Int) :
    (decodeWith mgr P E x).act = selAct P.g E (E.asg x) ++
      ((List.range P.conn.length).flatMap
        (fun k => (decodeConn mgr P E (closure P.g (E.asg x)) k (E.connIn x k)).2.1) ++
      (List.range P.dvs.length).map (fun i =>
        (decodeDVVar (closure P.g (E.asg x)) (P.dvs.getD i default) (E.dvIn x i)).2.1)) := by
  rw [decodeWith_eq]; simp only [assemble, List.append_assoc]

/-- The corrected vector of a decode, spelled out. -/
theorem decodeWith_x (mgr : Mgr) (P : Problem) (E : Enc) (x : List Int) :
    (decodeWith mgr P E x).x = selVec P.g E (E.asg x) ++
      ((List.range P.conn.length).flatMap
        (fun k => (decodeConn mgr P E (closure P.g (E.asg x)) k (E.connIn x k)).1) ++
      (List.range P.dvs.length).map (fun i =>
        (decodeDVVar (closure P.g (E.asg x)) (P.dvs.getD i default) (E.dvIn x i)).1)) := by
  rw [decodeWith_eq]; simp only [assemble, List.append_assoc]

end parts

/-! ### activeness of a decode (C07) -/

section act
variable {P : Problem} {E : Enc} (h : EncOK P E) (x : List Int) (hx : x.length = E.nVars P)
include h

/-- Length of the connection part of the activeness / corrected vector (code as it is). -/
theorem decode_conn_lengths (hx : x.length = E.nVars P) :
    ((List.range P.conn.length).flatMap
      (fun k => (decodeConn managerGetImpl P E (closure P.g (E.asg x)) k (E.connIn x k)).1)).length =
        E.connLens.sum ∧
    ((List.range P.conn.length).flatMap
      (fun k => (decodeConn managerGetImpl P E (closure P.g (E.asg x)) k (E.connIn x k)).2.1)).length =
        E.connLens.sum := by
  have hl := fun k hk => decodeConn_impl_length h (h.asg_feasible x) hk _ (h.connIn_le x hx k hk)
  have hc := fun k hk => (E.connIn_length P x hx k (h.conn_len.1 ▸ hk))
  exact ⟨E.flatMap_length _ _ h.conn_len.1 (fun k hk => ((hl k hk).1.trans (hc k hk))),
    E.flatMap_length _ _ h.conn_len.1 (fun k hk => ((hl k hk).2.trans (hc k hk)))⟩

theorem decodeRef_conn_lengths (hx : x.length = E.nVars P) :
    ((List.range P.conn.length).flatMap
      (fun k => (decodeConn managerGet P E (closure P.g (E.asg x)) k (E.connIn x k)).1)).length =
        E.connLens.sum ∧
    ((List.range P.conn.length).flatMap
      (fun k => (decodeConn managerGet P E (closure P.g (E.asg x)) k (E.connIn x k)).2.1)).length =
        E.connLens.sum := by
  have hl := fun k hk => decodeConn_ref_length h (h.asg_feasible x) hk _ (h.connIn_le x hx k hk)
  have hc := fun k hk => (E.connIn_length P x hx k (h.conn_len.1 ▸ hk))
  exact ⟨E.flatMap_length _ _ h.conn_len.1 (fun k hk => ((hl k hk).1.trans (hc k hk))),
    E.flatMap_length _ _ h.conn_len.1 (fun k hk => ((hl k hk).2.trans (hc k hk)))⟩

omit h in
/-- Selection part of the activeness (any manager). -/
theorem decodeWith_act_sel (mgr : Mgr) (d : Bool) (j : Nat) (hj : j < E.selVars.length) :
    (decodeWith mgr P E x).act.getD j d = (selAct P.g E (E.asg x)).getD j d := by
  rw [decodeWith_act, getD_append_left' _ _ _ _ (by simpa using hj)]

omit h in
theorem decodeWith_x_sel (mgr : Mgr) (d : Int) (j : Nat) (hj : j < E.selVars.length) :
    (decodeWith mgr P E x).x.getD j d = (selVec P.g E (E.asg x)).getD j d := by
  rw [decodeWith_x, getD_append_left' _ _ _ _ (by simpa using hj)]

/-- Design-variable part of the activeness (code as it is). -/
theorem decode_act_dv (hx : x.length = E.nVars P) (d : Bool) (i : Nat) (hi : i < P.dvs.length) :
    (decode P E x).act.getD (E.dvOff + i) d =
      (decodeDVVar (closure P.g (E.asg x)) (P.dvs.getD i default) (E.dvIn x i)).2.1 := by
  have l2 := (decode_conn_lengths h x hx).2
  rw [decode, decodeWith_act, getD_append_right' _ _ _ _ (by simp [Enc.dvOff]; omega),
    getD_append_right' _ _ _ _ (by rw [l2]; simp only [Enc.dvOff, Enc.connLens, selAct_length]; omega), l2]
  have e : E.dvOff + i - (selAct P.g E (E.asg x)).length - E.connLens.sum = i := by
    simp [Enc.dvOff, Enc.connLens]; omega
  rw [e, getD_map_range _ _ _ _ hi]

theorem decodeRef_act_dv (hx : x.length = E.nVars P) (d : Bool) (i : Nat) (hi : i < P.dvs.length) :
    (decodeRef P E x).act.getD (E.dvOff + i) d =
      (decodeDVVar (closure P.g (E.asg x)) (P.dvs.getD i default) (E.dvIn x i)).2.1 := by
  have l2 := (decodeRef_conn_lengths h x hx).2
  rw [decodeRef, decodeWith_act, getD_append_right' _ _ _ _ (by simp [Enc.dvOff]; omega),
    getD_append_right' _ _ _ _ (by rw [l2]; simp only [Enc.dvOff, Enc.connLens, selAct_length]; omega), l2]
  have e : E.dvOff + i - (selAct P.g E (E.asg x)).length - E.connLens.sum = i := by
    simp [Enc.dvOff, Enc.connLens]; omega
  rw [e, getD_map_range _ _ _ _ hi]

theorem decode_x_dv (hx : x.length = E.nVars P) (d : Int) (i : Nat) (hi : i < P.dvs.length) :
    (decode P E x).x.getD (E.dvOff + i) d =
      (decodeDVVar (closure P.g (E.asg x)) (P.dvs.getD i default) (E.dvIn x i)).1 := by
  have l1 := (decode_conn_lengths h x hx).1
  rw [decode, decodeWith_x, getD_append_right' _ _ _ _ (by simp [Enc.dvOff]; omega),
    getD_append_right' _ _ _ _ (by rw [l1]; simp only [Enc.dvOff, Enc.connLens, selVec_length]; omega), l1]
  have e : E.dvOff + i - (selVec P.g E (E.asg x)).length - E.connLens.sum = i := by
    simp [Enc.dvOff, Enc.connLens]; omega
  rw [e, getD_map_range _ _ _ _ hi]

/-- A selection variable reported active: its choice is active in the architecture. -/
theorem decode_sel_active_exists (j : Nat) (hj : j < E.selVars.length)
    (hact : (decode P E x).act.getD j false = true) :
    (P.g.sel.getD (E.selVars.getD j 0) default).origin ∈ decodeNodes P E x := by
  have _ := h
  rw [decode, decodeWith_act_sel x _ _ j hj, selAct_getD _ _ _ j hj, Bool.and_eq_true] at hact
  obtain ⟨k, hk⟩ := Option.isSome_iff_exists.1 hact.1
  obtain ⟨hlt, hmem, -⟩ := row_getD_some _ _ _ _ hk
  obtain ⟨ch, hch, horig⟩ := (mem_activeChoices _ _ _).1 hmem
  have e : P.g.sel.getD (E.selVars.getD j 0) default = ch := by
    rw [List.getD_eq_getElem?_getD, hch]; rfl
  rw [e]
  exact horig

/-- A connection variable reported active: its connection choice is present. -/
theorem decode_conn_active_exists (hx : x.length = E.nVars P) (k : Nat) (hk : k < P.conn.length) (i : Nat)
    (hlo : E.selVars.length + ((E.connNOpts.take k).map List.length).sum ≤ i)
    (hhi : i < E.selVars.length + ((E.connNOpts.take (k + 1)).map List.length).sum)
    (hact : (decode P E x).act.getD i false = true) :
    connPresent (decodeNodes P E x) (P.conn.getD k default) = true := by
  cases hp : connPresent (decodeNodes P E x) (P.conn.getD k default) with
  | true => rfl
  | false =>
    exfalso
    have hl := fun k hk => (decodeConn_impl_length h (h.asg_feasible x) hk _ (h.connIn_le x hx k hk)).2.trans
      (E.connIn_length P x hx k (h.conn_len.1 ▸ hk))
    rw [decode, decodeWith_act, getD_append_right' _ _ _ _ (by simp; omega),
      E.flatMap_getD_block _ _ h.conn_len.1 hl _ _ k _ hk (by simp only [selAct_length]; omega)
        (by simp only [selAct_length]; omega)] at hact
    have hp' : connPresent (closure P.g (E.asg x)) (P.conn.getD k default) = false := hp
    rw [decodeConn_of_absent _ _ _ _ _ _ hp'] at hact
    simp only [List.getD_eq_getElem?_getD, List.getElem?_replicate] at hact
    split at hact <;> cases hact

/-- A design-variable-node variable is active iff the node exists. -/
theorem decode_dv_active_iff (hx : x.length = E.nVars P) (i : Nat) (hi : i < P.dvs.length) :
    (decode P E x).act.getD (E.dvOff + i) false = true ↔
      (P.dvs.getD i default).node ∈ decodeNodes P E x := by
  rw [decode_act_dv h x hx _ i hi, ← List.contains_iff_mem]
  show _ ↔ (closure P.g (E.asg x)).contains (P.dvs.getD i default).node = true
  cases hc : (closure P.g (E.asg x)).contains (P.dvs.getD i default).node with
  | false => rw [decodeDVVar_of_not_mem _ _ _ hc]
  | true => rw [decodeDVVar_of_mem _ _ _ hc]

end act

/-! ### canonical values, permanent variables, path independence (C07) -/

section canon
variable {P : Problem} {E : Enc} (h : EncOK P E) (x : List Int) (hx : x.length = E.nVars P)
include h hx

omit h hx in
theorem getElem?_eq_some_getD {α} (l : List α) (c : Nat) (d : α) (hc : c < l.length) :
    l[c]? = some (l.getD c d) := by
  simp [List.getD_eq_getElem?_getD, hc]

omit h hx in
theorem selAct_getD_default (g : DSG) (E : Enc) (a : Assign) (j : Nat) (hj : j < E.selVars.length)
    (d d' : Bool) : (selAct g E a).getD j d = (selAct g E a).getD j d' := by
  have hl : j < (selAct g E a).length := by simpa using hj
  simp [List.getD_eq_getElem?_getD, List.getElem?_eq_getElem hl]

omit h hx in
theorem inactZero_sel (g : DSG) (E : Enc) (a : Assign) : InactZero (selVec g E a) (selAct g E a) := by
  intro j hj
  by_cases hlt : j < E.selVars.length
  · rw [selAct_getD_default g E a j hlt true false] at hj
    rw [selVec_getD g E a j hlt, hj]
    rfl
  · have hl : (selVec g E a).length ≤ j := by simp; omega
    simp [List.getD_eq_getElem?_getD, List.getElem?_eq_none hl]

/-- Every inactive variable holds its canonical value (code as it is). -/
theorem decode_inactive_canonical (i : Nat) (hi : i < E.nVars P)
    (hina : (decode P E x).act.getD i true = false) :
    (decode P E x).x.getD i 0 = (canonVals P E).getD i 0 := by
  obtain ⟨l1, l2⟩ := decode_conn_lengths h x hx
  by_cases hlt : i < E.dvOff
  · -- selection and connection variables: zero
    have hc : (canonVals P E).getD i 0 = 0 := by
      rw [canonVals, getD_append_left' _ _ _ _ (by simpa [Enc.dvOff] using hlt)]
      simp only [List.getD_eq_getElem?_getD, List.getElem?_replicate]
      split <;> rfl
    rw [hc]
    have hz : InactZero
        (selVec P.g E (E.asg x) ++ (List.range P.conn.length).flatMap
          (fun k => (decodeConn managerGetImpl P E (closure P.g (E.asg x)) k (E.connIn x k)).1))
        (selAct P.g E (E.asg x) ++ (List.range P.conn.length).flatMap
          (fun k => (decodeConn managerGetImpl P E (closure P.g (E.asg x)) k (E.connIn x k)).2.1)) := by
      refine InactZero.append (by simp) (inactZero_sel _ _ _) (InactZero.flatMap _ _ _ ?_ ?_)
      · intro k hk
        have hk' := List.mem_range.1 hk
        obtain ⟨a1, a2⟩ := decodeConn_impl_length h (h.asg_feasible x) hk' _ (h.connIn_le x hx k hk')
        rw [a1, a2]
      · intro k _
        exact decodeConn_impl_inactZero _ _ _ _ _
    have hL : (selAct P.g E (E.asg x) ++ (List.range P.conn.length).flatMap
          (fun k => (decodeConn managerGetImpl P E (closure P.g (E.asg x)) k (E.connIn x k)).2.1)).length =
        E.dvOff := by rw [List.length_append, selAct_length, l2]; rfl
    have hL' : (selVec P.g E (E.asg x) ++ (List.range P.conn.length).flatMap
          (fun k => (decodeConn managerGetImpl P E (closure P.g (E.asg x)) k (E.connIn x k)).1)).length =
        E.dvOff := by rw [List.length_append, selVec_length, l1]; rfl
    rw [decode, decodeWith_act, ← List.append_assoc, getD_append_left' _ _ _ _ (by rw [hL]; exact hlt)] at hina
    rw [decode, decodeWith_x, ← List.append_assoc, getD_append_left' _ _ _ _ (by rw [hL']; exact hlt)]
    exact hz i hina
  · -- design-variable nodes
    obtain ⟨i', rfl⟩ : ∃ i', i = E.dvOff + i' := ⟨i - E.dvOff, by omega⟩
    have hi' : i' < P.dvs.length := by
      simp only [Enc.nVars, Enc.dvOff] at hi; omega
    rw [decode_act_dv h x hx _ i' hi'] at hina
    rw [decode_x_dv h x hx _ i' hi']
    have hc : (closure P.g (E.asg x)).contains (P.dvs.getD i' default).node = false := by
      cases hc : (closure P.g (E.asg x)).contains (P.dvs.getD i' default).node with
      | false => rfl
      | true => rw [decodeDVVar_of_mem _ _ _ hc] at hina; cases hina
    rw [decodeDVVar_of_not_mem _ _ _ hc, canonVals,
      getD_append_right' _ _ _ _ (by simp [Enc.dvOff])]
    have e : E.dvOff + i' - (List.replicate (E.selVars.length + (E.connNOpts.map List.length).sum) (0 : Int)).length
        = i' := by simp [Enc.dvOff]
    rw [e, getD_map_lt _ _ _ _ default hi']

/-- A design-variable node present in every feasible architecture is always active. -/
theorem decode_permanent_dv (i : Nat) (hi : i < P.dvs.length)
    (hperm : ∀ a, feasibleAssign P a = true → (P.dvs.getD i default).node ∈ closure P.g a) :
    (decode P E x).act.getD (E.dvOff + i) false = true :=
  (decode_dv_active_iff h x hx i hi).2 (hperm _ (h.asg_feasible x))

/-- A selection choice present in every feasible architecture and always shown is always active. -/
theorem decode_permanent_sel (j : Nat) (hj : j < E.selVars.length)
    (hperm : ∀ a, feasibleAssign P a = true →
      (P.g.sel.getD (E.selVars.getD j 0) default).origin ∈ closure P.g a)
    (hshown : ∀ r, (E.selShown r).getD j true = true) :
    (decode P E x).act.getD j false = true := by
  have _ := hx
  have hf := h.asg_feasible x
  obtain ⟨-, hadm, -⟩ := (feasibleAssign_iff P _).1 hf
  have hc : E.selVars.getD j 0 ∈ E.selVars := by simp [List.getD_eq_getElem?_getD, hj]
  obtain ⟨hlt, -⟩ := h.sel_lt _ hc
  have hch : P.g.sel[E.selVars.getD j 0]? = some (P.g.sel.getD (E.selVars.getD j 0) default) :=
    getElem?_eq_some_getD _ _ _ hlt
  have hmem : E.selVars.getD j 0 ∈ activeChoices P.g (E.asg x) :=
    (mem_activeChoices _ _ _).2 ⟨_, hch, hperm _ hf⟩
  have hres := ((admissible_split P.g _).1 hadm).1
  rw [activeResolved, List.all_eq_true] at hres
  obtain ⟨k, hk⟩ := selectedOpt_isSome_get _ _ _ (hres _ hmem)
  have hrow : (row P.g (E.asg x)).getD (E.selVars.getD j 0) none = some k := by
    rw [List.getD_eq_getElem?_getD, row_getElem? _ _ _ hlt]
    have : (activeChoices P.g (E.asg x)).contains (E.selVars.getD j 0) = true := by simpa using hmem
    rw [this, if_pos rfl, hk]; rfl
  rw [decode, decodeWith_act_sel x _ _ j hj, selAct_getD _ _ _ j hj, hrow, hshown]
  rfl

end canon

section path
variable {P : Problem} {E : Enc} (h : EncOK P E)
include h

/-- Reference semantics: the activeness is a function of the corrected vector. -/
theorem decodeRef_act_of_corrected (x y : List Int) (hx : x.length = E.nVars P) (hy : y.length = E.nVars P)
    (heq : (decodeRef P E x).x = (decodeRef P E y).x) :
    (decodeRef P E x).act = (decodeRef P E y).act := by
  rw [← decodeRef_idem h x hx, ← decodeRef_idem h y hy, heq]

/-- Outside the connection variables the code as it is reports the reference activeness. -/
theorem decode_act_agrees_outside_conn (x : List Int) (hx : x.length = E.nVars P) (i : Nat)
    (hi : i < E.selVars.length ∨ E.dvOff ≤ i) :
    (decode P E x).act.getD i false = (decodeRef P E x).act.getD i false := by
  rcases hi with hi | hi
  · rw [decode, decodeRef, decodeWith_act_sel x _ _ i hi, decodeWith_act_sel x _ _ i hi]
  · by_cases hlt : i < E.nVars P
    · obtain ⟨i', rfl⟩ : ∃ i', i = E.dvOff + i' := ⟨i - E.dvOff, by omega⟩
      have hi' : i' < P.dvs.length := by
        simp only [Enc.nVars, Enc.dvOff] at hlt; omega
      rw [decode_act_dv h x hx _ i' hi', decodeRef_act_dv h x hx _ i' hi']
    · have l1 := (decode_shape' h x hx).2.1
      have l2 := (decodeRef_shape h x hx).2.1
      rw [List.getD_eq_getElem?_getD, List.getD_eq_getElem?_getD,
        List.getElem?_eq_none (by omega), List.getElem?_eq_none (by omega)]

/-- The code as it is: selection and design-variable-node activeness is a function of the corrected
    vector. -/
theorem decode_act_of_corrected_partial (x y : List Int) (hx : x.length = E.nVars P)
    (hy : y.length = E.nVars P) (heq : (decode P E x).x = (decode P E y).x)
    (i : Nat) (hi : i < E.selVars.length ∨ E.dvOff ≤ i) :
    (decode P E x).act.getD i false = (decode P E y).act.getD i false := by
  rw [(decode_agrees h x hx).1, (decode_agrees h y hy).1] at heq
  rw [decode_act_agrees_outside_conn h x hx i hi, decode_act_agrees_outside_conn h y hy i hi,
    decodeRef_act_of_corrected h x y hx hy heq]

end path

/-- `[0, 1]` and `[0, 0]` are both corrected to `[0, 0]`, with different activeness. -/
theorem witness_path_dependent :
    EncOK wP wE ∧ ([0, 1] : List Int).length = wE.nVars wP ∧ ([0, 0] : List Int).length = wE.nVars wP ∧
      (decode wP wE [0, 1]).x = (decode wP wE [0, 0]).x ∧
      (decode wP wE [0, 1]).act ≠ (decode wP wE [0, 0]).act :=
  ⟨wE_ok, by decide, by decide, by decide, by decide⟩

/-! ### every design is the decode of a fixed-point vector (C04 part 2) -/

/-- A matrix of fixed shape whose entries are all 0. -/
theorem matrix_eq_zero_of_entries (M : Matrix) (n : Nat) (hrow : ∀ row ∈ M, row.length = n)
    (hz : ∀ i j, (M.getD i []).getD j 0 = 0) : M = List.replicate M.length (List.replicate n 0) := by
  rw [List.eq_replicate_iff]
  refine ⟨rfl, fun row hr => ?_⟩
  obtain ⟨i, hi, rfl⟩ := List.getElem_of_mem hr
  apply List.ext_getElem
  · simp [hrow _ hr]
  · intro j h1 h2
    have := hz i j
    simpa [List.getD_eq_getElem?_getD, List.getElem?_eq_getElem hi, List.getElem?_eq_getElem h1] using this

/-- Without a present source connector there is at most one valid connection set. -/
theorem connSets_absent_unique (X : List Node) (k : ConnChoice) (M M' : Matrix)
    (hM : M ∈ connSets X k) (hM' : M' ∈ connSets X k) (hnone : connPresent X k = false) : M = M' := by
  have key : ∀ N, N ∈ connSets X k →
      N = List.replicate (maxMat (settingsIn X k) (existenceOf X k)).length
        (List.replicate (settingsIn X k).tgt.length 0) := by
    intro N hN
    have hv := (mem_enumSpec _ _ N).1 hN
    have hle := validMatrix_leMat hv
    have := matrix_eq_zero_of_entries N _ (leMat_row_length hle (maxMat_row_length _ _))
      (fun i j => valid_no_source hv hnone i j)
    rwa [leMat_length hle] at this
  rw [key M hM, key M' hM']

section onto
variable {P : Problem} {E : Enc} (h : EncOK P E) {a : Assign} (ha : feasibleAssign P a = true)
include h ha

/-- Every valid connection set of a feasible architecture is the decode of a slice of the declared
    length that the decode leaves unchanged. -/
theorem decodeConn_onto (k : Nat) (hk : k < P.conn.length) (M : Matrix)
    (hM : M ∈ connSets (closure P.g a) (P.conn.getD k default)) :
    ∃ b : List Int, b.length = (E.connNOpts.getD k []).length ∧
      (decodeConn managerGet P E (closure P.g a) k b).1 = b ∧
      (decodeConn managerGet P E (closure P.g a) k b).2.2 = M := by
  cases hp : connPresent (closure P.g a) (P.conn.getD k default) with
  | false =>
    refine ⟨List.replicate (E.connNOpts.getD k []).length 0, by simp, ?_, ?_⟩
    · rw [decodeConn_of_absent _ _ _ _ _ _ hp]; simp
    · rw [decodeConn_of_absent _ _ _ _ _ _ hp]
      cases hcs : connSets (closure P.g a) (P.conn.getD k default) with
      | nil => rw [hcs] at hM; cases hM
      | cons M' _ =>
        exact (connSets_absent_unique _ _ M M' hM (by rw [hcs]; simp) hp).symm
  | true =>
    obtain ⟨t, ht, c, hm⟩ := h.ctx ha hk hp
    obtain ⟨r, hr, rfl⟩ := List.mem_map.1 ((hm M).2 hM)
    obtain ⟨i, hi, rfl⟩ := List.getElem_of_mem hr
    have e : t.getD i ([], []) = t[i] := by
      simp [List.getD_eq_getElem?_getD, List.getElem?_eq_getElem hi]
    have w := WFP.of_wf c.wf
    obtain ⟨o1, o2⟩ := C10.get_onto t _ _ c i hi
    rw [e] at o1 o2
    refine ⟨zeroImp (padTo (E.connNOpts.getD k []).length t[i].1), ?_, ?_, ?_⟩
    · have hl : t[i].1.length ≤ (E.connNOpts.getD k []).length := by
        rw [w.len _ hr]; exact w.width_le
      simp only [zeroImp, List.length_map]
      exact padTo_length _ _ hl
    · rw [decodeConn_of_present _ _ _ _ _ _ t hp ht]; exact o1
    · rw [decodeConn_of_present _ _ _ _ _ _ t hp ht]
      simp only [o2, Option.getD_some]

omit ha in
/-- Every choice of a design-variable node is the decode of a value that the decode leaves unchanged. -/
theorem decodeDVVar_onto (X : List Node) (d : DVNodeSpec) (hw : d.dom.WF = true) (o : Option Int)
    (ho : o ∈ dvChoices X d) :
    ∃ v : Int, (decodeDVVar X d v).1 = v ∧ (decodeDVVar X d v).2.2 = o := by
  have _ := h
  cases hc : X.contains d.node with
  | false =>
    simp only [dvChoices, hc, Bool.false_eq_true, if_false, List.mem_singleton] at ho
    subst ho
    exact ⟨d.dom.canon, by rw [decodeDVVar_of_not_mem _ _ _ hc], by rw [decodeDVVar_of_not_mem _ _ _ hc]⟩
  | true =>
    simp only [dvChoices, hc, if_true, List.mem_map] at ho
    obtain ⟨v, hv, rfl⟩ := ho
    have hin : d.dom.inDom v = true := by
      cases hd : d.dom with
      | discrete n =>
        rw [hd] at hv
        simp only [DVDom.values, List.mem_map, List.mem_range] at hv
        obtain ⟨m, hm, rfl⟩ := hv
        simp [DVDom.inDom]; omega
      | cont lo hi =>
        rw [hd] at hv hw
        simp only [DVDom.values, List.mem_singleton] at hv
        simp only [DVDom.WF, decide_eq_true_eq] at hw
        subst hv
        simp [DVDom.inDom]; omega
    have hcor := C16.correct_id_on_domain d.dom v hin
    refine ⟨v, ?_, ?_⟩
    · rw [decodeDVVar_of_mem _ _ _ hc, hcor]
    · rw [decodeDVVar_of_mem _ _ _ hc, hcor]
      cases hd : d.dom with
      | discrete n => rfl
      | cont lo hi =>
        rw [hd] at hv
        simp only [DVDom.values, List.mem_singleton] at hv
        simp [hv]

end onto

theorem map_range_getD {α} (l : List α) (d : α) : (List.range l.length).map (fun k => l.getD k d) = l := by
  apply List.ext_getElem
  · simp
  · intro i h1 h2
    simp [List.getD_eq_getElem?_getD, List.getElem?_eq_getElem h2]

/-- The fixed-point vector of a design over a feasible architecture (reference semantics). -/
theorem decodeRef_onto_aux {P : Problem} {E : Enc} (h : EncOK P E) (a : Assign)
    (ha : feasibleAssign P a = true) (ms : List Matrix) (dvs : List (Option Int))
    (hm : ms ∈ prodL (P.conn.map (connSets (closure P.g a))))
    (hv : dvs ∈ prodL (P.dvs.map (dvChoices (closure P.g a)))) :
    ∃ x : List Int, x.length = E.nVars P ∧
      (decodeRef P E x).design = { row := row P.g a, mats := ms, dvals := dvs } ∧
      (decodeRef P E x).x = x := by
  obtain ⟨hml, hmm⟩ := (mem_prodL_map_iff _ _ _ []).1 hm
  obtain ⟨hvl, hvm⟩ := (mem_prodL_map_iff _ _ _ none).1 hv
  simp only [beq_iff_eq] at hml hvl
  simp only [List.all_eq_true, List.mem_range, List.contains_iff_mem] at hmm hvm
  -- the blocks and values
  have hex1 : ∀ k, ∃ b : List Int, k < P.conn.length → (b.length = (E.connNOpts.getD k []).length ∧
      (decodeConn managerGet P E (closure P.g a) k b).1 = b ∧
      (decodeConn managerGet P E (closure P.g a) k b).2.2 = ms.getD k []) := by
    intro k
    by_cases hk : k < P.conn.length
    · obtain ⟨b, hb⟩ := decodeConn_onto h ha k hk _ (hmm k hk)
      exact ⟨b, fun _ => hb⟩
    · exact ⟨[], fun hk' => absurd hk' hk⟩
  have hex2 : ∀ i, ∃ v : Int, i < P.dvs.length →
      ((decodeDVVar (closure P.g a) (P.dvs.getD i default) v).1 = v ∧
      (decodeDVVar (closure P.g a) (P.dvs.getD i default) v).2.2 = dvs.getD i none) := by
    intro i
    by_cases hi : i < P.dvs.length
    · obtain ⟨v, hv'⟩ := decodeDVVar_onto h _ _ (h.dv_wf_getD i hi) _ (hvm i hi)
      exact ⟨v, fun _ => hv'⟩
    · exact ⟨0, fun hi' => absurd hi' hi⟩
  let f : Nat → List Int := fun k => Classical.choose (hex1 k)
  let g : Nat → Int := fun i => Classical.choose (hex2 i)
  have hf : ∀ k, k < P.conn.length → ((f k).length = (E.connNOpts.getD k []).length ∧
      (decodeConn managerGet P E (closure P.g a) k (f k)).1 = f k ∧
      (decodeConn managerGet P E (closure P.g a) k (f k)).2.2 = ms.getD k []) :=
    fun k => Classical.choose_spec (hex1 k)
  have hg : ∀ i, i < P.dvs.length →
      ((decodeDVVar (closure P.g a) (P.dvs.getD i default) (g i)).1 = g i ∧
      (decodeDVVar (closure P.g a) (P.dvs.getD i default) (g i)).2.2 = dvs.getD i none) :=
    fun i => Classical.choose_spec (hex2 i)
  -- the vector
  let D : List Int := (List.range P.dvs.length).map g
  obtain ⟨r1, r2, r3⟩ := E.readback (selVec P.g E a) D f P.conn.length (selVec_length _ _ _) h.conn_len.1
    (fun k hk => (hf k hk).1)
  refine ⟨selVec P.g E a ++ (List.range P.conn.length).flatMap f ++ D, ?_, ?_⟩
  · rw [List.length_append, List.length_append, selVec_length,
      E.flatMap_length f _ h.conn_len.1 (fun k hk => (hf k hk).1)]
    simp [D, Enc.nVars, Enc.connLens]
  -- its decode
  obtain ⟨-, hadm, -⟩ := (feasibleAssign_iff P _).1 ha
  have hrow := h.pick_fixed a ha
  have hdec : decodeRef P E (selVec P.g E a ++ (List.range P.conn.length).flatMap f ++ D) =
      assemble managerGet P E a f g := by
    rw [decodeRef, decodeWith_eq, Enc.asg, r1, ← assemble_congr_row h managerGet _ _ hadm hrow.symm]
    apply assemble_congr_in
    · intro k hk; rw [r2 k hk]
    · intro i hi; rw [r3 i, getD_map_range _ _ _ _ hi]
  rw [hdec]
  constructor
  · simp only [assemble]
    rw [map_range_congr (fun k hk => (hf k hk).2.2), map_range_congr (fun i hi => (hg i hi).2),
      ← hml, ← hvl, map_range_getD, map_range_getD]
  · simp only [assemble]
    rw [flatMap_range_congr (fun k hk => (hf k hk).2.1), map_range_congr (fun i hi => (hg i hi).1)]

/-- Every enumerated design is the decode of a vector that decoding returns unchanged. -/
theorem decode_onto_aux {P : Problem} {E : Enc} (h : EncOK P E) (d : Design) (hd : d ∈ allDesigns P) :
    ∃ x : List Int, x.length = E.nVars P ∧ inBounds (declBounds P E) x = true ∧
      (decode P E x).design = d ∧ (decode P E x).x = x ∧
      (decodeRef P E x).design = d ∧ (decodeRef P E x).x = x := by
  simp only [allDesigns, List.mem_flatMap] at hd
  obtain ⟨a, har, hda⟩ := hd
  obtain ⟨hr, hm, hv⟩ := (mem_designsOf P a d).1 hda
  obtain ⟨ha1, ha2⟩ := repAssigns_admissible' P.g a har
  have ha : feasibleAssign P a = true :=
    (feasibleAssign_iff P a).2 ⟨ha1, ha2, fun k hk =>
      ne_nil_of_mem_prodL _ _ hm _ (List.mem_map_of_mem hk)⟩
  obtain ⟨x, hx, hdes, hfix⟩ := decodeRef_onto_aux h a ha d.mats d.dvals hm hv
  have hd' : (decodeRef P E x).design = d := by
    rw [hdes, ← hr]
  obtain ⟨a1, a2, -⟩ := decode_agrees h x hx
  have hb := decodeRef_in_range h x hx
  rw [hfix] at hb
  exact ⟨x, hx, hb, a2.trans hd', a1.trans hfix, hd', hfix⟩

/-- With only discrete design-variable nodes the design records every carried value. -/
theorem decode_vals_eq_dvals (P : Problem) (E : Enc) (hdisc : ∀ dv ∈ P.dvs, ∃ n, dv.dom = .discrete n)
    (x : List Int) : (decode P E x).vals = (decode P E x).design.dvals := by
  simp only [decode, decodeWith_eq, assemble]
  apply map_range_congr
  intro i hi
  obtain ⟨n, hn⟩ := hdisc (P.dvs.getD i default) (by simp [List.getD_eq_getElem?_getD, hi])
  cases hc : (closure P.g (E.asg x)).contains (P.dvs.getD i default).node with
  | false => rw [decodeDVVar_of_not_mem _ _ _ hc]; rfl
  | true => rw [decodeDVVar_of_mem _ _ _ hc, hn]; rfl

/-- Distinct fixed-point vectors denote distinct designs (discrete problems). -/
theorem fixed_rows_injective_aux {P : Problem} {E : Enc} (h : EncOK P E)
    (hdisc : ∀ dv ∈ P.dvs, ∃ n, dv.dom = .discrete n)
    (x y : List Int) (hx : x.length = E.nVars P) (hy : y.length = E.nVars P)
    (hfx : (decode P E x).x = x) (hfy : (decode P E y).x = y)
    (hd : (decode P E x).design = (decode P E y).design) : x = y := by
  have hv : (decode P E x).vals = (decode P E y).vals := by
    rw [decode_vals_eq_dvals P E hdisc x, decode_vals_eq_dvals P E hdisc y, hd]
  have := decode_corrected_of_design h x y hx hy hd hv
  rwa [hfx, hfy] at this

end Adsg
