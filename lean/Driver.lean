/-
  Line-protocol driver: one JSON request per line on stdin, one JSON response per line on stdout.
  Imports only the Mathlib-free executable model.
-/
import Lean.Data.Json
import Adsg.Model.Graph
import Adsg.Model.DV
import Adsg.Model.Metrics
import Adsg.Model.Steps
import Adsg.Model.Constraints
import Adsg.Model.Conn
import Adsg.Model.Enc
import Adsg.Model.Cache
import Adsg.Model.Select
import Adsg.Model.ConnGraph
import Adsg.Model.Identity
import Adsg.Model.TimeLimiter
import Adsg.Model.Sup
import Adsg.Model.Fast
import Adsg.Model.Proc
import Adsg.Model.Design
import Adsg.Model.Decode
import Adsg.Model.Heap
import Adsg.Model.Traversal
open Lean Adsg

namespace Drv

abbrev R := Except String

def field (j : Json) (k : String) : R Json := j.getObjVal? k
def nat (j : Json) : R Nat := j.getNat?
def int (j : Json) : R Int := j.getInt?
def bool (j : Json) : R Bool := j.getBool?
def str (j : Json) : R String := j.getStr?
def arr (j : Json) : R (List Json) := do return (← j.getArr?).toList
def listOf {α} (f : Json → R α) (j : Json) : R (List α) := do (← arr j).mapM f
def pairOf {α β} (f : Json → R α) (g : Json → R β) (j : Json) : R (α × β) := do
  match ← arr j with
  | [a, b] => return (← f a, ← g b)
  | _ => throw "pair expected"
def optOf {α} (f : Json → R α) (j : Json) : R (Option α) :=
  if j.isNull then return none else do return some (← f j)
def fieldD {α} (j : Json) (k : String) (f : Json → R α) (d : α) : R α :=
  match j.getObjVal? k with
  | .ok v => f v
  | .error _ => return d

def jNat (n : Nat) : Json := Json.num (JsonNumber.fromNat n)
def jInt (n : Int) : Json := Json.num (JsonNumber.fromInt n)
def jList {α} (f : α → Json) (l : List α) : Json := Json.arr (l.map f).toArray
def jOpt {α} (f : α → Json) : Option α → Json
  | none => Json.null
  | some a => f a

def consType (s : String) : R ConsType :=
  match s with
  | "linked" => return .linked
  | "permutation" => return .permutation
  | "unordered" => return .unordered
  | "unordered_norepl" => return .unorderedNorepl
  | _ => throw s!"bad constraint type {s}"

def selChoice (j : Json) : R SelChoice := do
  return { origin := ← nat (← field j "o"), opts := ← listOf nat (← field j "opts") }

def choiceCons (j : Json) : R ChoiceCons := do
  return { ty := ← consType (← str (← field j "ty")), choices := ← listOf nat (← field j "cs") }

def dsg (j : Json) : R DSG := do
  return { n := ← nat (← field j "n"),
           derives := ← listOf (pairOf nat nat) (← field j "derives"),
           sel := ← listOf selChoice (← field j "sel"),
           start := ← listOf nat (← field j "start"),
           incompat := ← fieldD j "incompat" (listOf (pairOf nat nat)) [],
           cons := ← fieldD j "cons" (listOf choiceCons) [] }

def assign (j : Json) : R Assign := listOf (optOf nat) j

/-! ### ops -/

def opClosure (j : Json) : R Json := do
  let g ← dsg (← field j "g")
  let a ← assign (← field j "a")
  let X := closure g a
  return Json.mkObj [("wf", Json.bool g.WF), ("nodes", jList jNat (sortNat X)),
    ("active", jList jNat (activeChoices g a)),
    ("conflict_free", Json.bool (conflictFreeB g X)),
    ("admissible", Json.bool (admissible g a))]

def opArchs (j : Json) : R Json := do
  let g ← dsg (← field j "g")
  let asg := (allAssigns g).filter (admissible g)
  let rows := allRows g
  -- one representative assignment per row, with its node set
  let reps := rows.map (fun r =>
    match asg.find? (fun a => row g a == r) with
    | some a => Json.mkObj [("row", jList (jOpt jNat) r), ("nodes", jList jNat (sortNat (closure g a)))]
    | none => Json.null)
  return Json.mkObj [("wf", Json.bool g.WF), ("n_assign", jNat (allAssigns g).length),
    ("n_admissible", jNat asg.length), ("archs", Json.arr reps.toArray)]

def dvDom (j : Json) : R DVDom := do
  match ← str (← field j "kind") with
  | "discrete" => return .discrete (← nat (← field j "n"))
  | "cont" => return .cont (← int (← field j "lo")) (← int (← field j "hi"))
  | s => throw s!"bad dv kind {s}"

def jDVOut : DVOut → Json
  | .active v => Json.mkObj [("act", Json.bool true), ("v", jInt v)]
  | .inactiveZero => Json.mkObj [("act", Json.bool false), ("v", Json.str "zero")]
  | .inactiveMid => Json.mkObj [("act", Json.bool false), ("v", Json.str "mid")]

def jPick : Pick → Json
  | .value => Json.str "value" | .lo => Json.str "lo" | .hi => Json.str "hi"

/-- `correct_value`: discrete input comes as num/den and a flag whether the caller truncates first. -/
def opCorrect (j : Json) : R Json := do
  let d ← dvDom (← field j "dom")
  match d with
  | .discrete n =>
    let num ← int (← field j "num"); let den ← nat (← field j "den")
    let v := pyTrunc num den
    return Json.mkObj [("wf", Json.bool d.WF), ("trunc", jInt v), ("v", jInt (correctDiscrete n v))]
  | .cont lo hi =>
    let v ← int (← field j "v")
    return Json.mkObj [("wf", Json.bool d.WF), ("pick", jPick (pickCont lo hi v)),
      ("v", jInt (correctCont lo hi v))]

def opDecodeDV (j : Json) : R Json := do
  let d ← dvDom (← field j "dom")
  let ex ← bool (← field j "exists")
  let v ← int (← field j "v")
  return jDVOut (decodeDV d ex v)

def mtype (j : Json) : R (Option MType) := do
  if j.isNull then return none
  match ← str j with
  | "none" => return some .none_
  | "objective" => return some .objective
  | "constraint" => return some .constraint
  | "obj_or_con" => return some .objOrCon
  | s => throw s!"bad metric type {s}"

def metric (j : Json) : R Metric := do
  return { name := ← nat (← field j "name"), node := ← nat (← field j "node"),
           hasDir := ← bool (← field j "dir"), hasRef := ← bool (← field j "ref"),
           decl := ← mtype (← field j "decl") }

def jRole : Role → Json
  | .unused => "unused" | .objective => "objective" | .constraint => "constraint" | .ambiguous => "ambiguous"

def jMVal : MVal → Json
  | .given i => Json.mkObj [("given", jNat i)]
  | .nan => Json.str "nan"
  | .ref => Json.str "ref"

/-- classify metrics of a graph (permanent nodes = closure with no choice taken) and evaluate on
    every requested architecture node set. -/
def opMetrics (j : Json) : R Json := do
  let g ← dsg (← field j "g")
  let ms ← listOf metric (← field j "metrics")
  let modelPerm := closure g []
  -- the permanent-node set is an oracle read from the implementation (validated below), default: model
  let perm ← fieldD j "perm" (listOf nat) modelPerm
  let archs := ((allAssigns g).filter (admissible g)).map (closure g)
  let permOk := archs.all (fun X => perm.all (X.contains ·))
  let lower := modelPerm.all (perm.contains ·)
  -- metrics the implementation dropped from the initial graph must exist in no architecture
  let dropped ← fieldD j "dropped" (listOf nat) []
  let droppedOk := dropped.all (fun v => archs.all (fun X => !X.contains v))
  let roles := (sortMetrics ms).map (fun m => Json.mkObj [("name", jNat m.name), ("role", jRole (roleOf perm m))])
  let evals ← listOf (fun e => do
      let arch ← listOf nat (← field e "arch")
      let vals ← listOf (pairOf nat nat) (← field e "vals")
      match classify perm ms with
      | none => return Json.null
      | some (objs, cons) =>
        let (o, c) := evaluate arch objs cons vals
        return Json.mkObj [("obj", jList jMVal o), ("con", jList jMVal c)]) (← fieldD j "evals" pure (Json.arr #[]))
  return Json.mkObj [("model_perm", jList jNat (sortNat modelPerm)), ("perm_in_every_arch", Json.bool permOk),
    ("perm_contains_confirmed", Json.bool lower), ("dropped_never_exist", Json.bool droppedOk), ("n_archs", jNat archs.length),
    ("roles", Json.arr roles.toArray),
    ("ok", Json.bool (classify perm ms).isSome), ("evals", Json.arr evals.toArray)]

/-- State of a step-by-step resolution: partial assignment `a` (option index or null per choice). -/
def opState (j : Json) : R Json := do
  let g ← dsg (← field j "g")
  let a ← assign (← field j "a")
  let X := closure g a
  let act := activeChoices g a
  let next := act.filter (fun c => (a.get c).isNone)
  let via := next.map (fun c => Json.mkObj [("c", jNat c), ("viable", jList jNat (viable g a c))])
  return Json.mkObj [("nodes", jList jNat (sortNat X)), ("active", jList jNat act), ("next", jList jNat next),
    ("viable", Json.arr via.toArray), ("completable", Json.bool (completable g a)),
    ("conflict_free", Json.bool (conflictFreeB g X)), ("cons_ok", Json.bool (consOK g a)),
    ("row", jList (jOpt jNat) (row g a))]

/-! ### choice constraints (function level) -/

def opRemovedOpts (j : Json) : R Json := do
  let ty ← consType (← str (← field j "ty"))
  let nOpts ← listOf nat (← field j "n_opts")
  let i ← nat (← field j "i_taken"); let k ← nat (← field j "j_chosen")
  return jList (fun p : Nat × List Nat => Json.arr #[jNat p.1, jList jNat p.2]) (removedOptions ty nOpts i k)

def opPreRemoved (j : Json) : R Json := do
  let ty ← consType (← str (← field j "ty"))
  let nOpts ← listOf nat (← field j "n_opts")
  let perm ← listOf bool (← field j "permanent")
  return jList (fun p : Nat × List Nat => Json.arr #[jNat p.1, jList jNat p.2]) (preRemovedP ty nOpts perm)

def opValidIdx (j : Json) : R Json := do
  let ty ← consType (← str (← field j "ty"))
  let ap ← bool (← field j "all_permanent")
  let rows ← listOf (listOf (optOf nat)) (← field j "rows")
  let idx := (List.range rows.length).filter (fun i => validIdxRow ty ap (rows.getD i []))
  return jList jNat idx

/-! ### connection sets -/

def deg (j : Json) : R Deg := do
  match j.getObjVal? "list" with
  | .ok l => return .list (← listOf nat l)
  | .error _ => return .atLeast (← nat (← field j "min"))

def cnode (j : Json) : R CNode := do
  return { deg := ← deg (← field j "deg"), rep := ← bool (← field j "rep") }

def connSettings (j : Json) : R ConnSettings := do
  return { src := ← listOf cnode (← field j "src"), tgt := ← listOf cnode (← field j "tgt"),
           excluded := ← fieldD j "excluded" (listOf (pairOf nat nat)) [],
           parallel := ← fieldD j "parallel" (optOf nat) none }

def existence (j : Json) : R Existence := do
  return { srcOv := ← fieldD j "src" (listOf (optOf (listOf nat))) [],
           tgtOv := ← fieldD j "tgt" (listOf (optOf (listOf nat))) [] }

def jMat (M : Matrix) : Json := jList (jList jNat) M

def opMatrices (j : Json) : R Json := do
  let s ← connSettings (← field j "s")
  let e ← existence (← field j "e")
  -- `lib_only`: for large settings the brute-force specification (exponential in the number of cells) is
  -- replaced by the algorithmic enumeration, proved equal to it (`C09.enumLib_eq_enumSpec`)
  let libOnly ← fieldD j "lib_only" bool false
  let lib := enumLib s e
  let spec := if libOnly then lib else enumSpec s e
  let test ← fieldD j "validate" (listOf (listOf (listOf nat))) []
  return Json.mkObj [("max", jMat (maxMat s e)), ("par", jNat (parLimit s e)),
    ("spec", jList jMat spec), ("lib", jList jMat lib), ("count", jNat (countAll s e)),
    ("deg_tuples", jList (fun p : List Nat × List Nat => Json.arr #[jList jNat p.1, jList jNat p.2]) (degTuples s e)),
    ("validate", jList (fun M => Json.bool (validMatrix s e M)) test)]

def opBoundedComp (j : Json) : R Json := do
  let n ← nat (← field j "n")
  let caps ← listOf nat (← field j "caps")
  return jList (jList jNat) (boundedComp n caps)

/-! ### encoder manager layer -/

def table (j : Json) : R Table := listOf (pairOf (listOf int) (listOf (listOf nat))) j

/-- tables: per pattern a table or null; queries: {p, x, imp} with `imp` the row the real imputer
    picked (null when the implementation had a direct hit; then any in-range value works). -/
def opEager (j : Json) : R Json := do
  let tabs ← listOf (optOf table) (← field j "tables")
  let nOpts ← listOf nat (← field j "n_opts")
  let wf := tabs.map (fun t => match t with | some t => Json.bool (t.WF nOpts) | none => Json.null)
  let two := twoValuesEach (tabs.filterMap id) nOpts
  let qs ← listOf (fun q => do
      let p ← nat (← field q "p")
      let x ← listOf int (← field q "x")
      let imp ← fieldD q "imp" (optOf nat) none
      let t := (tabs[p]?).join
      let (v, act, m) := managerGetImpl t nOpts (fun _ => imp.getD 0) x
      let (_, row) := eagerGetImpl t nOpts (fun _ => imp.getD 0) x
      return Json.mkObj [("v", jList jInt v), ("act", jList Json.bool act), ("m", jOpt jMat m),
        ("row", jOpt jNat row), ("hit", Json.bool (match t with | some t => (t.hit (clampVec nOpts x)).isSome | none => false))])
    (← fieldD j "queries" pure (Json.arr #[]))
  let alldv := tabs.map (fun t => match t with | some t => jList (jList jInt) (allDesignVectors t nOpts) | none => Json.null)
  return Json.mkObj [("wf", Json.arr wf.toArray), ("two_values", Json.bool two), ("all_dv", Json.arr alldv.toArray),
    ("results", Json.arr qs.toArray)]

/-! ### caches / selection -/

def fullSettings (j : Json) : R FullSettings := do
  return { s := ← connSettings (← field j "s"), pats := ← listOf existence (← field j "es") }

/-- are the structured cache keys of two settings equal? -/
def opKeyEq (j : Json) : R Json := do
  let a ← fullSettings (← field j "a")
  let b ← fullSettings (← field j "b")
  return Json.bool (decide (keyOf a = keyOf b))

def score (j : Json) : R Score := do
  return { impRatio := ← nat (← field j "imp"), infIdx := ← nat (← field j "inf"),
           distCorr := ← fieldD j "dc" (optOf int) none }

def opGetBest (j : Json) : R Json := do
  let p : SelParams := { one := ← nat (← field j "one"), limits := ← listOf nat (← field j "limits"),
                         minCorr := ← int (← field j "min_corr") }
  let scores ← listOf score (← field j "scores")
  let byInf ← bool (← field j "by_inf")
  let np ← fieldD j "n_priority" (optOf nat) none
  return jOpt jNat (getBest p scores byInf np)

/-! ### connection choices at graph level -/

def member (j : Json) : R (Node × Deg × Bool) := do
  return (← nat (← field j "node"), ← deg (← field j "deg"), ← bool (← field j "rep"))

def connector (j : Json) : R Connector := do
  return { node := ← nat (← field j "node"),
           deg := ← fieldD j "deg" deg (.list []),
           rep := ← fieldD j "rep" bool false,
           members := ← fieldD j "members" (listOf member) [] }

def connChoice (j : Json) : R ConnChoice := do
  return { src := ← listOf connector (← field j "src"), tgt := ← listOf connector (← field j "tgt"),
           excluded := ← fieldD j "excluded" (listOf (pairOf nat nat)) [] }

def jExistence (e : Existence) : Json :=
  Json.mkObj [("src", jList (jOpt (jList jNat)) e.srcOv), ("tgt", jList (jOpt (jList jNat)) e.tgtOv)]

/-- For every architecture (row) of the selection part: node set, whether each connection choice is
    present, its existence pattern and its valid connection sets. -/
def opConnGraph (j : Json) : R Json := do
  let g ← dsg (← field j "g")
  let ks ← listOf connChoice (← field j "conn")
  let maxSets ← fieldD j "max_sets" nat 400
  let asg := (allAssigns g).filter (admissible g)
  let rows := allRows g
  let out := rows.map (fun r =>
    match asg.find? (fun a => row g a == r) with
    | none => Json.null
    | some a =>
      let X := closure g a
      let per := ks.map (fun k =>
        let e := existenceOf X k
        let sets := connSets X k
        Json.mkObj [("present", Json.bool (connPresent X k)), ("pattern", jExistence e),
          ("n_sets", jNat sets.length), ("sets", jList jMat (sets.take maxSets)),
          ("n_sets_proc", jNat (connSetsProc X k).length),
          ("sets_graph", jList jMat ((connSetsGraph X k).take maxSets)), ("n_sets_graph", jNat (connSetsGraph X k).length)])
      Json.mkObj [("row", jList (jOpt jNat) r), ("nodes", jList jNat (sortNat X)), ("conn", Json.arr per.toArray)])
  let base := ks.map (fun k => Json.mkObj [("max", jMat (maxMat (baseSettings k) {})),
      ("src", jList (fun c : CNode => Json.mkObj [("deg", match c.deg with | .list ds => Json.mkObj [("list", jList jNat ds)] | .atLeast m => Json.mkObj [("min", jNat m)]), ("rep", Json.bool c.rep)]) (baseSettings k).src),
      ("tgt", jList (fun c : CNode => Json.mkObj [("deg", match c.deg with | .list ds => Json.mkObj [("list", jList jNat ds)] | .atLeast m => Json.mkObj [("min", jNat m)]), ("rep", Json.bool c.rep)]) (baseSettings k).tgt)])
  return Json.mkObj [("archs", Json.arr out.toArray), ("base", Json.arr base.toArray)]

/-! ### structural identity -/

/-- canonical forms come as lists of strings; intern them as naturals and compare with `eqG`. -/
def opCanonEq (j : Json) : R Json := do
  let rd := fun (c : Json) => do
    return (← listOf str (← field c "nodes"), ← listOf str (← field c "edges"), ← listOf str (← field c "start"),
            ← nat (← field c "n_cons"))
  let a ← rd (← field j "a")
  let b ← rd (← field j "b")
  let univ := (a.1 ++ a.2.1 ++ a.2.2.1 ++ b.1 ++ b.2.1 ++ b.2.2.1).eraseDups
  let idx := fun (s : String) => (univ.findIdx? (· == s)).getD 0
  let mk := fun (c : List String × List String × List String × Nat) =>
    ({ nodes := c.1.map idx, edges := c.2.1.map (fun e => (idx e, 0, 0)), start := c.2.2.1.map idx,
       cons := List.range c.2.2.2 } : GS)
  return Json.bool (eqG (mk a) (mk b))

/-! ### time limiter -/

def tlObs (j : Json) : R Adsg.TL.Obs := do
  match ← str j with
  | "f_start" => return .fStart
  | "f_end_ok" => return .fEnd true
  | "f_end_err" => return .fEnd false
  | "f_killed" => return .fKilled
  | "ret" => return .ret .ret
  | "raise" => return .ret .raise
  | "timeout" => return .ret .timeout
  | s => throw s!"bad event {s}"

def opTlAccepts (j : Json) : R Json := do
  let traces ← listOf (listOf tlObs) (← field j "traces")
  return jList (fun t => Json.bool (Adsg.TL.obsAccepts t)) traces

/-! ### supplementary graphs -/

def supMapping (j : Json) : R SupMapping := do
  match ← str (← field j "kind") with
  | "opt" => return .opt { srcChoice := ← nat (← field j "src_choice"),
                           table := ← listOf (pairOf (optOf nat) nat) (← field j "table") }
  | "exist" => return .exist { entries := ← listOf (pairOf nat nat) (← field j "entries"), dflt := ← nat (← field j "default") }
  | s => throw s!"bad mapping kind {s}"

def opSupResolve (j : Json) : R Json := do
  let sup ← dsg (← field j "sup")
  let maps ← listOf (pairOf nat supMapping) (← field j "maps")
  let spec : SupSpec := { sup := sup, maps := maps }
  let srcs ← listOf (fun e => do return (← listOf nat (← field e "nodes"), ← listOf (optOf nat) (← field e "row"))) (← field j "sources")
  let outs := srcs.map (fun (X, r) =>
    Json.mkObj [("assign", jList (jOpt jNat) (supAssign spec X r)),
                ("result", jOpt (fun N => jList jNat (sortNat N)) (resolve spec X r))])
  let srcNodes ← fieldD j "src_nodes" (optOf (listOf nat)) none
  let wf := match srcNodes with | some ns => mapsWF spec ns | none => true
  return Json.mkObj [("init_ok", Json.bool (initOK spec && wf)), ("maps_wf", Json.bool wf), ("results", Json.arr outs.toArray)]

/-! ### fast encoder -/

def opNeighborhood (j : Json) : R Json := do
  let nOpts ← listOf nat (← field j "n_opts")
  let x ← listOf nat (← field j "x")
  let fx ← listOf bool (← field j "fixed")
  return jList (jList jNat) (neighborhood nOpts x fx)

/-! ### processor state machine -/

def vkind (j : Json) : R Adsg.Proc.VKind := do
  match ← str j with
  | "sel" => return .sel
  | "dv" => return .dv
  | "conn" => return .conn
  | s => throw s!"bad kind {s}"

/-- rows of the problem restricted by a fixed map, and the outcome of the fix operations themselves -/
def opRestrict (j : Json) : R Json := do
  let kinds ← listOf vkind (← field j "kinds")
  let nOpts ← listOf nat (← field j "n_opts")
  let rows ← listOf (listOf (optOf nat)) (← field j "rows")
  let P : Adsg.Proc.Problem := { kinds := kinds, nOpts := nOpts, rows := rows, feasible := fun _ => true, cands := fun _ => [] }
  let ops ← listOf (fun o => do
      match ← str (← field o "op") with
      | "fix" => return Adsg.Proc.Op.fix (← nat (← field o "i")) (← nat (← field o "v"))
      | "free" => return Adsg.Proc.Op.free (← nat (← field o "i"))
      | s => throw s!"bad op {s}") (← field j "ops")
  let (st, outs) := Adsg.Proc.runOps P (Adsg.Proc.init P) ops
  return Json.mkObj [("fixed", jList (fun p : Nat × Nat => Json.arr #[jNat p.1, jNat p.2]) st.fixed),
    ("rejected", jList (fun o => Json.bool (o == Adsg.Proc.Out.rejected)) outs),
    ("rows", jList (jList (jOpt jNat)) (Adsg.Proc.restrictRows P st.fixed))]


/-! ### whole design space / whole decode (Design.lean, Decode.lean) -/

def dvNodeSpec (j : Json) : R DVNodeSpec := do
  return { node := ← nat (← field j "node"), dom := ← dvDom (← field j "dom") }

def problem (j : Json) : R Problem := do
  return { g := ← dsg (← field j "g"), conn := ← fieldD j "conn" (listOf connChoice) [],
           dvs := ← fieldD j "dvs" (listOf dvNodeSpec) [] }

def jDesign (d : Design) : Json :=
  Json.mkObj [("row", jList (jOpt jNat) d.row), ("mats", jList jMat d.mats), ("dvals", jList (jOpt jInt) d.dvals)]

/-- `allDesigns`, `nValid`, `nValidFormula` of a problem (designs listed only up to `max`). -/
def opDesignSpace (j : Json) : R Json := do
  let P ← problem j
  let mx ← fieldD j "max" nat 3000
  let nf := nValidFormula P
  let ds := if nf ≤ mx then some (allDesigns P) else none
  return Json.mkObj [("wf", Json.bool P.g.WF), ("n_formula", jNat nf),
    ("n_valid", jOpt (fun l : List Design => jNat l.length) ds),
    ("designs", jOpt (jList jDesign) ds)]

def jDecoded (d : Decoded) : Json :=
  Json.mkObj [("design", jDesign d.design), ("vals", jList (jOpt jInt) d.vals), ("x", jList jInt d.x),
    ("act", jList Json.bool d.act)]

/-- One decode per query with the oracles of that decode: the assignment the selection encoder
    corrected to (`a`), the table of each connection choice for that architecture and the row the
    imputer picked. The contract clauses that concern this decode are evaluated and returned. -/
def opDecodeFull (j : Json) : R Json := do
  let P ← problem j
  let selVars ← listOf nat (← field j "sel_vars")
  let connNOpts ← listOf (listOf nat) (← field j "conn_nopts")
  let qs ← listOf (fun q => do
      let x ← listOf int (← field q "x")
      let a ← assign (← field q "a")
      let tabs ← listOf (optOf table) (← field q "tables")
      let imps ← listOf nat (← field q "imps")
      let shown ← listOf bool (← field q "shown")
      let E : Enc := { selVars := selVars, pick := fun _ => a, selShown := fun _ => shown, connNOpts := connNOpts,
                       tables := tabs.map (fun t => fun _ => t), imps := imps.map (fun i => fun _ _ => i) }
      let X := closure P.g a
      let tabOK := (List.range P.conn.length).map (fun k =>
        match (tabs[k]?).join with
        | none => Json.mkObj [("absent", Json.bool (!connPresent X (P.conn.getD k default)))]
        | some t =>
          let sets := connSets X (P.conn.getD k default)
          let ms := t.map (·.2)
          Json.mkObj [("wf", Json.bool (t.WF (connNOpts.getD k []))),
            ("mats_exact", Json.bool (ms.all (sets.contains ·) && sets.all (ms.contains ·))),
            ("imp_lt", Json.bool (decide (imps.getD k 0 < t.length))),
            ("pos", Json.bool ((connNOpts.getD k []).all (0 < ·)))])
      let r := decode P E x
      return Json.mkObj [("feasible", Json.bool (feasibleAssign P a)),
        ("len_ok", Json.bool (x.length == E.nVars P)),
        ("sel_ok", Json.bool (selVars.all (fun c => c < P.g.sel.length && 0 < (P.g.sel.getD c default).opts.length))),
        ("tables", Json.arr tabOK.toArray),
        ("conn_pos", Json.bool (connNOpts.all (fun ns => ns.all (0 < ·)))),
        ("impl", jDecoded r), ("ref", jDecoded (decodeRef P E x)),
        ("valid", Json.bool (validDesign P r.design)),
        ("in_bounds", Json.bool (inBounds (declBounds P E) r.x)),
        ("canon", jList jInt (canonVals P E)),
        ("nodes", jList jNat (sortNat (decodeNodes P E x)))])
    (← field j "queries")
  return Json.mkObj [("wf", Json.bool P.g.WF), ("dv_wf", Json.bool (P.dvs.all (·.dom.WF))),
    ("results", Json.arr qs.toArray)]

/-! ### heap model (C08) -/

def heapOwn (j : Json) : R Heap.Own := do
  return { groups := ← listOf (pairOf nat (listOf deg)) (← field j "groups"),
           conns := ← listOf (pairOf nat nat) (← field j "conns"),
           rest := ← fieldD j "rest" nat 0 }

def heapAct (j : Json) : R Heap.Act := do
  match j.getObjVal? "look" with
  | .ok i => return .look (← nat i)
  | .error _ => return .derive (← nat (← field j "src")) (← heapOwn (← field j "own"))

def jDeg : Deg → Json
  | .list ds => Json.mkObj [("list", jList jNat ds)]
  | .atLeast m => Json.mkObj [("min", jNat m)]

/-- Runs a history of derive / look acts; per act: the look's report (or null), whether every object is
    well formed, and the shared cells after the act. -/
def opHeapRun (j : Json) : R Json := do
  let first ← heapOwn (← field j "first")
  let acts ← listOf heapAct (← field j "acts")
  let w0 : Heap.World := { objs := [first], cells := Heap.sync first [] }
  let rec go (w : Heap.World) (ws : Heap.World) : List Heap.Act → List Json
    | [] => []
    | a :: as =>
      let (w', o) := Heap.step w a
      let (ws', os) := Heap.stepStale ws a
      Json.mkObj [("obs", jOpt (fun (p : Nat × Bool) => Json.arr #[jNat p.1, Json.bool p.2]) o),
        ("obs_stale", jOpt (fun (p : Nat × Bool) => Json.arr #[jNat p.1, Json.bool p.2]) os),
        ("cells", jList (fun (p : Nat × Deg) => Json.arr #[jNat p.1, jDeg p.2]) w'.cells)] :: go w' ws' as
  return Json.mkObj [("wf", Json.bool (first.WF && acts.all (fun a => match a with | .derive _ o => o.WF | .look _ => true))),
    ("steps", Json.arr (go w0 w0 acts).toArray)]

/-! ### traversal functions (C02, function level) -/

/-- per requested node: the confirmed edges; per requested start set: confirmed nodes and activated choices -/
def opConfirmed (j : Json) : R Json := do
  let g ← dsg (← field j "g")
  let nodes ← fieldD j "nodes" (listOf nat) []
  let starts ← fieldD j "starts" (listOf (listOf nat)) []
  return Json.mkObj [
    ("derivable", jList jNat (sortNat (derivable g))),
    ("edges", jList (fun v => jList (fun (e : Node × Node) => Json.arr #[jNat e.1, jNat e.2]) (confirmedEdges g v)) nodes),
    ("from", jList (fun vs => Json.mkObj [("nodes", jList jNat (sortNat (confirmedFrom g vs))),
                                          ("choices", jList jNat (choicesFrom g vs))]) starts)]

def dispatch (op : String) (j : Json) : R Json :=
  match op with
  | "ping" => return Json.str "pong"
  | "closure" => opClosure j
  | "archs" => opArchs j
  | "state" => opState j
  | "removed_opts" => opRemovedOpts j
  | "pre_removed" => opPreRemoved j
  | "valid_idx" => opValidIdx j
  | "matrices" => opMatrices j
  | "bounded_comp" => opBoundedComp j
  | "eager" => opEager j
  | "key_eq" => opKeyEq j
  | "conn_graph" => opConnGraph j
  | "canon_eq" => opCanonEq j
  | "tl_accepts" => opTlAccepts j
  | "sup_resolve" => opSupResolve j
  | "neighborhood" => opNeighborhood j
  | "restrict" => opRestrict j
  | "design_space" => opDesignSpace j
  | "heap_run" => opHeapRun j
  | "confirmed" => opConfirmed j
  | "decode_full" => opDecodeFull j
  | "get_best" => opGetBest j
  | "correct_value" => opCorrect j
  | "decode_dv" => opDecodeDV j
  | "metrics" => opMetrics j
  | _ => throw s!"unknown op {op}"

def handle (line : String) : String :=
  match Json.parse line with
  | .error e => (Json.mkObj [("error", Json.str s!"parse: {e}")]).compress
  | .ok j =>
    let id := (j.getObjVal? "id").toOption.getD Json.null
    match (do let op ← str (← field j "op"); dispatch op j : R Json) with
    | .ok r => (Json.mkObj [("id", id), ("r", r)]).compress
    | .error e => (Json.mkObj [("id", id), ("error", Json.str e)]).compress

end Drv

partial def loop (hin hout : IO.FS.Stream) : IO Unit := do
  let line ← hin.getLine
  if line.isEmpty then return ()
  let t := line.trimAscii.toString
  if !t.isEmpty then
    hout.putStrLn (Drv.handle t)
    hout.flush
  loop hin hout

def main : IO Unit := do
  let hin ← IO.getStdin
  let hout ← IO.getStdout
  loop hin hout
  hout.flush
