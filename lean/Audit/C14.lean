import Adsg.Props.C14
#print axioms Adsg.C14.neighborhood_perm_box
#print axioms Adsg.C14.fast_sound
#print axioms Adsg.C14.fast_valid_unchanged
#print axioms Adsg.C14.fast_reaches
#print axioms Adsg.C14.fast_cover
#print axioms Adsg.C14.fast_total
