import Adsg.Props.C11
#print axioms Adsg.C11.combinedDeg_exact
#print axioms Adsg.C11.connSets_exact
#print axioms Adsg.C11.connSets_nodup
#print axioms Adsg.C11.absent_source_unconnected
#print axioms Adsg.C11.absent_target_unconnected
#print axioms Adsg.C11.excluded_pair_unconnected
#print axioms Adsg.C11.no_forbidden_parallel
#print axioms Adsg.C11.present_source_degree
#print axioms Adsg.C11.group_source_degree
#print axioms Adsg.C11.no_source_only_zero
#print axioms Adsg.C11.applyConn_edges
