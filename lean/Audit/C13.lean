import Adsg.Props.C13
#print axioms Adsg.C13.validIdx_iff_consRel
#print axioms Adsg.C13.validIdx_norepl_allPermanent
#print axioms Adsg.C13.norepl_reindex
#print axioms Adsg.C13.removed_iff_notR
#print axioms Adsg.C13.Rcons_symm
#print axioms Adsg.C13.consRel_iff_pairwise
#print axioms Adsg.C13.seq_removal_iff_valid
#print axioms Adsg.C13.preRemoved_exact
#print axioms Adsg.C13.perm_feasible_iff
#print axioms Adsg.C13.norepl_feasible_iff
#print axioms Adsg.C13.perm_preRemoved_all
#print axioms Adsg.C13.arch_satisfies_constraints
#print axioms Adsg.C13.not_active_together_unconstrained
#print axioms Adsg.C13.perm_no_preRemoval_when_conditional
