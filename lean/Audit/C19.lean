import Adsg.Props.C19
#print axioms Adsg.C19.no_worker_running_at_return
#print axioms Adsg.C19.outcome_trichotomy
#print axioms Adsg.C19.timeout_only_after_expiry
#print axioms Adsg.C19.outcome_stable
#print axioms Adsg.C19.inject_targets_live_worker
#print axioms Adsg.C19.protocol_traces_accepted
#print axioms Adsg.C19.automaton_rejects_unsafe
#print axioms Adsg.C19.may_block
#print axioms Adsg.C19.accepted_trace_nothing_running
#print axioms Adsg.C19.accepted_trace_single_return
