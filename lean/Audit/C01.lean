import Adsg.Props.C01
#print axioms Adsg.C01.decode_valid
#print axioms Adsg.C01.decodeRef_valid
#print axioms Adsg.C01.decode_enumerated
#print axioms Adsg.C01.decode_arch
#print axioms Adsg.C01.decode_shape
#print axioms Adsg.C01.no_feasible_no_decoder
#print axioms Adsg.C01.feasible_iff_designs
