import Adsg.Props.C20
#print axioms Adsg.C20.resolve_final
#print axioms Adsg.C20.resolve_takes_mapped
#print axioms Adsg.C20.optMap_target
#print axioms Adsg.C20.existMap_target
#print axioms Adsg.C20.resolve_rejects_bad_mappings
#print axioms Adsg.C20.initOK_iff
#print axioms Adsg.C20.resolve_rejects_missing_case
#print axioms Adsg.C20.resolve_nested_irrelevant
#print axioms Adsg.C20.mapsWF_iff
#print axioms Adsg.C20.resolve_some_iff
#print axioms Adsg.C20.resolve_none_iff
#print axioms Adsg.C20.mapTarget_congr
#print axioms Adsg.C20.resolve_depends_only_on_mapped
