import Adsg.Props.C05
#print axioms Adsg.C05.retry_first_feasible
#print axioms Adsg.C05.decode_independent_of_mask
#print axioms Adsg.C05.proc_pure
#print axioms Adsg.C05.proc_pure_from
#print axioms Adsg.C05.inplace_mask_breaks_purity
