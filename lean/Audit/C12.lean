import Adsg.Props.C12
#print axioms Adsg.C12.cache_transparent
#print axioms Adsg.C12.cache_transparent_from
#print axioms Adsg.C12.mem_sortPairs
#print axioms Adsg.C12.keyOf_injective
#print axioms Adsg.C12.equal_keys_same_connection_sets
#print axioms Adsg.C12.keyOf_perm_excluded
#print axioms Adsg.C12.getBest_in_range
#print axioms Adsg.C12.getBest_total
#print axioms Adsg.C12.selectStaged_total
#print axioms Adsg.C12.cachedGet_idempotent
#print axioms Adsg.C12.cachedGet_preserves
#print axioms Adsg.C12.reset_forgets
#print axioms Adsg.C12.reset_keeps_others
