import Adsg.Props.C18
#print axioms Adsg.C18.eqG_iff_perm
#print axioms Adsg.C18.eqG_refl
#print axioms Adsg.C18.eqG_symm
#print axioms Adsg.C18.eqG_trans
#print axioms Adsg.C18.eq_same_canon
#print axioms Adsg.C18.copy_eq
#print axioms Adsg.C18.add_node_neq
#print axioms Adsg.C18.remove_node_neq
#print axioms Adsg.C18.add_edge_neq
#print axioms Adsg.C18.remove_edge_neq
#print axioms Adsg.C18.add_start_neq
#print axioms Adsg.C18.add_cons_neq
#print axioms Adsg.C18.edit_either_side
