import Adsg.Props.C06
#print axioms Adsg.C06.arch_conflict_free
#print axioms Adsg.C06.forced_conflict_never_feasible
#print axioms Adsg.C06.conflicting_option_not_viable
#print axioms Adsg.C06.mem_viable_iff
#print axioms Adsg.C06.needed_option_viable
#print axioms Adsg.C06.infeasible_iff_all_conflict
#print axioms Adsg.C06.admissible_row_enumerated
