import Adsg.Props.C02
#print axioms Adsg.C02.instance_is_reachable_set
#print axioms Adsg.C02.instance_least
#print axioms Adsg.C02.instance_nodup
#print axioms Adsg.C02.run_perm
#print axioms Adsg.C02.complete_run_eq_closure
#print axioms Adsg.C02.canonical_run_exists
#print axioms Adsg.C02.feasible_final_is_arch
#print axioms Adsg.C02.arch_is_reachable
