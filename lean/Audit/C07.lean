import Adsg.Props.C07
#print axioms Adsg.C07.sel_active_exists
#print axioms Adsg.C07.conn_active_exists
#print axioms Adsg.C07.dv_active_iff_exists
#print axioms Adsg.C07.inactive_canonical
#print axioms Adsg.C07.permanent_dv_always_active
#print axioms Adsg.C07.permanent_sel_always_active
#print axioms Adsg.C07.activeness_of_corrected_ref
#print axioms Adsg.C07.activeness_of_corrected_partial
#print axioms Adsg.C07.activeness_agrees_ref_outside_conn
#print axioms Adsg.C07.activeness_path_dependent
