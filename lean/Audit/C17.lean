import Adsg.Props.C17
#print axioms Adsg.C17.objective_only_if
#print axioms Adsg.C17.constraint_only_if
#print axioms Adsg.C17.declared_none_unused
#print axioms Adsg.C17.both_possible_declared_decides
#print axioms Adsg.C17.undeclared_ambiguous
#print axioms Adsg.C17.ambiguous_rejected
#print axioms Adsg.C17.classify_members
#print axioms Adsg.C17.evaluate_shape
#print axioms Adsg.C17.evaluate_values
#print axioms Adsg.C17.absent_constraint_ref
#print axioms Adsg.C17.lookupVal_given_or_nan
#print axioms Adsg.C17.classify_order_independent
#print axioms Adsg.C17.permanent_in_every_arch
#print axioms Adsg.C17.objective_in_every_arch
