import Adsg.Props.C16
#print axioms Adsg.C16.correct_in_domain
#print axioms Adsg.C16.correct_id_on_domain
#print axioms Adsg.C16.correct_idempotent
#print axioms Adsg.C16.correct_monotone
#print axioms Adsg.C16.cont_is_pick
#print axioms Adsg.C16.trunc_integral
#print axioms Adsg.C16.trunc_bounds
#print axioms Adsg.C16.decode_dv_iff_exists
#print axioms Adsg.C16.decode_dv_active_value
#print axioms Adsg.C16.decode_dv_absent_canonical
#print axioms Adsg.C16.decode_dv_idempotent
#print axioms Adsg.C16.linked_discrete_same_index
#print axioms Adsg.C16.correct_nearest
#print axioms Adsg.C16.correct_changes_only_outside
#print axioms Adsg.C16.trunc_bounds_neg
#print axioms Adsg.C16.trunc_sign
