import Adsg.Props.C04
#print axioms Adsg.C04.design_valid
#print axioms Adsg.C04.design_complete
#print axioms Adsg.C04.allDesigns_nodup
#print axioms Adsg.C04.design_ext
#print axioms Adsg.C04.nValid_eq_formula
#print axioms Adsg.C04.repAssigns_rows
#print axioms Adsg.C04.repAssigns_admissible
#print axioms Adsg.C04.declared_product
#print axioms Adsg.C04.decode_onto
#print axioms Adsg.C04.fixed_rows_injective
