import Adsg.Props.C09
#print axioms Adsg.C09.mem_boundedComp
#print axioms Adsg.C09.nodup_boundedComp
#print axioms Adsg.C09.mem_enumSpec_iff
#print axioms Adsg.C09.nodup_enumSpec
#print axioms Adsg.C09.colRec_exact
#print axioms Adsg.C09.colRec_nodup
#print axioms Adsg.C09.enumLib_eq_enumSpec
#print axioms Adsg.C09.enumLib_nodup
#print axioms Adsg.C09.validate_iff_enumerated
#print axioms Adsg.C09.colCount_eq_length
#print axioms Adsg.C09.count_eq_length
#print axioms Adsg.C09.open_list_rewrite_sound
