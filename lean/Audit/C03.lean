import Adsg.Props.C03
#print axioms Adsg.C03.corrected_in_range
#print axioms Adsg.C03.decode_agrees_ref
#print axioms Adsg.C03.decodeRef_idempotent
#print axioms Adsg.C03.decode_idempotent_partial
#print axioms Adsg.C03.decode_activeness_not_idempotent
#print axioms Adsg.C03.corrected_determines_design
#print axioms Adsg.C03.design_determines_corrected
#print axioms Adsg.C03.sel_describes
#print axioms Adsg.C03.selected_option_wired
#print axioms Adsg.C03.dv_describes
