import Adsg.Props.C08
#print axioms Adsg.C08.looks_are_pure
#print axioms Adsg.C08.observation_stable
#print axioms Adsg.C08.objects_append_only
#print axioms Adsg.C08.look_ignores_cells
#print axioms Adsg.C08.stale_read_not_persistent
#print axioms Adsg.C08.stale_read_persistent_without_groups
