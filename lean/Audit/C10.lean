import Adsg.Props.C10
#print axioms Adsg.C10.get_valid
#print axioms Adsg.C10.get_in_range
#print axioms Adsg.C10.get_idempotent
#print axioms Adsg.C10.get_onto
#print axioms Adsg.C10.get_injective
#print axioms Adsg.C10.all_vectors_exact
#print axioms Adsg.C10.activeness_is_table_marks
#print axioms Adsg.C10.inactive_canonical
#print axioms Adsg.C10.two_values_each
#print axioms Adsg.C10.unknown_pattern_inactive
#print axioms Adsg.C10.impl_same_vector_and_matrix
#print axioms Adsg.C10.impl_idempotent_vector_matrix
#print axioms Adsg.C10.impl_activeness_imputed
#print axioms Adsg.C10.impl_direct_hit_activeness_mismatch
