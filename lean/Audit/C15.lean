import Adsg.Proofs.Closure
#print axioms Adsg.mem_closure_iff_reach
