import Adsg.Props.C15
#print axioms Adsg.C15.fix_sandwich
#print axioms Adsg.C15.inactive_rows
#print axioms Adsg.C15.restrict_exact
#print axioms Adsg.C15.restrict_sublist
#print axioms Adsg.C15.restrict_nil
#print axioms Adsg.C15.restrict_perm
#print axioms Adsg.C15.setFixed_get
#print axioms Adsg.C15.fix_then_free
#print axioms Adsg.C15.fix_free_history
#print axioms Adsg.C15.all_freed_restores
#print axioms Adsg.C15.fix_rejects
#print axioms Adsg.C15.decode_in_restricted
#print axioms Adsg.C15.restrict_mono
#print axioms Adsg.C15.restrict_append
#print axioms Adsg.C15.restrict_count_le
