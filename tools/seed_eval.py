#!/venv/bin/python
"""Confirm a seeded change produced by a sub-agent and run the registered checks against it.

  tools/seed_eval.py <PROP> <seed-dir> <n> [--checks C01,C03] [--tier quick]

<seed-dir> holds seed<n>.diff, seed<n>_demo.py, seed<n>.md (written by a sub-agent that saw only the property text).
1. confirmation in a scratch worktree of /repo under /tmp (removed afterwards): the demonstration exits 0 on the clean
   tree and 1 with the patch; the patch applies; the repository's test suite gives the same summary as on the clean tree;
2. the change is stored as /verif/seeded/<PROP>-s<n>/ (patch.diff, demo.py, notes.md, meta.json);
3. the patch is applied to /repo's working tree, the checks are run, the patch is undone (git checkout -- .).
Nothing is ever committed to /repo.
"""
import argparse
import glob
import json
import os
import re
import shutil
import subprocess
import sys
import time

VERIF = os.path.dirname(os.path.dirname(os.path.abspath(__file__)))
BASELINE = '295 passed, 8 skipped'


def sh(cmd, cwd=None, env=None, timeout=3600):
    e = dict(os.environ)
    if env:
        e.update(env)
    p = subprocess.run(cmd, shell=True, cwd=cwd, env=e, capture_output=True, text=True, timeout=timeout)
    return p.returncode, p.stdout + p.stderr


def main():
    ap = argparse.ArgumentParser()
    ap.add_argument('prop')
    ap.add_argument('dir')
    ap.add_argument('n')
    ap.add_argument('--checks', default=None)
    ap.add_argument('--tier', default='quick')
    ap.add_argument('--skip-confirm', action='store_true')
    a = ap.parse_args()
    sid = '%s-s%s' % (a.prop, a.n)
    diff = os.path.join(a.dir, 'seed%s.diff' % a.n)
    demo = os.path.join(a.dir, 'seed%s_demo.py' % a.n)
    notes = os.path.join(a.dir, 'seed%s.md' % a.n)
    out = os.path.join(VERIF, 'seeded', sid)
    meta = {'id': sid, 'property': a.prop, 'source': 'sub-agent given only the property text and a scratch worktree'}
    if os.path.exists(os.path.join(out, 'meta.json')):
        meta = json.load(open(os.path.join(out, 'meta.json')))
        diff, demo = os.path.join(out, 'patch.diff'), os.path.join(out, 'demo.py')
        if meta.get('confirmed'):
            a.skip_confirm = True      # already confirmed and stored: only (re-)run the checks
    if not a.skip_confirm:
        wt = '/tmp/confirm_%s' % sid
        sh('git -C /repo worktree remove --force %s' % wt)
        shutil.rmtree(wt, ignore_errors=True)
        rc, o = sh('git -C /repo worktree add -q --detach %s HEAD' % wt)
        assert rc == 0, o
        try:
            env = {'PYTHONPATH': wt, 'XDG_CACHE_HOME': wt + '/.cache'}
            shutil.copy(demo, wt + '/_demo.py')
            rc_clean, o_clean = sh('/venv/bin/python _demo.py', cwd=wt, env=env, timeout=900)
            rc_apply, o = sh('git apply %s' % os.path.abspath(diff), cwd=wt)
            files = sh('git diff --stat', cwd=wt)[1]
            rc_seed, o_seed = sh('/venv/bin/python _demo.py', cwd=wt, env=env, timeout=900)
            _, t = sh('/venv/bin/python -m pytest -q -rf -p no:cacheprovider --timeout=900 --continue-on-collection-errors -W ignore 2>&1 | tail -15',
                      cwd=wt, env=env, timeout=3000)
            m = re.search(r'((?:\d+ failed, )?\d+ passed[^\n]*?) in ', t)
            summary = m.group(1) if m else t.strip()[-200:]
            failed = re.findall(r'^FAILED (\S+)', t, flags=re.M)
            rerun = None
            if failed and len(failed) <= 3:
                # load-sensitive tests (time limiter, shared cache): re-run the failed ones alone, up to 3 times, on the
                # changed tree and - when they keep failing - on the clean tree (/repo) under the same machine load
                ok_alone = False
                for _ in range(3):
                    rc_r, t_r = sh('/venv/bin/python -m pytest -q -p no:cacheprovider --timeout=900 -W ignore %s 2>&1 | tail -3' % ' '.join(failed),
                                   cwd=wt, env=env, timeout=1500)
                    rerun = 'changed tree alone: ' + (t_r.strip().splitlines()[-1] if t_r.strip() else '')
                    if ' failed' not in rerun and 'passed' in rerun:
                        ok_alone = True
                        break
                if not ok_alone:
                    rc_c, t_c = sh('/venv/bin/python -m pytest -q -p no:cacheprovider --timeout=900 -W ignore %s 2>&1 | tail -3' % ' '.join(failed),
                                   cwd='/repo', env={'XDG_CACHE_HOME': wt + '/.cache2'}, timeout=1500)
                    last = t_c.strip().splitlines()[-1] if t_c.strip() else ''
                    rerun += '; clean tree alone at the same time: ' + last
                    ok_alone = ('%d failed' % len(failed)) in last   # fails on the clean tree as well: load, not the change
                if ok_alone:
                    m2 = re.match(r'(\d+) failed, (\d+) passed(.*)', summary)
                    if m2:
                        summary = '%d passed%s' % (int(m2.group(1)) + int(m2.group(2)), m2.group(3))
        finally:
            sh('git -C /repo worktree remove --force %s' % wt)
            shutil.rmtree(wt, ignore_errors=True)
        meta['confirmation'] = {'patch_applies': rc_apply == 0, 'demo_exit_clean': rc_clean, 'demo_exit_seeded': rc_seed,
                                'demo_output_seeded': o_seed[-600:], 'tests_with_change': summary, 'tests_baseline': BASELINE, 'tests_failed_first_run': failed, 'tests_rerun_alone': rerun,
                                'diffstat': files.strip()}
        ok = rc_apply == 0 and rc_clean == 0 and rc_seed == 1 and summary.startswith(BASELINE)
        meta['confirmed'] = ok
        print('confirmation:', json.dumps({k: v for k, v in meta['confirmation'].items() if k != 'demo_output_seeded'})[:900])
        if not ok:
            print('NOT CONFIRMED - not stored')
            return 3
        os.makedirs(out, exist_ok=True)
        shutil.copy(diff, os.path.join(out, 'patch.diff'))
        shutil.copy(demo, os.path.join(out, 'demo.py'))
        if os.path.exists(notes):
            shutil.copy(notes, os.path.join(out, 'notes.md'))
    patch = os.path.join(out, 'patch.diff')
    checks = (a.checks.split(',') if a.checks else [a.prop])
    rc, o = sh('git -C /repo status --porcelain')
    assert o.strip() == '', '/repo is not clean: ' + o
    rc, o = sh('git -C /repo apply %s' % patch)
    assert rc == 0, o
    res = meta.setdefault('checks', {})
    try:
        for c in checks:
            key = '%s:%s' % (c, a.tier)
            if key in res:     # keep what the check reported before it was strengthened
                meta.setdefault('earlier_runs', []).append({key: res[key]})
            before = set(glob.glob(os.path.join(VERIF, 'replay', '*.json')))
            t0 = time.time()
            rc, o = sh('./check %s --tier %s' % (c, a.tier), cwd=VERIF, timeout=7200)
            lines = [l for l in o.splitlines() if l.startswith('VIOLATION') or l.startswith('  kind=')]
            res['%s:%s' % (c, a.tier)] = {'exit': rc, 'wall_s': round(time.time() - t0, 1), 'violation_lines': [l[:400] for l in lines[:6]],
                                          'summary': o.strip().splitlines()[-1][:300] if o.strip() else ''}
            new = sorted(set(glob.glob(os.path.join(VERIF, 'replay', '*.json'))) - before)
            for i, f in enumerate(new[:2]):
                shutil.copy(f, os.path.join(out, 'replay_%s_%d.json' % (c, i)))
            print(c, 'exit', rc, lines[:2])
    finally:
        sh('git -C /repo checkout -- .')
    meta['caught_by'] = sorted(k for k, v in res.items() if v['exit'] == 1)
    json.dump(meta, open(os.path.join(out, 'meta.json'), 'w'), indent=1)
    print('caught_by:', meta['caught_by'])
    return 0


if __name__ == '__main__':
    sys.exit(main())
