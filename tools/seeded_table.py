#!/usr/bin/env python3
"""Generate seeded/README.md (which checks catch which seeded changes) from seeded/*/meta.json."""
import glob
import json
import os

VERIF = os.path.dirname(os.path.dirname(os.path.abspath(__file__)))


def main():
    rows = []
    for f in sorted(glob.glob(os.path.join(VERIF, 'seeded', '*', 'meta.json'))):
        m = json.load(open(f))
        d = os.path.dirname(f)
        files = ''
        ds = m.get('confirmation', {}).get('diffstat', '')
        files = ', '.join(l.split('|')[0].strip() for l in ds.splitlines() if '|' in l)
        title = m.get('title', '')
        if not title and os.path.exists(os.path.join(d, 'notes.md')):
            for line in open(os.path.join(d, 'notes.md')):
                line = line.strip().lstrip('#').strip()
                if line:
                    title = line[:160]
                    break
        checks = m.get('checks', {})
        caught = [k for k, v in checks.items() if v['exit'] == 1]
        missed = [k for k, v in checks.items() if v['exit'] == 0]
        how = ''
        for k in caught[:1]:
            vl = [l for l in checks[k]['violation_lines'] if l.strip().startswith('kind=')]
            if vl:
                how = vl[0].strip().split(' detail=')[0]
        note = m.get('strengthened', '')
        if m.get('neutralised_by'):
            note = 'neutralised by repo fix %s: %s' % (m['neutralised_by']['commit'], m['neutralised_by']['note'])
            caught, missed = [], []
        if m.get('rebased'):
            note = (note + '; ' if note else '') + m['rebased']
        rows.append((m['id'], m['property'], files, title, ', '.join(caught) or '-', ', '.join(missed) or '-', how, note))
    out = ['# Seeded changes', '',
           'Each directory holds `patch.diff` (apply with `git -C /repo apply`, undo with `git -C /repo checkout -- .`), `demo.py`',
           '(exits 0 on the clean tree, 1 with the change), `notes.md` (the sub-agent\'s description), `meta.json` (confirmation and',
           'the outcome of the registered checks) and, when caught, the replay file the check wrote. Produced by fresh sub-agents',
           'that saw only the property text; confirmed by `tools/seed_eval.py`; never committed to /repo.', '',
           '| id | files | change | caught by | not caught by | first reported as | notes |', '|---|---|---|---|---|---|---|']
    for r in rows:
        out.append('| %s | %s | %s | %s | %s | %s | %s |' % (r[0], r[2], r[3].replace('|', '/'), r[4], r[5], r[6].replace('|', '/'), r[7]))
    n = len(rows)
    c = sum(1 for r in rows if r[4] != '-')
    out += ['', '%d confirmed seeded changes, %d caught by at least one registered check (quick tier unless stated).' % (n, c)]
    open(os.path.join(VERIF, 'seeded', 'README.md'), 'w').write('\n'.join(out) + '\n')
    print('\n'.join(out[-3:]))


if __name__ == '__main__':
    main()
