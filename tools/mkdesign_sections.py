#!/usr/bin/env python3
"""Regenerate the generated parts of DESIGN.md §14 (14.4 fixes, 14.5 open findings, 14.7 seeded-change table) from
known_findings.json and seeded/*/meta.json. Hand-written text between the section headings is kept in the templates below."""
import glob
import json
import os
import re

VERIF = os.path.dirname(os.path.dirname(os.path.abspath(__file__)))


def sec_144(k):
    out = ['### 14.4 Defects repaired in /repo (each one `fix:` commit; suite passes: 295 passed, 8 skipped)', '']
    for f in k['fixed']:
        out.append('* ' + f[len('fixed: '):])
    out += ['',
            'The repair of bb9cd7a (pandas >= 3 returns read-only arrays) also made the repository\'s own',
            '`adsg_core/tests/assign_enc` tree collectable in this environment (142 -> 295 passing tests;',
            '`test_time_limiter` in that tree is wall-clock sensitive and fails intermittently under machine load, on the',
            'unchanged tree as well - it is not among the 142 pinned tests). A candidate repair of the eager direct-hit',
            'activeness (F3) was dropped again because those tests pin the current behaviour - it is modelled as it is',
            '(`eagerGetImpl`, `managerGetImpl`) and recorded as a known finding with a proved mismatch theorem.',
            'Three of the repairs (00072a1, 47c7e8c, bfe6f5a) came out of the seeded-change campaign: a seeding sub-agent',
            'noticed two misbehaviours of the unchanged tree (both then reproduced by the C02 walk once its generator had an',
            '"overlapping derivation paths" stream), and a seeded change that hid inside the class of the "infeasibility is not',
            'sticky" finding prompted a second, successful attempt at repairing that finding (a flag on the graph object',
            'instead of a marker edge) - which removed six mirrored known findings.', '']
    return out


def sec_145(k):
    out = ['### 14.5 Known findings (open), by defect; mirrored per property that observes them', '']
    seen = {}
    for f in k['open']:
        key = f['id'].split('-', 2)[2]
        e = seen.setdefault(key, {'props': [], 'title': f['title'], 'why': f.get('why_not_fixed', ''), 'cls': f.get('class')})
        e['props'].append(f['property'])
    for key, v in seen.items():
        out.append('* **%s** (%s): %s%s' % (key, ', '.join(sorted(set(v['props']))), v['title'],
                                            (' *Not fixed:* ' + v['why']) if v['why'] else ''))
    out += ['',
            'Each entry names the disagreement kinds it may explain and a class predicate over the measured class of the',
            'disagreement (e.g. `enc=COMPLETE and cons_ty=unordered`, `shared_options`, `conn_var_involved`,',
            '`group_rep_mixed`); a disagreement outside its kinds or class is reported as a violation. A finding that no',
            'longer reproduces prints nothing. A class predicate is as wide as the defect\'s reach: a *new* defect that only',
            'shows inside such a class is attributed to the finding and not reported (seeded change C06-s1 showed this for',
            'the former "non-sticky infeasibility" class; that finding has since been repaired and its class is gone).', '']
    return out


def sec_147():
    rows = []
    for f in sorted(glob.glob(os.path.join(VERIF, 'seeded', '*', 'meta.json'))):
        m = json.load(open(f))
        checks = m.get('checks', {})
        caught = sorted(k.split(':')[0] for k, v in checks.items() if v['exit'] == 1)
        missed = sorted(k.split(':')[0] for k, v in checks.items() if v['exit'] == 0)
        earlier_missed = sorted({list(e.keys())[0].split(':')[0] for e in m.get('earlier_runs', []) if list(e.values())[0]['exit'] == 0})
        ds = m.get('confirmation', {}).get('diffstat', '')
        files = ', '.join(os.path.basename(l.split('|')[0].strip()) for l in ds.splitlines() if '|' in l)
        note = ', '.join(c for c in earlier_missed if c in caught) or ''
        if m.get('neutralised_by'):
            note = 'no longer a violation on the current tree (fix %s); before the fix: %s' % (
                m['neutralised_by']['commit'], 'caught by ' + ', '.join(sorted({list(e.keys())[0].split(':')[0] for e in m.get('earlier_runs', []) if list(e.values())[0]['exit'] == 1})) if any(list(e.values())[0]['exit'] == 1 for e in m.get('earlier_runs', [])) else 'not caught (hidden in the class of a then-open known finding)')
            caught, missed = [], []
        rows.append((m['id'], files, ', '.join(caught) or '-', ', '.join(missed) or '-', note))
    out = ['### 14.7 Seeded changes and which checks catch them', '',
           'Fresh sub-agents, given only a property\'s text and a scratch worktree, produced two changes per property that',
           'break the property while the repository\'s tests still pass; each was confirmed (`tools/seed_eval.py`: patch',
           'applies, demonstration exits 0 on the clean tree and 1 with the change, test summary identical to the clean',
           'tree) and is kept under `seeded/<id>/`. The checks were then run with the patch applied to /repo\'s working tree',
           '(quick tier) and the patch undone. "strengthened" = the check missed the change at first and catches it after a',
           'general strengthening of its generator / observations (never a special case for the seeded input); details per',
           'change in `seeded/README.md` and `seeded/<id>/meta.json` (`earlier_runs`).', '',
           '| id | file | caught by | run, not caught | caught only after strengthening |', '|---|---|---|---|---|']
    for r in rows:
        out.append('| %s | %s | %s | %s | %s |' % r)
    n = len(rows)
    c = sum(1 for r in rows if r[2] != '-')
    z = sum(1 for r in rows if 'no longer a violation' in r[4])
    out += ['', '%d confirmed seeded changes; %d are caught by at least one registered quick check, %d no longer break the property since a repair of the repository (see the last column), %d are not caught.' % (n, c, z, n - c - z), '',
            'What the strengthenings were: C08 - observations made in varying order (a feasibility read re-synchronises shared',
            'node state and hid a stale read of connection sets) and choice constraints observed; C09 - consecutive degree',
            'lists reaching 3 (per-pair limit must come from the degrees as declared); C10 - deterministic sweep over the',
            'number of valid matrices (count-dependent branches of the enumerating encoders), larger and uniform settings (the',
            'shapes of the pattern encoders), algorithmic reference enumeration for large settings; C18 - a second constraint',
            'added to one side of a copy of a graph that already holds one; C19 - functions blocking far beyond the limit;',
            'C20 - existence mappings keyed on design-variable / metric nodes; C04 - enumeration with fixed variables (the',
            'property\'s "with/without fixed variables"); C01/C03 - two connection choices per problem; C16 - preset values on',
            'the design space graph and a late re-check of earlier instances; C02 - overlapping derivation paths, components',
            'no start node derives, corpus of minimised past failures. Second round (ids ...-s3): C17 - evaluator values that are',
            'exact zeros / negative / -0.0; C05 - more problems per run and a larger share of constrained problems, an',
            'independent choice next to the constrained ones; C06/C02 - the order of construction varied (selection choices',
            'declared before the derivation edges), since the library\'s traversals see edges in insertion order.',
            'Third round (C18-s3, C19-s3, C20-s3, one sub-agent each): C19 - workers that swallow the interrupt once or block in',
            'native code and outlive the deadline by whole seconds (1.5 / 3.2 s quick, up to 13 s thorough): a join that gives up',
            'after max(limit, 1 s) returned control while the worker was still inside the function; C18-s3 (constraint list',
            'shared between a graph and its copies) and C20-s3 (nested supplementary choice whose mapping is registered before',
            'its parent\'s) were caught by the checks as they stood. Fourth round (C08-s3 status array shared with the graph a',
            'connection choice is applied to; C09-s3 gap values of a non-contiguous target degree list accepted as column sums;',
            'C16-s3 bounds fraction computed before clamping, so a linked continuous node stores a value outside its bounds): all',
            'three caught by the checks as they stood (C09-s3 also by C11).', '']
    return out


def main():
    k = json.load(open(os.path.join(VERIF, 'known_findings.json')))
    p = os.path.join(VERIF, 'DESIGN.md')
    s = open(p).read()

    def repl(s, start, end, lines):
        i = s.index(start)
        j = s.index(end)
        return s[:i] + '\n'.join(lines) + '\n' + s[j:]
    s = repl(s, '### 14.4 ', '### 14.5 ', sec_144(k))
    s = repl(s, '### 14.5 ', '### 14.6 ', sec_145(k))
    s = repl(s, '### 14.7 ', '### 14.8 ', sec_147())
    open(p, 'w').write(s)
    print('DESIGN.md sections 14.4, 14.5, 14.7 regenerated')


if __name__ == '__main__':
    main()
