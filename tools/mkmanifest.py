#!/usr/bin/env python3
"""Regenerate MANIFEST.json from tools/claims.json (claimed properties) + properties.jsonl."""
import json, os
V = os.path.dirname(os.path.dirname(os.path.abspath(__file__)))
props = [json.loads(l) for l in open(os.path.join(V, 'properties.jsonl'))]
claims = json.load(open(os.path.join(V, 'tools', 'claims.json')))
checks, na = [], []
for p in props:
    pid = p['id']
    c = claims.get(pid)
    if c is None or c.get('not_applicable'):
        na.append({'property_id': pid, 'reason': (c or {}).get('not_applicable', 'check not built yet in this round; the technique applies (see DESIGN.md §7)')})
        continue
    checks.append({
        'property_id': pid,
        'quick_cmd': './check %s --tier quick' % pid,
        'thorough_cmd': './check %s --tier thorough' % pid,
        'evidence_file': 'evidence/%s.json' % pid,
        'replay_cmd_template': './check %s --replay {path}' % pid,
        'engine': 'lean-model+correspondence',
        'level_claimed': {'category': 'proof', 'text': c['text'], 'design_ref': c.get('design_ref', 'DESIGN.md §7 ' + pid)},
        'level_note': c['note'],
        'technique': c.get('technique', 'Lean 4 theorems over a hand-written model + differential correspondence check against the Python implementation'),
    })
m = {
    'version': 1,
    'setup_cmd': 'cd lean && lake build Adsg adsg_driver',
    'hooks': {'guard': 'ADSG_CORE_VERIF',
              'enable': 'no source hooks: checks import adsg_core from /repo\'s working tree (editable install in /venv) and observe through the public API and attribute introspection',
              'baseline_off_cmd': 'cd /repo && /venv/bin/python -m pytest -ra -q -p no:cacheprovider --timeout=900 --continue-on-collection-errors',
              'source_commits': [], 'add_only': True},
    'engines': [{'name': 'lean-model+correspondence', 'path': 'lean/ + harness/ + check',
                 'serves_properties': [c['property_id'] for c in checks],
                 'kind_free_text': 'Lean 4 model and theorems (lean/Adsg), compiled Lean driver (lean/Driver.lean) speaking a JSON line protocol, Python harness (harness/) driving the real adsg_core on the same inputs'}],
    'checks': checks,
    'not_applicable': na,
    'notes': 'Every check: (1) lake build + forbidden-token grep + #print axioms audit of the property theorems, (2) differential correspondence model vs implementation, (3) classification against known_findings.json. Exit 2 = harness trouble (timeout), never a violation.',
}
json.dump(m, open(os.path.join(V, 'MANIFEST.json'), 'w'), indent=1)
print('claimed', len(checks), 'n/a', len(na))
