"""Exhaustive walk over the real step-by-step resolution API (all orders x all offered options), compared state by
state with the Lean model (driver op `state` / `archs`). Shared by C02, C06 and C13 (graph level).

Disagreement kinds (which property judges which is decided by the caller through `kinds`):
  C02: confirmed-set, next-choices, leaf-nodes, leaf-not-final, choice-node-left, order-dependence, reachable-set-missing,
       reachable-set-extra, apply-exc
  C06: over-pruned, offered-undeclared, infeasible-state-but-completable, conflict-in-feasible-instance,
       infeasible-graph-but-admissible-exists, feasible-leaf-not-admissible
"""
from adsg_core.graph.adsg_nodes import SelectionChoiceNode

from . import gen


class Walk:
    def __init__(self, ctx, rep, spec, kinds, max_states, cls=None):
        self.ctx, self.rep, self.spec, self.kinds = ctx, rep, spec, kinds
        self.max_states = max_states
        self.n_states = 0
        self.truncated = False
        self.leaves = {}      # frozenset(p.items()) -> (nodes, feasible, final)
        self.feasible_rows = {}
        self.cls = cls or {}
        self.mg = gen.model_graph(spec)
        self.cur_completable = None

    def dis(self, kind, p, detail):
        if kind in self.kinds:
            cls = dict(self.cls)
            # does the model consider the state at which this was observed dead (no admissible completion)?
            cls['model_completable'] = self.cur_completable
            self.rep.disagree(kind, {'spec': self.spec, 'picks': sorted(p.items())}, detail, cls)

    def assign_list(self, p):
        return [p.get(c) for c in range(len(self.spec['sel']))]

    def fold_auto(self, b, g, p):
        """Fold automatically taken choices into p. Returns False when a choice was auto-taken without option.
        The library's record (get_taken_single_selection_choices) is used first; because that record is reset by
        every resolve pass (e.g. constrain_choices followed by initialize_choices), choices that have vanished
        from the graph while their originating node is still there are additionally inferred from the
        origin -> option edge."""
        ok = True
        for cn, on in g.get_taken_single_selection_choices():
            ci = b.cidx.get(cn)
            if ci is None:
                continue
            if on is None:
                ok = False
            else:
                opts = self.spec['sel'][ci]['opts']
                ni = b.idx.get(on)
                if ni in opts:
                    p[ci] = opts.index(ni)
                else:
                    self.dis('offered-undeclared', p, {'choice': ci, 'auto-taken': str(on)})
        gn = g.graph
        for ci, c in enumerate(self.spec['sel']):
            if ci in p or b.cn[ci] in gn.nodes:
                continue
            origin = b.nodes[c['o']]
            if origin not in gn.nodes:
                continue
            wired = [k for k, o in enumerate(c['opts']) if b.nodes[o] in gn.nodes and gn.has_edge(origin, b.nodes[o])
                     and [c['o'], o] not in self.spec['derives']]
            if len(wired) == 1:
                p[ci] = wired[0]
        return ok

    def run(self):
        spec, rep = self.spec, self.rep
        try:
            b = gen.build(spec)
        except Exception as e:
            rep.count('build-exc:' + type(e).__name__)
            return None
        self.b = b
        g = b.dsg
        p0 = {}
        has_opt = self.fold_auto(b, g, p0)
        archs = self.ctx.driver.ask('archs', g=self.mg)
        self.model_rows = {tuple(a['row']): a['nodes'] for a in archs['archs']}
        if not g.feasible:
            rep.count('graph:init-infeasible')
            if self.model_rows:
                self.dis('infeasible-graph-but-admissible-exists', p0, {'n_model_archs': len(self.model_rows)})
            return self
        self.rec(g, p0, has_opt)
        self.cur_completable = None
        if not self.truncated:
            got = set(self.feasible_rows)
            want = set(self.model_rows)
            if want - got:
                self.dis('reachable-set-missing', {}, {'missing': [list(r) for r in sorted(want - got, key=str)][:4],
                                                      'n_model': len(want), 'n_impl': len(got)})
            if got - want:
                # extra rows that were only ever reached through states the model considers dead
                self.cur_completable = any(self.feasible_rows[r] for r in got - want)
                self.dis('reachable-set-extra', {}, {'extra': [list(r) for r in sorted(got - want, key=str)][:4]})
                self.cur_completable = None
        else:
            rep.count('walk:truncated')
        return self

    def rec(self, g, p, has_opt=True):
        try:
            self._rec(g, p, has_opt)
        except Exception as e:   # the public API itself failed at this state
            self.dis('api-exc', p, {'exc': repr(e)[:200]})

    def _rec(self, g, p, has_opt=True):
        if self.n_states >= self.max_states or self.ctx.out_of_time():
            self.truncated = True
            return
        self.n_states += 1
        b, spec, rep = self.b, self.spec, self.rep
        m = self.ctx.driver.ask('state', g=self.mg, a=self.assign_list(p))
        self.cur_completable = m['completable']
        feasible = g.feasible
        if not feasible or not has_opt:
            rep.count('state:infeasible')
            if feasible and not has_opt:
                self.dis('no-option-but-feasible', p, {})
            if m['completable']:
                self.dis('infeasible-state-but-completable', p, {'model_viable': m['viable']})
            return
        nxt = [c for c in g.get_ordered_next_choice_nodes() if isinstance(c, SelectionChoiceNode)]
        nxt_ids = sorted(b.cidx[c] for c in nxt)
        conf = sorted(b.idx[n] for n in g.get_confirmed_graph().graph.nodes if n in b.idx)
        if conf != m['nodes']:
            self.dis('confirmed-set', p, {'impl': conf, 'model': m['nodes']})
        if nxt_ids != m['next']:
            self.dis('next-choices', p, {'impl': nxt_ids, 'model': m['next']})
        if not nxt:
            rep.count('state:leaf')
            nodes = b.node_ids(g)
            left = b.choice_ids(g)
            key = frozenset(p.items())
            row = tuple(m['row'])
            if left:
                self.dis('choice-node-left', p, {'choices': left})
            if not g.final:
                self.dis('leaf-not-final', p, {})
            if nodes != m['nodes']:
                self.dis('leaf-nodes', p, {'impl': nodes, 'model': m['nodes']})
            if key in self.leaves and self.leaves[key] != (nodes, True):
                self.dis('order-dependence', p, {'first': self.leaves[key], 'now': (nodes, True)})
            self.leaves[key] = (nodes, True)
            if not m['conflict_free']:
                self.dis('conflict-in-feasible-instance', p, {'nodes': nodes})
            elif row not in self.model_rows:
                self.dis('feasible-leaf-not-admissible', p, {'row': list(row), 'cons_ok': m['cons_ok']})
            self.feasible_rows[row] = self.feasible_rows.get(row, False) or bool(m['completable'])
            return
        rep.count('state:inner')
        viable = {v['c']: v['viable'] for v in m['viable']}
        for c in nxt:
            ci = b.cidx[c]
            declared = spec['sel'][ci]['opts']
            offered_nodes = g.get_option_nodes(c)
            offered = []
            for o in offered_nodes:
                ni = b.idx.get(o)
                if ni in declared:
                    offered.append(declared.index(ni))
                else:
                    self.dis('offered-undeclared', p, {'choice': ci, 'offered': str(o)})
            lost = [k for k in viable.get(ci, []) if k not in offered]
            if lost:
                self.dis('over-pruned', p, {'choice': ci, 'viable': viable.get(ci), 'offered': offered})
            if set(offered) - set(viable.get(ci, [])):
                rep.count('note:offered-but-not-viable')
            for o, k in zip(offered_nodes, offered):
                try:
                    g2 = g.get_for_apply_selection_choice(c, o)
                except Exception as e:
                    self.dis('apply-exc', dict(p, **{ci: k}), {'exc': repr(e)[:200]})
                    continue
                q = dict(p)
                q[ci] = k
                ok = self.fold_auto(b, g2, q)
                self.rec(g2, q, ok)
