"""C04 The enumerated valid design vectors are exactly the architectures, one each.\n\nCorrespondence: see harness/procpass.py (enum_checks) - get_all_discrete_x rows decode to themselves with the listed\nactiveness, their designs are pairwise distinct and equal the model's set of designs; get_n_valid_designs = rows = model\ncount; get_n_design_space = product of option counts; imputation ratio = quotient. Complete encoder only."""
from .. import proc, procpass

KINDS = {'restricted-duplicate-rows', 'restricted-design-lost', 'restricted-design-not-in-original', 'restricted-rows-vs-model', 'restricted-count-mismatch', 'restricted-enumeration-exc', 'enum-row-not-fixed-point', 'enum-activeness-differs', 'enum-duplicate-design', 'enum-missing-designs', 'enum-extra-designs', 'n-valid-mismatch', 'n-declared-mismatch', 'imputation-ratio-mismatch', 'enum-exc', 'lean-design-space'}
RULE = ('seeded problems from streams (tame, tree, cons, dv, conn, conn-dv, shared) x the complete encoder, every third problem additionally with one or two variables fixed; per problem every vector of the declared design space when <= 200 vectors (continuous variables at 3 sample points), else 200 samples; a case is one (problem, encoder); non-trivial = >= 2 architectures or a connection choice or DV nodes; distinct by content hash')
BUDGET = {'quick': 110, 'thorough': 1500}
JOBS = {'quick': 4, 'thorough': 16}
ASSUMPTIONS = ['the complete encoder\'s correction target, the encoder tables and the declared (non-forced) selection variables are read from the implementation and validated, not predicted', 'instances are compared through their semantic content: selection row, connection matrices, DV-node values, node set']
LEANCHECK_MODULES = ['Adsg.Model.Decode', 'Adsg.Props.C04']
ENCODERS = ('COMPLETE',)
STREAMS = ('tame', 'tree', 'cons', 'dv', 'conn', 'conn-dv', 'shared')


def check(ctx, rep, spec, enc):
    try:
        return procpass.run_pass(ctx, rep, spec, enc, KINDS, want_enum=True)
    except Exception as e:
        import traceback
        rep.disagree('harness-exc', {'spec': spec, 'enc': enc}, {'exc': repr(e)[:200], 'tb': traceback.format_exc(limit=5)[-700:]})


FIXED_KINDS = {'restricted-duplicate-rows', 'restricted-design-lost', 'restricted-design-not-in-original',
               'restricted-rows-vs-model', 'restricted-count-mismatch', 'restricted-enumeration-exc'}


def check_fixed(ctx, rep, spec, i):
    """"... with/without fixed variables": the enumeration and the count with one or two variables fixed are exactly the
    designs of the original enumeration that carry the fixed values (the machinery of C15, judged here on the enumeration
    clauses only)."""
    from ..core import Report
    from . import c15
    sub = Report()
    try:
        c15.check_problem(ctx, sub, spec, i)
    except Exception as e:
        rep.count('fixed-pass-exc:' + type(e).__name__)
        return
    rep.count('fixed-pass')
    for d in sub.disagreements:
        if d['kind'] in FIXED_KINDS:
            rep.disagree(d['kind'], d['input'], d['detail'], d['cls'])


def run(ctx, rep):
    n = ctx.pick(300, 6000)
    i = 0
    for i in range(n):
        spec = proc.gen_problem(ctx.rng, streams=STREAMS)
        if not ctx.mine(i):
            continue
        for enc in ENCODERS:
            check(ctx, rep, spec, enc)
            if ctx.out_of_time():
                break
        if i % 3 == 0 and not spec.get('stream') == 'shared':
            check_fixed(ctx, rep, spec, i)
        if ctx.out_of_time():
            break
    rep.notes.append('problems generated: %d' % (i + 1))


def replay(ctx, rep, payload):
    check(ctx, rep, payload['input']['spec'], payload['input']['enc'])
    check_fixed(ctx, rep, payload['input']['spec'], 0)


def replay_finding(ctx, f):
    from ..core import Report
    rep = Report()
    check(ctx, rep, f['replay']['spec'], f['replay']['enc'])
    return any(d['kind'] in f.get('kinds', [f.get('kind')]) and
               all(d['cls'].get(k) == v for k, v in f.get('class', {}).items()) for d in rep.disagreements)
