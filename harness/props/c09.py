"""C09 Connection-set enumeration is exact.

Correspondence (function/class level on optimization/assign_enc/matrix.py):
  * count_src_to_target(n, caps) vs Adsg.boundedComp, exhaustive for n <= 6, |caps| <= 3, caps <= 3;
  * for connector settings over a fixed degree alphabet x existence patterns (absent nodes and degree-override
    lists) x exclusions: AggregateAssignmentMatrixGenerator.get_agg_matrix / iter_matrices as a set vs Adsg.enumSpec
    (the specification) and Adsg.enumLib (the model of the algorithm), no duplicates; validate_matrix on every matrix
    with cells <= limit+1 vs Adsg.validMatrix; count_matrices summed over iter_n_sources_targets vs Adsg.countAll and
    the length of the set; get_max_conn_mat vs Adsg.maxMat.
"""
import itertools

import numpy as np

from adsg_core.optimization.assign_enc.matrix import (Node, NodeExistence, NodeExistencePatterns, MatrixGenSettings,
                                                       AggregateAssignmentMatrixGenerator, count_src_to_target)

RULE = ('bounded-exhaustive: every pair (1 source, 1 target) over the degree alphabet {0..1, 1, 0..2, 1..2, 2, {0,2}, '
        '{1,3}, 0..3, 2..3, 3, 0..*, 1..*, 2..*} x repeated yes/no, a seeded sample of 1x2 / 2x1 / 2x2 / 2x3 / 3x3 settings with '
        'exclusions, each with the all-present pattern and 1-2 further existence patterns (absent nodes, override '
        'lists); a case is one (settings, pattern); non-trivial = the valid set has >= 2 matrices or the pattern has an '
        'override; distinct by content hash')
BUDGET = {'quick': 60, 'thorough': 900}
JOBS = {'quick': 4, 'thorough': 16}
ASSUMPTIONS = ['the per-pair limit (parallel-connection cap = max(2, largest finite degree of the effective nodes)) is '
               'an implementation-defined convention and is modelled as the code computes it',
               'max_src_conn_override / max_tgt_conn_override of NodeExistence are not modelled (unused by the graph '
               'processor)']
LEANCHECK_MODULES = ['Adsg.Model.Conn', 'Adsg.Props.C09']

ALPHA = [('list', [0, 1]), ('list', [1]), ('list', [0, 1, 2]), ('list', [1, 2]), ('list', [2]), ('list', [0, 2]),
         ('list', [1, 3]), ('min', 0), ('min', 1), ('min', 2), ('list', [1, 1]), ('list', [2, 0, 2]),
         # consecutive lists reaching 3: the per-pair limit must come from the degrees as declared, before a
         # consecutive list is rewritten to an open-ended node (seeded change C09-s1)
         ('list', [0, 1, 2, 3]), ('list', [2, 3]), ('list', [3])]
OVERRIDES = [[0], [1], [0, 1], [1, 2], [2], [0, 2], [2, 3], [1, 2, 3]]


def mk(spec):
    (kind, v), rep = spec
    if kind == 'list':
        return Node(list(v), repeated_allowed=rep)
    return Node(min_conn=v, repeated_allowed=rep)


def jnode(spec):
    """The model's degree list is the Node's `conns` attribute (what the constructor stored)."""
    nd = mk(spec)
    return {'deg': {'list': [int(c) for c in nd.conns]} if nd.conns is not None else {'min': int(nd.min_conns)}, 'rep': bool(nd.rep)}


def jexist(ns, nt, ex):
    return {'src': [ex['src'].get(i) for i in range(ns)], 'tgt': [ex['tgt'].get(j) for j in range(nt)]}


def mk_exist(ex):
    return NodeExistence(src_n_conn_override=dict(ex['src']) or None, tgt_n_conn_override=dict(ex['tgt']) or None)


def gen_existence(rng, ns, nt, p_list=.35):
    ex = {'src': {}, 'tgt': {}}
    for side, n in (('src', ns), ('tgt', nt)):
        for i in range(n):
            r = rng.random()
            if r < .25:
                ex[side][i] = [0]
            elif r < .25 + p_list * .5:
                ex[side][i] = list(rng.choice(OVERRIDES))
    return ex


def check_settings(ctx, rep, sspec, tspec, excluded, exists, parallel=None):
    drv = ctx.driver
    ns, nt = len(sspec), len(tspec)
    pats = [mk_exist(ex) for ex in exists]
    # identical patterns collapse
    uniq, uex = [], []
    for p, ex in zip(pats, exists):
        if p not in uniq:
            uniq.append(p)
            uex.append(ex)
    pats, exists = uniq, uex

    def mkset():
        return MatrixGenSettings([mk(s) for s in sspec], [mk(t) for t in tspec], excluded=list(excluded),
                                 existence=NodeExistencePatterns(list(pats)), max_conn_parallel=parallel)
    js = {'src': [jnode(s) for s in sspec], 'tgt': [jnode(t) for t in tspec], 'excluded': [list(e) for e in excluded],
          'parallel': parallel}
    base_inp = {'s': js}
    try:
        gen = AggregateAssignmentMatrixGenerator(mkset())
        agg = gen.get_agg_matrix(cache=False)
    except Exception as e:
        empties = [ex for ex in exists if any(v == [] for v in list(ex['src'].values()) + list(ex['tgt'].values()))]
        rep.disagree('enumeration-exc', dict(base_inp, e=[jexist(ns, nt, ex) for ex in exists]), {'exc': repr(e)[:300]},
                     {'empty_override': bool(empties)})
        return
    for p, ex in zip(pats, exists):
        je = jexist(ns, nt, ex)
        inp = dict(base_inp, e=je)
        has_ov = bool(ex['src'] or ex['tgt'])
        list_ov = any(v != [0] for v in list(ex['src'].values()) + list(ex['tgt'].values()))
        open_ov = any(ex['src'].get(i) not in (None, [0]) and sspec[i][0][0] == 'min' for i in range(ns)) or \
            any(ex['tgt'].get(j) not in (None, [0]) and tspec[j][0][0] == 'min' for j in range(nt))
        cls = {'override_list': list_ov, 'override_on_open_ended': open_ov, 'explicit_parallel': parallel is not None}
        got = [tuple(map(int, m.ravel())) for m in agg[p]]
        maxm = np.array(gen.get_max_conn_mat(p)).reshape(ns, nt)
        # matrices to validate: all with cells <= max+1 (bounded)
        cells = [range(int(maxm[i, j]) + 2) for i in range(ns) for j in range(nt)]
        total = 1
        for c in cells:
            total *= len(c)
        if total <= 3000:
            tests = [list(c) for c in itertools.product(*cells)]
        else:
            tests = [[ctx.rng.randrange(len(c)) for c in cells] for _ in range(1500)]
        tests_m = [[t[i * nt:(i + 1) * nt] for i in range(ns)] for t in tests]
        r = drv.ask('matrices', s=js, e=je, validate=tests_m)
        flat = lambda M: tuple(v for row in M for v in row)
        spec = [flat(M) for M in r['spec']]
        lib = [flat(M) for M in r['lib']]
        rep.count('pattern:' + ('override-list' if list_ov else ('absent' if has_ov else 'all-present')),
                  'nvalid:%s' % ('0' if not spec else ('1' if len(spec) == 1 else ('2-9' if len(spec) < 10 else '10+'))))
        nontrivial = len(spec) >= 2 or has_ov
        rep.case(inp, nontrivial=nontrivial, sample=inp if nontrivial and len(spec) >= 2 else None)
        if [list(map(int, row)) for row in maxm] != r['max']:
            rep.disagree('max-conn-matrix', inp, {'impl': maxm.tolist(), 'model': r['max']}, cls)
            continue
        if len(set(got)) != len(got):
            rep.disagree('duplicate-matrices', inp, {'n': len(got), 'distinct': len(set(got))}, cls)
        if len(set(lib)) != len(lib) or set(lib) != set(spec):
            rep.disagree('model-enumLib-vs-enumSpec', inp, {'lib_only': sorted(set(lib) - set(spec))[:3],
                                                          'spec_only': sorted(set(spec) - set(lib))[:3]}, cls)
        if set(got) != set(spec):
            rep.disagree('enumeration-set', inp, {'impl_only': sorted(set(got) - set(spec))[:3],
                                                  'model_only': sorted(set(spec) - set(got))[:3],
                                                  'n_impl': len(got), 'n_model': len(spec)}, cls)
        # validate
        for t, tm, mv in zip(tests, tests_m, r['validate']):
            try:
                v = bool(gen.validate_matrix(np.array(tm, dtype=int).reshape(ns, nt), existence=p))
            except Exception as e:
                rep.disagree('validate-exc', dict(inp, M=tm), {'exc': repr(e)[:200]}, cls)
                break
            if v != mv:
                rep.disagree('validate-matrix', dict(inp, M=tm), {'impl': v, 'model': mv, 'in_enumeration': tuple(t) in set(got)}, cls)
                break
        # count without generating
        try:
            cnt = sum(gen.count_matrices(a, b_, e_) for a, b_, e_ in gen.iter_n_sources_targets(existence=p, cache=False))
            if cnt != len(spec) or cnt != r['count']:
                rep.disagree('count', inp, {'impl': int(cnt), 'model_count': r['count'], 'n_valid': len(spec)}, cls)
        except Exception as e:
            rep.disagree('count-exc', inp, {'exc': repr(e)[:200]}, cls)
        # iter_matrices
        try:
            it = [tuple(map(int, np.array(m).ravel())) for m, _ in gen.iter_matrices(existence=p)]
            if sorted(it) != sorted(got):
                rep.disagree('iter-matrices', inp, {'n_iter': len(it), 'n_agg': len(got)}, cls)
        except Exception as e:
            rep.disagree('iter-exc', inp, {'exc': repr(e)[:200]}, cls)


def check_bounded_comp(ctx, rep):
    drv = ctx.driver
    for k in range(1, 4):
        for caps in itertools.product(range(0, 4), repeat=k):
            for n in range(0, 7):
                if sum(caps) == 0 and k > 0:
                    continue   # np.empty with zero slots: degenerate call the library never makes with n > 0
                got = sorted(tuple(map(int, row)) for row in count_src_to_target(n, tuple(caps)))
                exp = sorted(tuple(r) for r in drv.ask('bounded_comp', n=n, caps=list(caps)))
                rep.case({'fn': 'count_src_to_target', 'n': n, 'caps': caps}, nontrivial=len(exp) >= 2)
                if got != exp:
                    rep.disagree('count-src-to-target', {'n': n, 'caps': list(caps)}, {'impl': got[:5], 'model': exp[:5]})


def run(ctx, rep):
    rng = ctx.rng
    if ctx.shard == 0:
        check_bounded_comp(ctx, rep)
    # exhaustive 1x1
    k = 0
    for a in ALPHA:
        for b in ALPHA:
            for ra in (False, True):
                for rb in (False, True):
                    k += 1
                    if not ctx.mine(k):
                        continue
                    exists = [{'src': {}, 'tgt': {}}, gen_existence(rng, 1, 1)]
                    check_settings(ctx, rep, [(a, ra)], [(b, rb)], [], exists)
    n = ctx.pick(260, 12000)
    i = 0
    for i in range(n):
        ns, nt = rng.choice([(1, 2), (2, 1), (2, 2), (2, 2), (2, 3), (3, 2), (1, 3), (3, 3)] if not ctx.quick else
                            [(1, 2), (2, 1), (2, 2), (2, 2), (2, 3), (1, 3)])
        sspec = [(rng.choice(ALPHA), rng.random() < .5) for _ in range(ns)]
        tspec = [(rng.choice(ALPHA), rng.random() < .5) for _ in range(nt)]
        excluded = [(a, b) for a in range(ns) for b in range(nt) if rng.random() < .12]
        exists = [{'src': {}, 'tgt': {}}] + [gen_existence(rng, ns, nt) for _ in range(rng.randint(1, 2))]
        parallel = rng.choice([None] * 8 + [1, 3])
        if not ctx.mine(i):
            continue
        check_settings(ctx, rep, sspec, tspec, excluded, exists, parallel)
        if ctx.out_of_time():
            break
    rep.notes.append('random settings generated: %d' % (i + 1))


def from_json(inp):
    def un(nd):
        d = nd['deg']
        return (('list', d['list']) if 'list' in d else ('min', d['min']), nd['rep'])
    s = inp['s']
    sspec = [un(x) for x in s['src']]
    tspec = [un(x) for x in s['tgt']]
    es = inp['e'] if isinstance(inp['e'], list) else [inp['e']]
    exists = [{'src': {i: v for i, v in enumerate(e['src']) if v is not None},
               'tgt': {i: v for i, v in enumerate(e['tgt']) if v is not None}} for e in es]
    return sspec, tspec, [tuple(e) for e in s['excluded']], exists, s.get('parallel')


def replay(ctx, rep, payload):
    sspec, tspec, excluded, exists, parallel = from_json(payload['input'])
    check_settings(ctx, rep, sspec, tspec, excluded, exists, parallel)


def replay_finding(ctx, f):
    from ..core import Report
    rep = Report()
    sspec, tspec, excluded, exists, parallel = from_json(f['replay'])
    check_settings(ctx, rep, sspec, tspec, excluded, exists, parallel)
    return any(d['kind'] in f.get('kinds', [f.get('kind')]) for d in rep.disagreements)
