"""C06 Incompatibility constraints are enforced and never over-prune.

Correspondence: the same exhaustive walk as C02 on graphs with 0-3 incompatibility constraints placed on start,
option, derived and shared nodes; at every state the offered option set of every active choice must satisfy
Adsg.viable <= offered <= declared; a state/graph reported infeasible must have no admissible completion; every leaf
reported feasible must be conflict-free and one of Adsg.allRows.
"""
from .. import gen
from . import c02

KINDS = {'api-exc', 'over-pruned', 'offered-undeclared', 'infeasible-state-but-completable', 'conflict-in-feasible-instance',
         'infeasible-graph-but-admissible-exists', 'feasible-leaf-not-admissible', 'reachable-set-missing',
         'no-option-but-feasible'}
RULE = ('as C02 but every generated graph carries 1-3 incompatibility constraints (placed on start / option / derived '
        '/ shared nodes); a case is one state of the resolution tree; non-trivial = some assignment of the graph is '
        'inadmissible; distinct by (graph, pick set)')
BUDGET = {'quick': 60, 'thorough': 900}
JOBS = {'quick': 4, 'thorough': 16}
ASSUMPTIONS = c02.ASSUMPTIONS
LEANCHECK_MODULES = ['Adsg.Model.Graph', 'Adsg.Model.Steps', 'Adsg.Props.C06']


def add_incompat(rng, spec):
    spec = dict(spec)
    n = spec['n']
    if n < 2:
        return spec
    inc = [list(e) for e in spec.get('incompat', [])]
    opts = [o for c in spec['sel'] for o in c['opts']]
    while len(inc) < 1 or (len(inc) < 3 and rng.random() < .4):
        r = rng.random()
        a = rng.choice(opts) if (opts and r < .5) else rng.randrange(n)
        b = rng.choice(spec['start']) if r > .85 else rng.randrange(n)
        if a != b:
            inc.append([a, b])
    spec['incompat'] = inc
    return spec


def check_graph(ctx, rep, spec, stream):
    from ..explore import Walk
    if not spec['sel']:
        return
    w = Walk(ctx, rep, spec, KINDS, ctx.pick(400, 5000), cls=c02.stream_cls(spec, stream)).run()
    if w is None:
        return
    n_assign = 1
    for c in spec['sel']:
        n_assign *= max(len(c['opts']), 1)
    rows = getattr(w, 'model_rows', {})
    rep.count('stream:' + stream, 'archs:%d' % min(len(rows), 6))
    rep.case({'spec': spec}, nontrivial=True, n=max(w.n_states, 1),
             sample={'spec': spec, 'states': w.n_states, 'archs': len(rows)} if len(rows) >= 1 else None)


def run(ctx, rep):
    n = ctx.pick(1500, 30000)
    weights = [s for s, k in c02.STREAMS for _ in range(k)]
    i = 0
    for i in range(n):
        stream = ctx.rng.choice(weights)
        spec = add_incompat(ctx.rng, c02.gen_overlap(ctx.rng) if stream == 'overlap' else c02.gen_spec(ctx.rng, stream))
        if ctx.rng.random() < .5:
            spec['choices_first'] = True     # selection choices declared before the derivation edges
        if not ctx.mine(i):
            continue
        check_graph(ctx, rep, spec, stream)
        if ctx.out_of_time():
            break
    rep.notes.append('graphs generated: %d' % (i + 1))


def replay(ctx, rep, payload):
    check_graph(ctx, rep, payload['input']['spec'], payload.get('cls', {}).get('stream', 'replay'))


def replay_finding(ctx, f):
    from ..core import Report
    rep = Report()
    check_graph(ctx, rep, f['replay']['spec'], f.get('class', {}).get('stream', 'replay'))
    return any(d['kind'] in f.get('kinds', [f.get('kind')]) for d in rep.disagreements)
