"""C18 Identity, equality and serialization of graphs are structural and stable.

Correspondence: generated DSGs (selection choices, constraints, DV / metric nodes, connection choices):
  * copy == original with equal hash; every single structural edit on either side of a copy (add / remove node, add /
    remove edge, change start nodes, add a choice constraint) makes them unequal - compared with the canonical form
    Adsg.canon of the model (driver op `canon_eq`);
  * pickle round trip of graph and processor: is_same / equal fingerprints, same des_vars and same decode table;
  * a second interpreter with another PYTHONHASHSEED rebuilds the graph from the same spec: its des_vars and decode table
    are compared textually with this process, it receives this process's pickle and checks is_same;
  * GML and DOT exports parsed back: node and edge multisets vs the graph.
"""
import io
import itertools
import json
import os
import pickle
import re
import subprocess
import sys

import networkx as nx

from adsg_core.graph.adsg_nodes import NamedNode, SelectionChoiceNode
from adsg_core.graph.choice_constraints import ChoiceConstraintType
from adsg_core.graph.graph_edges import EdgeType

from .. import gen, proc

RULE = ('seeded problems (streams tame / tree / cons / dv / conn); per graph a copy plus 6-10 single structural edits on '
        'the copy or on the original; pickle round trips of graph and processor; for every 10th graph a second interpreter '
        'with another PYTHONHASHSEED; GML and DOT exports; a case is one (graph, edit) / (graph, round trip); non-trivial = '
        'the edit is effective (changes the canonical form); distinct by content hash')
BUDGET = {'quick': 90, 'thorough': 1200}
JOBS = {'quick': 4, 'thorough': 16}
ASSUMPTIONS = ["Python's hash() is treated as injective on the canonical tuples (a collision would make unequal graphs "
               'equal - exercised, not proved impossible); pickle, networkx writers and cross-process behaviour are '
               'exercised only']
LEANCHECK_MODULES = ['Adsg.Model.Identity', 'Adsg.Props.C18']


def canon(b, g):
    """Canonical structural form of a DSG in model terms (what Adsg.canon consumes)."""
    def nid(nd):
        if nd in b.idx:
            return ['n', b.idx[nd]]
        if nd in b.cidx:
            return ['c', b.cidx[nd]]
        for ki, cc in enumerate(getattr(b, 'conn_nodes', [])):
            if nd is cc:
                return ['k', ki]
        return ['x', str(nd)]
    nodes = sorted(json.dumps(nid(n)) for n in g.graph.nodes)
    edges = sorted(json.dumps([nid(u), nid(v), k]) for u, v, k in g.graph.edges(keys=True))
    start = sorted(json.dumps(nid(n)) for n in (g.derivation_start_nodes or []))
    return {'nodes': nodes, 'edges': edges, 'start': start, 'n_cons': len(g.get_choice_constraints())}


def edits(rng, b, g):
    """(name, function producing an edited copy, effective?)"""
    out = []
    nodes = [n for n in g.graph.nodes if n in b.idx]

    def add_node(x):
        x.add_node(NamedNode('EXTRA'))
        return x
    out.append(('add-node', add_node))

    def add_edge(x):
        u, v = rng.sample(nodes, 2) if len(nodes) >= 2 else (nodes[0], nodes[0])
        x.add_edge(u, NamedNode('EXTRA2'))
        return x
    out.append(('add-edge-new-node', add_edge))
    es = list(g.graph.edges(keys=True))
    if es:
        e = rng.choice(es)

        def rm_edge(x, e=e):
            x.graph.remove_edge(*e)
            return x
        out.append(('remove-edge', rm_edge))
    if len(nodes) >= 2:
        u, v = rng.sample(nodes, 2)
        if not g.graph.has_edge(u, v):
            def add_edge2(x, u=u, v=v):
                x.add_edge(u, v)
                return x
            out.append(('add-edge', add_edge2))
    leaf = [n for n in nodes if n not in (g.derivation_start_nodes or [])]
    if leaf:
        nd = rng.choice(leaf)

        def rm_node(x, nd=nd):
            x.graph.remove_node(nd)
            return x
        out.append(('remove-node', rm_node))
    return out


def decode_table(P, gp, limit=40):
    xs, _ = proc.vectors(P.ctx.rng.__class__(7), gp.des_vars, limit)
    tab = []
    for x in xs:
        try:
            inst, xi, act = gp.get_graph(list(x))
            c = P.canon(inst)
            tab.append([[float(v) for v in xi], [bool(a) for a in act], list(c['row']), list(c['nodes']),
                        [list(m) if m else m for m in c['mats']]])
        except Exception as e:
            tab.append(['exc', type(e).__name__])
    return {'des_vars': [str(d) for d in gp.des_vars], 'table': tab}


CHILD = r'''
import sys, json, os, pickle, base64
sys.path.insert(0, %(verif)r)
from harness import core, proc
from harness.props import c18
case = json.loads(sys.stdin.read())
ctx = core.Ctx('C18', 'quick', 0)
P = proc.Problem(ctx, case['spec'])
other = pickle.loads(base64.b64decode(case['pickle']))
out = {'is_same': bool(P.dsg.is_same(other)), 'is_same_rev': bool(other.is_same(P.dsg)),
       'table': c18.decode_table(P, P.processor('COMPLETE'))}
print(json.dumps(out))
'''


def check_graph(ctx, rep, spec, i_graph):
    drv = ctx.driver
    try:
        P = proc.Problem(ctx, spec)
    except Exception as e:
        rep.count('build-exc:' + type(e).__name__)
        return
    b, g = P.b, P.dsg
    cls = proc.cls_of(spec)
    inp = {'spec': spec}
    c0 = canon(b, g)
    # copy
    cp = g.copy()
    rep.case(dict(inp, op='copy'), nontrivial=True)
    if not (cp == g) or hash(cp) != hash(g) or canon(b, cp) != c0:
        rep.disagree('copy-not-equal', inp, {'eq': cp == g, 'hash_eq': hash(cp) == hash(g)}, cls)
    if not g.is_same(cp) or g.fingerprint() != cp.fingerprint():
        rep.disagree('copy-not-same-fingerprint', inp, {}, cls)
    # single edits on either side
    for name, fn in edits(ctx.rng, b, g):
        for side in ('copy', 'original'):
            a, c = g.copy(), g.copy()
            try:
                edited = fn(a if side == 'copy' else c)
            except Exception as e:
                rep.count('edit-exc:' + name)
                continue
            ca, cc_ = canon(b, a), canon(b, c)
            model_eq = drv.ask('canon_eq', a=ca, b=cc_)
            rep.case(dict(inp, op=name, side=side), nontrivial=not model_eq)
            rep.count('edit:' + name)
            impl_eq = (a == c)
            if impl_eq != model_eq or (hash(a) == hash(c)) != model_eq:
                rep.disagree('equality-after-edit', dict(inp, op=name, side=side),
                             {'impl_eq': impl_eq, 'hash_eq': hash(a) == hash(c), 'model_eq': model_eq}, dict(cls, edit=name))
    # start nodes / constraint edits
    a = g.copy()
    others = [n for n in a.graph.nodes if n in b.idx and n not in (a.derivation_start_nodes or [])]
    if others:
        try:
            a2 = a.set_start_nodes(set(a.derivation_start_nodes) | {ctx.rng.choice(others)}, initialize_choices=False)
            model_eq = drv.ask('canon_eq', a=canon(b, a2), b=canon(b, g))
            rep.case(dict(inp, op='start-nodes'), nontrivial=not model_eq)
            if (a2 == g) != model_eq:
                rep.disagree('equality-after-edit', dict(inp, op='start-nodes'), {'impl_eq': a2 == g, 'model_eq': model_eq}, dict(cls, edit='start-nodes'))
        except Exception:
            rep.count('edit-exc:start-nodes')
    sel = [c for c in g.choice_nodes if isinstance(c, SelectionChoiceNode) and g.is_constrained_choice(c) is None]
    if len(sel) >= 2:
        a = g.copy()
        try:
            a2 = a.constrain_choices(ChoiceConstraintType.PERMUTATION, sel[:2], remove_infeasible_choices=False)
            rep.case(dict(inp, op='add-constraint'), nontrivial=True)
            if a2 == g or hash(a2) == hash(g):
                rep.disagree('equality-after-edit', dict(inp, op='add-constraint'), {'impl_eq': True, 'model_eq': False}, dict(cls, edit='add-constraint'))
        except Exception:
            rep.count('edit-exc:add-constraint')
        # a second constraint added to one side of a copy of a graph that ALREADY holds one (the constraint list of a
        # copy must be its own): both sides must keep their own number of constraints and compare unequal
        try:
            a1 = g.copy().constrain_choices(ChoiceConstraintType.LINKED, sel[:1], remove_infeasible_choices=False)
            n1 = len(a1.get_choice_constraints())
            b1 = a1.copy()
            b2 = b1.constrain_choices(ChoiceConstraintType.LINKED, sel[1:2], remove_infeasible_choices=False)
            rep.case(dict(inp, op='add-second-constraint'), nontrivial=True)
            if b2 == a1 or hash(b2) == hash(a1) or len(a1.get_choice_constraints()) != n1 or \
                    len(b2.get_choice_constraints()) != n1 + 1:
                rep.disagree('equality-after-edit', dict(inp, op='add-second-constraint'),
                             {'impl_eq': b2 == a1, 'model_eq': False, 'n_cons_unedited_side': [n1, len(a1.get_choice_constraints())]},
                             dict(cls, edit='add-second-constraint'))
        except Exception:
            rep.count('edit-exc:add-second-constraint')
    # pickle round trip
    try:
        g2 = pickle.loads(pickle.dumps(g))
        rep.case(dict(inp, op='pickle'), nontrivial=True)
        if not g.is_same(g2) or not g2.is_same(g) or g.fingerprint() != g2.fingerprint():
            rep.disagree('pickle-not-same', inp, {}, cls)
        if canon_names(g) != canon_names(g2):
            rep.disagree('pickle-changes-structure', inp, {}, cls)
    except Exception as e:
        rep.disagree('pickle-exc', inp, {'exc': repr(e)[:200]}, cls)
        g2 = None
    if g.feasible:
        try:
            gp = P.processor('COMPLETE')
            t1 = decode_table(P, gp)
            gp2 = pickle.loads(pickle.dumps(gp))
            P2 = P
            t2 = decode_table(P2, gp2)
            rep.case(dict(inp, op='pickle-processor'), nontrivial=True)
            if t1['des_vars'] != t2['des_vars'] or [r[:2] for r in t1['table']] != [r[:2] for r in t2['table']]:
                rep.disagree('pickled-processor-differs', inp, {'a': str(t1)[:200], 'b': str(t2)[:200]}, cls)
        except Exception as e:
            rep.count('processor-exc:' + type(e).__name__)
            t1 = None
        if t1 is not None and i_graph % 10 == 0:
            import base64
            env = dict(os.environ)
            env['PYTHONHASHSEED'] = str(ctx.rng.randint(1, 100000))
            env['NUMBA_NUM_THREADS'] = '1'
            verif = os.path.dirname(os.path.dirname(os.path.dirname(os.path.abspath(__file__))))
            try:
                out = subprocess.run([sys.executable, '-c', CHILD % {'verif': verif}],
                                     input=json.dumps({'spec': spec, 'pickle': base64.b64encode(pickle.dumps(g)).decode()}),
                                     capture_output=True, text=True, env=env, timeout=300)
                res = json.loads(out.stdout.strip().split('\n')[-1])
                rep.case(dict(inp, op='other-process'), nontrivial=True)
                rep.count('other-process')
                if not res['is_same'] or not res['is_same_rev']:
                    rep.disagree('other-process-not-same', inp, {'is_same': res['is_same'], 'rev': res['is_same_rev']}, cls)
                if json.loads(json.dumps(t1)) != res['table']:
                    rep.disagree('other-process-differs', inp, {'mine': str(t1)[:300], 'other': str(res['table'])[:300]}, cls)
            except Exception as e:
                rep.disagree('other-process-failed', inp, {'exc': repr(e)[:200]}, cls)
    # exports
    n_nodes = len(g.graph.nodes)
    pairs = sorted({(str(u), str(v)) for u, v in g.graph.edges()})
    try:
        gml = g.export_gml()
        parsed = nx.parse_gml(gml)
        rep.case(dict(inp, op='gml'), nontrivial=True)
        if len(parsed.nodes) != n_nodes or len(parsed.edges) != len(g.graph.edges):
            rep.disagree('gml-export-incomplete', inp, {'nodes': [len(parsed.nodes), n_nodes], 'edges': [len(parsed.edges), len(g.graph.edges)]}, cls)
    except Exception as e:
        rep.disagree('gml-export-exc', inp, {'exc': repr(e)[:200]}, dict(cls, duplicate_names=len({str(n) for n in g.graph.nodes}) != n_nodes))
    try:
        dot = g.export_dot()
        rep.case(dict(inp, op='dot'), nontrivial=True)
        n_dot_nodes = len(re.findall(r'^\s*\d+\s*\[', dot, re.M))
        dot_pairs = {frozenset(m) for m in re.findall(r'^\s*(\d+)\s*->\s*(\d+)', dot, re.M)}
        isolated = [n for n in g.graph.nodes if g.graph.degree(n) == 0]
        # DOT is a simple digraph: it can show one edge per node pair; every connected pair of the graph must appear
        graph_pairs = {frozenset((u, v)) for u, v in g.graph.edges()}
        n_cons_pairs = sum(len(cc_.nodes) * (len(cc_.nodes) - 1) // 2 for cc_ in g.get_choice_constraints())
        if n_dot_nodes != n_nodes or not (len(graph_pairs) <= len(dot_pairs) <= len(graph_pairs) + n_cons_pairs):
            rep.disagree('dot-export-incomplete', inp, {'nodes': [n_dot_nodes, n_nodes], 'pairs': [len(dot_pairs), len(graph_pairs)]},
                         dict(cls, has_isolated_node=bool(isolated)))
    except Exception as e:
        rep.disagree('dot-export-exc', inp, {'exc': repr(e)[:200]}, cls)


def canon_names(g):
    return (sorted(n.str_context() for n in g.graph.nodes),
            sorted((u.str_context(), v.str_context(), k) for u, v, k in g.graph.edges(keys=True)))


def run(ctx, rep):
    n = ctx.pick(200, 5000)
    i = 0
    for i in range(n):
        spec = proc.gen_problem(ctx.rng, streams=('tame', 'tree', 'cons', 'dv', 'conn'))
        if ctx.rng.random() < .3:
            spec = gen.attach_metrics(ctx.rng, spec, 1, 2)
        if not ctx.mine(i):
            continue
        try:
            check_graph(ctx, rep, spec, i)
        except Exception as e:
            import traceback
            rep.disagree('harness-exc', {'spec': spec}, {'exc': repr(e)[:200], 'tb': traceback.format_exc(limit=5)[-700:]})
        if ctx.out_of_time():
            break
    rep.notes.append('graphs generated: %d' % (i + 1))


def replay(ctx, rep, payload):
    check_graph(ctx, rep, payload['input']['spec'], 0)


def replay_finding(ctx, f):
    from ..core import Report
    rep = Report()
    check_graph(ctx, rep, f['replay']['spec'], 0)
    return any(d['kind'] in f.get('kinds', [f.get('kind')]) for d in rep.disagreements)
