"""C19 The time limiter returns, raises or times out - and leaves nothing running.

Correspondence: the real run_timeout is called with instrumented functions whose duration sweeps across the limit
(incl. exactly at it), that raise, that swallow the injected interrupt once, that block in native code (time.sleep),
nested and back-to-back, repeated to vary scheduling; workers that outlive the deadline by whole seconds. Each call yields an event trace (f_start, f_end_ok / f_end_err /
f_killed, outcome) ordered by a monotonic clock; the driver decides whether it is a trace of the protocol model
(op `tl_accepts`, Adsg.TL.obsAccepts). Additionally: an f that finished well within the limit must be returned / re-raised,
a timeout may only be reported after the limit, KeyboardInterrupt must never surface in the caller, after the call no
thread is still inside f (checked again after a grace period) and later calls are unaffected.
"""
import threading
import time

from adsg_core.optimization.assign_enc.time_limiter import run_timeout

RULE = ('behaviours {finish, raise ValueError, raise builtin TimeoutError, swallow the interrupt once, block in '
        'time.sleep, numpy busy loop} x durations {0, 0.3, 0.8, 0.95, 1.0, 1.05, 1.3, 3} x limit in {0.04, 0.08} s, '
        'repeated; swallow / sleep outliving the deadline by 1.5 and 3.2 s (thorough: up to 13 s); plus nested and back-to-back calls; a case is one call; non-trivial = duration within 20% of the limit, '
        'or the function swallows / blocks / is nested; distinct by (behaviour, relative duration, repetition)')
BUDGET = {'quick': 70, 'thorough': 900}
JOBS = {'quick': 2, 'thorough': 16}
ASSUMPTIONS = ['CPython delivery of asynchronous exceptions, GIL scheduling and thread-id reuse are outside the model; the '
               'traces actually observed are checked to be traces of the protocol model',
               'timing classification uses a slack of 35% of the limit around the deadline (both outcomes accepted there)']
LEANCHECK_MODULES = ['Adsg.Model.TimeLimiter', 'Adsg.Props.C19']


class Probe:
    def __init__(self):
        self.events = []
        self.in_f = 0
        self.beats = 0
        self.lock = threading.Lock()

    def ev(self, name):
        with self.lock:
            self.events.append((time.monotonic(), name))


def make_f(kind, dur, probe):
    def busy(until):
        while time.monotonic() < until:
            probe.beats += 1

    def f():
        probe.ev('f_start')
        probe.in_f += 1
        how = 'f_killed'
        try:
            end = time.monotonic() + dur
            if kind == 'finish':
                busy(end)
                how = 'f_end_ok'
                return 'value'
            if kind == 'raise':
                busy(end)
                how = 'f_end_err'
                raise ValueError('own error')
            if kind == 'raise-timeout':
                busy(end)
                how = 'f_end_err'
                raise TimeoutError('own timeout', 42)
            if kind == 'sleep':
                time.sleep(dur)
                how = 'f_end_ok'
                return 'value'
            if kind == 'swallow':
                try:
                    busy(end)
                except BaseException:     # swallow the interrupt once, then finish the work
                    busy(end)
                how = 'f_end_ok'
                return 'value'
            if kind == 'numpy':
                import numpy as np
                a = np.ones((60, 60))
                while time.monotonic() < end:
                    a = a @ a / 60.
                how = 'f_end_ok'
                return 'value'
        finally:
            probe.in_f -= 1
            probe.ev(how)
    return f


def one_call(ctx, rep, drv_batch, kind, rel, limit, rep_i, nested=False):
    probe = Probe()
    dur = rel * limit
    f = make_f(kind, dur, probe)
    t0 = time.monotonic()
    outcome, val = None, None
    ki = False
    try:
        try:
            if nested:
                val = run_timeout(limit * 4, lambda: run_timeout(limit, f))
            else:
                val = run_timeout(limit, f)
            outcome = 'ret'
        except TimeoutError as e:
            outcome = 'timeout'
            val = e
        except ValueError as e:
            outcome = 'raise'
            val = e
    except KeyboardInterrupt:
        ki = True
        outcome = 'keyboard-interrupt'
    t1 = time.monotonic()
    probe.ev(outcome)
    in_f_at_return = probe.in_f
    beats = probe.beats
    inp = {'kind': kind, 'rel': rel, 'limit': limit, 'rep': rep_i, 'nested': nested}
    cls = {'kind': kind, 'nested': nested}
    nontrivial = abs(rel - 1) <= .2 or kind in ('swallow', 'sleep', 'numpy', 'raise-timeout') or nested
    rep.case(inp, nontrivial=nontrivial, sample=dict(inp, outcome=outcome, events=[e for _, e in probe.events]) if nontrivial and rep_i == 0 else None)
    rep.count('outcome:%s' % outcome, 'kind:' + kind)
    if ki:
        rep.disagree('keyboard-interrupt-in-caller', inp, {}, cls)
        return
    events = [e for _, e in sorted(probe.events)]
    drv_batch.append((inp, cls, events))
    if in_f_at_return != 0:
        rep.disagree('worker-still-in-f-at-return', inp, {'in_f': in_f_at_return, 'elapsed': t1 - t0}, cls)
    # timing: clearly in time must be delivered, clearly late must time out (unless f ends by itself: late but safe)
    slack = .35
    f_end = [t for t, e in probe.events if e in ('f_end_ok', 'f_end_err')]
    if kind in ('finish', 'raise', 'numpy') and rel <= 1 - slack and outcome == 'timeout':
        rep.disagree('timeout-although-finished-in-time', inp, {'elapsed': t1 - t0}, cls)
    if kind == 'raise-timeout' and rel <= 1 - slack:
        # the function's own TimeoutError must be re-raised as it is
        if not (outcome == 'timeout' and getattr(val, 'args', ()) == ('own timeout', 42)):
            rep.disagree('own-exception-not-reraised', inp, {'outcome': outcome, 'args': repr(getattr(val, 'args', None))}, cls)
    if outcome == 'timeout' and kind != 'raise-timeout' and (t1 - t0) < limit * .95:
        rep.disagree('timeout-before-limit', inp, {'elapsed': t1 - t0}, cls)
    if outcome in ('ret', 'raise') and kind in ('finish', 'raise') and rel >= 1 + slack + .6:
        rep.disagree('result-delivered-long-after-limit', inp, {'elapsed': t1 - t0}, cls)
    if outcome == 'ret' and val != 'value':
        rep.disagree('wrong-value', inp, {'val': repr(val)}, cls)
    if outcome == 'raise' and 'own error' not in str(val):
        rep.disagree('wrong-exception', inp, {'val': repr(val)}, cls)
    # nothing keeps running f after the call returned
    time.sleep(min(0.02, limit / 2))
    if probe.in_f != 0 or probe.beats != beats:
        rep.disagree('f-continues-after-return', inp, {'in_f': probe.in_f, 'beats_delta': probe.beats - beats}, cls)
    # a later call is unaffected
    try:
        if run_timeout(1., lambda: 7) != 7:
            rep.disagree('later-call-affected', inp, {}, cls)
    except BaseException as e:
        rep.disagree('later-call-affected', inp, {'exc': repr(e)}, cls)


def run(ctx, rep):
    drv = ctx.driver
    kinds = ['finish', 'raise', 'raise-timeout', 'swallow', 'sleep', 'numpy']
    rels = [0., .3, .8, .95, 1., 1.05, 1.3, 3.]
    batch = []
    i = 0
    reps = ctx.pick(3, 40)
    for rep_i in range(reps):
        for limit in (0.04, 0.08):
            for kind in kinds:
                for rel in rels:
                    i += 1
                    if not ctx.mine(i):
                        continue
                    # (for 'swallow' / 'sleep' beyond the limit the join blocks until f ends by itself: the call takes
                    # rel x limit, and the caller must not get control back earlier)
                    one_call(ctx, rep, batch, kind, rel, limit, rep_i)
                    if ctx.out_of_time():
                        break
            if rep_i == 0:
                # a worker that outlives the deadline by seconds (interrupt swallowed once / blocked in native code): the
                # caller must not get control back before the worker has left f - catches a join that gives up after a while
                for over in ctx.pick([1.5, 3.2], [1.5, 3.2, 6.5, 13.]):
                    for kind in ('swallow', 'sleep'):
                        i += 1
                        if ctx.mine(i):
                            one_call(ctx, rep, batch, kind, over / limit, limit, rep_i)
            one_call(ctx, rep, batch, 'finish', 2., limit, rep_i, nested=True)
            one_call(ctx, rep, batch, 'finish', .3, limit, rep_i, nested=True)
        if ctx.out_of_time():
            break
    # protocol-trace acceptance by the Lean model
    for k in range(0, len(batch), 200):
        part = batch[k:k + 200]
        res = drv.ask('tl_accepts', traces=[ev for _, _, ev in part])
        for (inp, cls, ev), ok in zip(part, res):
            if not ok:
                rep.disagree('trace-not-a-protocol-trace', dict(inp, events=ev), {}, cls)
    alive = [t.name for t in threading.enumerate() if t is not threading.main_thread() and t.is_alive() and not t.daemon]
    if alive:
        rep.disagree('threads-left-alive', {'threads': alive[:5]}, {'n': len(alive)})
    rep.notes.append('calls: %d' % len(batch))


def replay(ctx, rep, payload):
    inp = payload['input']
    batch = []
    for r in range(20):
        one_call(ctx, rep, batch, inp['kind'], inp['rel'], inp['limit'], r, nested=inp.get('nested', False))


def replay_finding(ctx, f):
    from ..core import Report
    rep = Report()
    inp = f['replay']
    batch = []
    for r in range(5):
        one_call(ctx, rep, batch, inp['kind'], inp['rel'], inp['limit'], r, nested=inp.get('nested', False))
    return any(d['kind'] in f.get('kinds', [f.get('kind')]) for d in rep.disagreements)
