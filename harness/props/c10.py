"""C10 Every connection encoder is a faithful, total and onto coding of connection sets.

Correspondence: every factory of the encoder registry (eager, lazy, enumerating, pattern) x default and alternative
imputers x generated connector settings with existence patterns: AssignmentManager/LazyAssignmentManager.get_matrix /
get_conn_idx / get_all_design_vectors / design_vars on the full declared space (or samples) plus out-of-range and
too-long vectors against (a) the valid sets computed by the Lean model (Adsg.enumSpec), (b) for eager encoders the
Lean model of the manager layer (Adsg.managerGet) run on the table extracted from the real encoder, whose
well-formedness (Adsg.Table.WF) the driver evaluates.
"""
import contextlib
import signal
import time

from .. import encmgr
from . import c09

RULE = ('pattern-family sweep: all sources k..*, all targets m..* for k in 0..2, m in 0..1, repeat flag, sizes 1x3 / 2x2 / 2x3 x pattern and enumerating encoders; size sweep: 1 source with exactly one connection onto k optional targets (exactly k valid matrices) for every '
        'k = 2..36 (quick) / 2..130 (thorough); seeded connector settings (1-3 sources x 1-4 targets over the C09 degree '
        'alphabet, exclusions, 1-3 existence patterns incl. absent nodes and override lists), every third setting uniform '
        '(all sources alike, all targets alike: the shapes of the pattern encoders) x every registered encoder factory x '
        '{default imputer, one alternative imputer}; per manager the full declared vector space when <= 250 vectors (else '
        '250 samples; 60 for lazy / pattern encoders on settings with more than 6 cells) + 4 out-of-range / too-long '
        'vectors per pattern; a case is one (settings, encoder, imputer, pattern); non-trivial = the pattern has >= 2 '
        'valid matrices; distinct by content hash')
BUDGET = {'quick': 100, 'thorough': 1500}
JOBS = {'quick': 8, 'thorough': 16}
ASSUMPTIONS = ['encoder-specific encode/decode algorithms are table producers validated per instance (Table.WF, matrices of '
               'the table = valid set), not proved; which row an imputer picks is an oracle constrained to "a row of the '
               'table"; lazy/pattern/enumerating encoders are checked behaviourally against the Lean-computed valid sets',
               'encoders that reject settings with InvalidPatternEncoder / DetectedHighImpRatio are skipped (documented protocol)']
LEANCHECK_MODULES = ['Adsg.Model.Enc', 'Adsg.Props.C10']


WATCHDOG_S = 240      # per manager; the slowest manager of the unchanged tree takes a few seconds (see evidence notes)
MAX_MGR_S = [0.]


class Hang(BaseException):
    pass


@contextlib.contextmanager
def watchdog(seconds):
    def on_alarm(signum, frame):
        raise Hang()
    old = signal.signal(signal.SIGALRM, on_alarm)
    signal.setitimer(signal.ITIMER_REAL, seconds)
    try:
        yield
    finally:
        signal.setitimer(signal.ITIMER_REAL, 0)
        signal.signal(signal.SIGALRM, old)


def gen_case(rng):
    ns, nt = rng.choice([(1, 1), (1, 2), (2, 1), (2, 2), (1, 3), (2, 2), (2, 3), (3, 2), (1, 4)])
    sspec = [(rng.choice(c09.ALPHA[:10]), rng.random() < .5) for _ in range(ns)]
    tspec = [(rng.choice(c09.ALPHA[:10]), rng.random() < .5) for _ in range(nt)]
    excluded = [(a, b) for a in range(ns) for b in range(nt) if rng.random() < .1]
    exists = [{'src': {}, 'tgt': {}}]
    for _ in range(rng.choice([0, 1, 1, 2])):
        exists.append(c09.gen_existence(rng, ns, nt, p_list=.3))
    return sspec, tspec, excluded, exists


def gen_uniform(rng):
    """All sources alike and all targets alike - the shapes the pattern encoders are made for (combining, assigning,
    partitioning, permuting, ...), which random per-node degrees almost never hit."""
    ns, nt = rng.choice([(1, 2), (1, 3), (1, 4), (2, 2), (2, 3), (3, 2)])
    open_ended = [('min', 0), ('min', 1), ('min', 2)]   # assigning / partitioning shapes: k..*
    s_ = (rng.choice(open_ended if rng.random() < .5 else c09.ALPHA[:10]), rng.random() < .5)
    t_ = (rng.choice(open_ended if rng.random() < .5 else c09.ALPHA[:10]), rng.random() < .5)
    exists = [{'src': {}, 'tgt': {}}]
    if rng.random() < .3:
        exists.append(c09.gen_existence(rng, ns, nt, p_list=0.))
    return [s_] * ns, [t_] * nt, [], exists


def check_case(ctx, rep, sspec, tspec, excluded, exists, facs=None, imputers='sample'):
    pats, uex = [], []
    for ex in exists:
        p = c09.mk_exist(ex)
        if p not in pats:
            pats.append(p)
            uex.append(ex)
    exists = uex
    mkset = encmgr.settings_factory(sspec, tspec, excluded, pats)
    ns, nt = len(sspec), len(tspec)
    inp = {'s': encmgr.jsettings(sspec, tspec, excluded), 'es': [c09.jexist(ns, nt, ex) for ex in exists]}
    for fac in (facs or encmgr.factories()):
        imps = [fac['default_imputer']]
        if imputers == 'sample':
            imps.append(ctx.rng.choice(fac['imputers']))
        elif imputers == 'all':
            imps += list(fac['imputers'])
        for impf in imps:
            imp_name = type(impf()).__name__
            cls = {'encoder': fac['name'], 'kind': fac['kind'], 'imputer': imp_name}
            t_mgr = time.time()
            try:
                with watchdog(WATCHDOG_S):
                    mgr = encmgr.make_manager(mkset, fac, impf)
            except Hang:
                rep.disagree('manager-hangs', inp, {'seconds': WATCHDOG_S, 'where': 'construction'}, cls)
                continue
            except Exception as e:
                rep.disagree('manager-ctor-exc', inp, {'exc': repr(e)[:300]}, cls)
                continue
            if mgr is None:
                rep.count('rejected:' + fac['name'])
                continue
            rep.count('mgr:' + fac['name'], 'imputer:' + imp_name)
            # decoding through a lazy / pattern encoder costs up to a second per vector on larger settings
            big = ns * nt > 6 and fac['kind'] in ('lazy', 'pattern')
            try:
                with watchdog(WATCHDOG_S):
                    encmgr.contract_check(ctx, rep, mgr, sspec, tspec, excluded, exists, pats,
                                          dict(inp, encoder=fac['name'], imputer=imp_name), cls, limit=60 if big else 250)
            except Hang:
                # a decode (or the listing of the design vectors) that does not come back is a failure of totality
                rep.disagree('manager-hangs', dict(inp, encoder=fac['name'], imputer=imp_name),
                             {'seconds': WATCHDOG_S, 'where': 'decode / listing'}, cls)
            MAX_MGR_S[0] = max(MAX_MGR_S[0], time.time() - t_mgr)
            if ctx.out_of_time():
                return


def sweep_case(k):
    """One source with exactly one connection onto k optional targets: exactly k valid matrices. Sweeping k exercises
    every count-dependent branch of the enumerating encoders (digits of k-1 in every base) and the one-variable ones."""
    return [(('list', [1]), False)], [(('list', [0, 1]), False)] * k, [], [{'src': {}, 'tgt': {}}]


def run(ctx, rep):
    # 1. size sweep (deterministic): number of valid matrices 2 .. K, enumerating / eager / lazy encoders
    kmax = ctx.pick(32, 130)
    small = [f for f in encmgr.factories() if f['kind'] == 'enum']
    for k in range(2, kmax + 1):
        if not ctx.mine(k):
            continue
        check_case(ctx, rep, *sweep_case(k), facs=small if k > 8 else None, imputers='default')
        rep.count('stream:size-sweep')
        if ctx.out_of_time():
            break
    # 2. pattern-family sweep (deterministic): all sources k..*, all targets m..*, uniform repeat flag - the settings the
    #    assigning / partitioning / combining pattern encoders are made for, for every small k, m and size
    fam = [(ks, kt, r, sz) for ks in (0, 1, 2) for kt in (0, 1) for r in (False, True) for sz in ((1, 3), (2, 2), (2, 3))][::1]
    pat = [f for f in encmgr.factories() if f['kind'] in ('pattern', 'enum')]
    for fi, (ks, kt, r, (ns_, nt_)) in enumerate(fam):
        if not ctx.mine(fi):
            continue
        check_case(ctx, rep, [(('min', ks), r)] * ns_, [(('min', kt), r)] * nt_, [], [{'src': {}, 'tgt': {}}], facs=pat,
                   imputers='default')
        rep.count('stream:pattern-family')
        if ctx.out_of_time():
            break
    # 3. seeded settings
    n = ctx.pick(90, 3000)
    i = 0
    for i in range(n):
        uniform = i % 3 == 2
        case = gen_uniform(ctx.rng) if uniform else gen_case(ctx.rng)
        if not ctx.mine(i):
            continue
        check_case(ctx, rep, *case)
        rep.count('stream:uniform' if uniform else 'stream:seeded')
        if ctx.out_of_time():
            break
    rep.notes.append('settings generated: %d; size sweep up to %d valid matrices; slowest manager %.1f s (watchdog %d s)'
                     % (i + 1, kmax, MAX_MGR_S[0], WATCHDOG_S))


def _from_inp(inp):
    sspec, tspec, excluded, exists, _ = c09.from_json({'s': inp['s'], 'e': inp.get('es') or [inp['e']]})
    return sspec, tspec, excluded, exists


def replay(ctx, rep, payload):
    inp = payload['input']
    sspec, tspec, excluded, exists = _from_inp(inp)
    facs = [f for f in encmgr.factories() if f['name'] == inp.get('encoder')] or None
    check_case(ctx, rep, sspec, tspec, excluded, exists, facs=facs, imputers='all')


def replay_finding(ctx, f):
    from ..core import Report
    rep = Report()
    inp = f['replay']
    sspec, tspec, excluded, exists = _from_inp(inp)
    facs = [x for x in encmgr.factories() if x['name'] == inp.get('encoder')] or None
    check_case(ctx, rep, sspec, tspec, excluded, exists, facs=facs, imputers='all')
    return any(d['kind'] in f.get('kinds', [f.get('kind')]) and
               all(d['cls'].get(k) == v for k, v in f.get('class', {}).items()) for d in rep.disagreements)
