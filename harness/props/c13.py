"""C13 Choice constraints admit exactly the documented index combinations.

Correspondence:
  (F) function level, bounded-exhaustive: get_constraint_removed_options, get_constraint_pre_removed_options,
      get_valid_idx_combinations vs Adsg.removedOptions / preRemoved / validIdxRow for all 4 types x 2-3 choices x
      1-4 options (equal and unequal counts) x every taken pair / every small index matrix incl. -1 x is_all_permanent;
  (G) graph level: DSGs with one constraint over 2-3 choices in placements {all permanent, chain hierarchy, mutually
      exclusive branches, mixed}: the step-by-step API (exhaustive walk) and GraphProcessor (both encoders) vs
      Adsg.allRows with `consOK`; selected options are read from the instance.
  (D) linked design-variable nodes: same option index / same relative position.
"""
import itertools

import numpy as np

from adsg_core.graph.choice_constraints import (ChoiceConstraint, ChoiceConstraintType, get_constraint_removed_options,
                                                get_constraint_pre_removed_options, get_valid_idx_combinations)
from adsg_core.graph.adsg_nodes import NamedNode, SelectionChoiceNode, DesignVariableNode
from adsg_core.graph.adsg_basic import BasicDSG
from adsg_core.optimization.graph_processor import GraphProcessor
from adsg_core.optimization.hierarchy import SelChoiceEncoderType

from .. import gen
from ..explore import Walk

RULE = ('function level: all 4 constraint types x option-count vectors in {1..4}^2 and {1..3}^3 x every (taken choice, '
        'chosen option); valid-index rows: all vectors over {-1,0,1,2} of length 1..3 (and a sample of length 4) x '
        'is_all_permanent; graph level: 4 types x 2-3 choices x 2-3 options x 4 placements (seeded); a case is one '
        'function call or one (graph, encoder); non-trivial = unequal option counts, a -1 entry, or a graph whose '
        'constraint removes at least one assignment; distinct by content hash')
BUDGET = {'quick': 70, 'thorough': 900}
JOBS = {'quick': 4, 'thorough': 16}
ASSUMPTIONS = ['options are identified with their position in the constraint\'s original option lists; after constraint '
               'pre-removal the processor re-indexes options - the comparison maps back through DesVar.options']
LEANCHECK_MODULES = ['Adsg.Model.Constraints', 'Adsg.Props.C13']
TYPES = ['linked', 'permutation', 'unordered', 'unordered_norepl']
WALK_KINDS = {'api-exc', 'confirmed-set', 'next-choices', 'leaf-nodes', 'order-dependence', 'reachable-set-missing',
              'reachable-set-extra', 'over-pruned', 'infeasible-state-but-completable',
              'infeasible-graph-but-admissible-exists', 'feasible-leaf-not-admissible', 'apply-exc'}


def check_functions(ctx, rep):
    drv = ctx.driver
    shapes = list(itertools.product(range(1, 5), repeat=2)) + list(itertools.product(range(1, 4), repeat=3))
    for ty in TYPES:
        cty = gen.CONS_TYPES[ty]
        for shape in shapes:
            nodes = [SelectionChoiceNode('c%d' % i) for i in range(len(shape))]
            opts = [[NamedNode('o%d_%d' % (i, j)) for j in range(n)] for i, n in enumerate(shape)]
            cc = ChoiceConstraint(cty, nodes, opts)
            pos = {o: (i, j) for i, row in enumerate(opts) for j, o in enumerate(row)}
            for it in range(len(shape)):
                for jc in range(shape[it]):
                    inp = {'fn': 'removed', 'ty': ty, 'n_opts': list(shape), 'i_taken': it, 'j_chosen': jc}
                    got = sorted((nodes.index(cn), sorted(pos[o][1] for o in rem))
                                 for cn, rem in get_constraint_removed_options(cc, it, jc))
                    exp = sorted((a, sorted(b)) for a, b in drv.ask('removed_opts', ty=ty, n_opts=list(shape), i_taken=it, j_chosen=jc))
                    rep.case(inp, nontrivial=len(set(shape)) > 1 or len(shape) == 3)
                    rep.count('fn:removed:' + ty)
                    if got != exp:
                        rep.disagree('removed-options', inp, {'impl': got, 'model': exp})
            for pflags in itertools.product((False, True), repeat=len(shape)):
                inp = {'fn': 'pre_removed', 'ty': ty, 'n_opts': list(shape), 'permanent': list(pflags)}
                perm = {nd for nd, f in zip(nodes, pflags) if f}
                got = sorted((nodes.index(cn), sorted(pos[o][1] for o in rem))
                             for cn, rem in get_constraint_pre_removed_options(cc, perm))
                exp = sorted((a, sorted(b)) for a, b in drv.ask('pre_removed', ty=ty, n_opts=list(shape), permanent=list(pflags)))
                rep.case(inp, nontrivial=True)
                rep.count('fn:pre_removed:' + ty)
                # the implementation lists choices with an empty removal list too; compare non-empty ones
                if [x for x in got if x[1]] != [x for x in exp if x[1]]:
                    rep.disagree('pre-removed-options', inp, {'impl': got, 'model': exp})
    vals = [-1, 0, 1, 2]
    for ncol in (1, 2, 3, 4):
        rows = list(itertools.product(vals, repeat=ncol))
        if ncol == 4:
            rows = ctx.rng.sample(rows, 120)
        for ty in TYPES:
            for ap in (False, True):
                arr = np.array(rows, dtype=int)
                got = sorted(int(i) for i in get_valid_idx_combinations(arr, gen.CONS_TYPES[ty], is_all_permanent=ap))
                jrows = [[None if v < 0 else v for v in r] for r in rows]
                exp = drv.ask('valid_idx', ty=ty, all_permanent=ap, rows=jrows)
                inp = {'fn': 'valid_idx', 'ty': ty, 'all_permanent': ap, 'ncol': ncol}
                rep.case(inp, nontrivial=ncol >= 2, n=len(rows))
                rep.count('fn:valid_idx:' + ty)
                if got != exp:
                    bad = sorted(set(got) ^ set(exp))[:3]
                    rep.disagree('valid-idx-combinations', dict(inp, rows=[list(rows[i]) for i in bad]),
                                 {'impl_only': [i for i in bad if i in got], 'model_only': [i for i in bad if i in exp]})


def gen_cons_spec(rng):
    k = rng.randint(2, 3)
    nc = rng.randint(2, 3)
    placement = rng.choice(['perm', 'hier', 'mutex', 'mixed'])
    n = [1]
    derives, sel, origins, optss = [], [], [], []

    def new():
        n[0] += 1
        return n[0] - 1
    if placement == 'perm':
        for _ in range(nc):
            o = new()
            derives.append([0, o])
            origins.append(o)
            optss.append([new() for _ in range(k)])
    elif placement == 'hier':
        o = new()
        derives.append([0, o])
        origins.append(o)
        for i in range(nc):
            opts = [new() for _ in range(k)]
            optss.append(opts)
            if i < nc - 1:
                o2 = new()
                derives.append([opts[rng.randrange(k)], o2])
                origins.append(o2)
    elif placement == 'mutex':
        top = [new() for _ in range(nc)]
        sel.append({'o': 0, 'opts': top})
        for i in range(nc):
            o = new()
            derives.append([top[i], o])
            origins.append(o)
            optss.append([new() for _ in range(k)])
    else:
        o = new()
        derives.append([0, o])
        origins.append(o)
        optss.append([new() for _ in range(k)])
        for i in range(1, nc):
            o2 = new()
            derives.append([rng.choice([0] + optss[0]), o2])
            origins.append(o2)
            optss.append([new() for _ in range(k)])
    base = len(sel)
    for o, opts in zip(origins, optss):
        sel.append({'o': o, 'opts': opts})
    ty = rng.choice(TYPES)
    # sometimes an independent, unconstrained choice next to the constrained ones (the encoders then have a merged
    # scenario for the constrained choices followed by a further scenario)
    if rng.random() < .4:
        o = new()
        derives.append([0, o])
        sel.append({'o': o, 'opts': [new() for _ in range(rng.randint(2, 3))]})
    spec = {'n': n[0], 'derives': derives, 'sel': sel, 'start': [0], 'incompat': [],
            'cons': [{'ty': ty, 'cs': list(range(base, base + nc))}]}
    return spec, placement


def instance_row(b, spec, inst):
    """Option index (original positions) of every choice whose origin exists in the instance."""
    present = set(b.node_ids(inst))
    row = []
    for c in spec['sel']:
        if c['o'] not in present:
            row.append(None)
            continue
        chosen = [k for k, op in enumerate(c['opts']) if inst.graph.has_edge(b.nodes[c['o']], b.nodes[op])]
        row.append(chosen[0] if len(chosen) == 1 else ('ambiguous', tuple(chosen)))
    return tuple(row)


def check_graph(ctx, rep, spec, placement):
    cls = {'placement': placement, 'ty': spec['cons'][0]['ty'], 'hierarchical': placement != 'perm',
           'ordered_ty': spec['cons'][0]['ty'] in ('unordered', 'unordered_norepl')}
    inp = {'spec': spec}
    # (1) step-by-step API
    try:
        w = Walk(ctx, rep, spec, WALK_KINDS, ctx.pick(300, 3000), cls=dict(cls, api='steps')).run()
    except Exception as e:
        rep.disagree('constrain-choices-exc', inp, {'exc': repr(e)[:200]}, dict(cls, api='steps'))
        return
    if w is None or not hasattr(w, 'model_rows'):
        return
    model_rows = set(w.model_rows)
    n_assign = 1
    for c in spec['sel']:
        n_assign *= len(c['opts'])
    rep.count('placement:' + placement, 'ty:' + cls['ty'])
    rep.case(inp, nontrivial=True, n=max(w.n_states, 1), sample={'spec': spec, 'archs': len(model_rows)})
    # (2) processors
    for enc in (SelChoiceEncoderType.COMPLETE, SelChoiceEncoderType.FAST):
        c2 = dict(cls, api=enc.name)
        try:
            b = gen.build(spec)
            if not b.dsg.feasible:
                if model_rows:
                    rep.disagree('infeasible-graph-but-admissible-exists', inp, {}, c2)
                continue
            gp = GraphProcessor(b.dsg, encoder_type=enc)
            dvs = gp.des_vars
        except Exception as e:
            if model_rows:
                rep.disagree('processor-ctor-exc', inp, {'exc': repr(e)[:200], 'n_model_archs': len(model_rows)}, c2)
            continue
        got = set()
        for x in itertools.product(*[range(dv.n_opts) for dv in dvs]):
            try:
                inst, xi, act = gp.get_graph(list(x))
            except Exception as e:
                # decoding may fail (with an explicit RuntimeError) only when there is no architecture at all
                if model_rows or not isinstance(e, RuntimeError):
                    rep.disagree('decode-exc', dict(inp, x=list(x)), {'exc': repr(e)[:200]}, c2)
                continue
            row = instance_row(b, spec, inst)
            if row not in model_rows:
                rep.disagree('architecture-violates-constraint', dict(inp, x=list(x)), {'row': list(row)}, c2)
            got.add(row)
            # vector describes instance through DesVar.options
            for dv, v, a in zip(dvs, xi, act):
                if a and dv.node in b.cidx:
                    ci = b.cidx[dv.node]
                    opt_node = dv.options[int(v)]
                    k = spec['sel'][ci]['opts'].index(b.idx[opt_node]) if b.idx.get(opt_node) in spec['sel'][ci]['opts'] else None
                    if row[ci] != k:
                        rep.disagree('vector-does-not-describe-instance', dict(inp, x=list(x)),
                                     {'choice': ci, 'vector_opt': k, 'instance_opt': row[ci]}, c2)
        if model_rows - got:
            rep.disagree('architectures-missing', inp, {'missing': [list(r) for r in sorted(model_rows - got, key=str)][:3],
                                                        'n_model': len(model_rows), 'n_impl': len(got)}, c2)
        rep.case(dict(inp, enc=enc.name), nontrivial=len(model_rows) < n_assign)


def check_linked_dvs(ctx, rep):
    """Linked DV nodes: same option index (discrete) / same relative position (continuous)."""
    for n in (2, 3, 4):
        a, b_ = DesignVariableNode('a', options=list(range(n))), DesignVariableNode('b', options=list(range(n)))
        g = BasicDSG()
        root = NamedNode('r')
        g.add_edges([(root, a), (root, b_)])
        g = g.set_start_nodes({root}, initialize_choices=False)
        g = g.constrain_choices(ChoiceConstraintType.LINKED, [a, b_]).initialize_choices()
        for v in range(-1, n + 2):
            g2 = g.copy()
            g2.set_des_var_value(a, v)
            rep.case({'fn': 'linked-dv-discrete', 'n': n, 'v': v})
            if g2.des_var_value(a) != g2.des_var_value(b_) or not (0 <= g2.des_var_value(b_) < n):
                rep.disagree('linked-dv-index', {'n': n, 'v': v}, {'a': g2.des_var_value(a), 'b': g2.des_var_value(b_)})
    for (lo1, hi1), (lo2, hi2) in itertools.product(gen.DV_BOUNDS[:4], repeat=2):
        a, b_ = DesignVariableNode('a', bounds=(lo1, hi1)), DesignVariableNode('b', bounds=(lo2, hi2))
        g = BasicDSG()
        root = NamedNode('r')
        g.add_edges([(root, a), (root, b_)])
        g = g.set_start_nodes({root}, initialize_choices=False)
        g = g.constrain_choices(ChoiceConstraintType.LINKED, [a, b_]).initialize_choices()
        for f in (-.5, 0., .25, .5, 1., 1.5):
            v = lo1 + f * (hi1 - lo1)
            g2 = g.copy()
            g2.set_des_var_value(a, v)
            va, vb = g2.des_var_value(a), g2.des_var_value(b_)
            fa = (va - lo1) / (hi1 - lo1)
            exp = lo2 + fa * (hi2 - lo2)
            rep.case({'fn': 'linked-dv-cont', 'b1': [lo1, hi1], 'b2': [lo2, hi2], 'f': f}, nontrivial=not 0 <= f <= 1)
            if vb != exp:
                rep.disagree('linked-dv-fraction', {'b1': [lo1, hi1], 'b2': [lo2, hi2], 'v': v}, {'b': vb, 'expected': exp})
            elif not (lo2 - 1e-9 * (hi2 - lo2) <= vb <= hi2 + 1e-9 * (hi2 - lo2)):
                rep.disagree('linked-dv-out-of-bounds', {'b1': [lo1, hi1], 'b2': [lo2, hi2], 'v': v}, {'b': vb})


def run(ctx, rep):
    if ctx.shard == 0:
        check_functions(ctx, rep)
        check_linked_dvs(ctx, rep)
    n = ctx.pick(700, 12000)
    i = 0
    for i in range(n):
        spec, placement = gen_cons_spec(ctx.rng)
        if not ctx.mine(i):
            continue
        check_graph(ctx, rep, spec, placement)
        if ctx.out_of_time():
            break
    rep.notes.append('constraint graphs generated: %d' % (i + 1))


def replay(ctx, rep, payload):
    inp = payload['input']
    if 'spec' in inp:
        check_graph(ctx, rep, inp['spec'], payload.get('cls', {}).get('placement', 'replay'))
    else:
        check_functions(ctx, rep)


def replay_finding(ctx, f):
    from ..core import Report
    rep = Report()
    check_graph(ctx, rep, f['replay']['spec'], f.get('class', {}).get('placement', 'replay'))
    return any(d['kind'] in f.get('kinds', [f.get('kind')]) for d in rep.disagreements)
