"""C20 A supplementary graph resolves to the mapped option for each source architecture.

Correspondence: generated source DSGs x all their architectures (instances obtained through the step API) x generated
supplementary graphs (1-3 selection choices, some nested under options of other supplementary choices) with option
mappings (incl. the inactive case) and existence mappings in random registration order; SupDSG.add_mapping /
set_start_nodes (initialize_choices) / resolve outcomes and the node set of the resolved graph vs Adsg.resolve
(driver op `sup_resolve`). Malformed set-ups (missing mapping, duplicate mapping, missing inactive case, non-final
source) must be rejected with an error.
"""
import itertools

from adsg_core.graph.adsg_basic import BasicDSG
from adsg_core.graph.adsg_nodes import SelectionChoiceNode
from adsg_core.graph.sup import SupDSG, SupNode, SupSelChoiceOptionMapping, SupExistenceMapping

from .. import gen
from ..explore import Walk

RULE = ('seeded source DSGs (tree stream, 1-3 choices, conditional choices, design-variable and metric nodes) x all their architectures x seeded '
        'supplementary graphs with 1-3 mapped choices (option / existence mappings, nested choices, random registration '
        'order) plus malformed variants (mapping dropped / duplicated / inactive case omitted / non-final source); a case is '
        'one (source architecture, supplementary graph); non-trivial = a nested supplementary choice, an inactive source '
        'choice or an existence mapping is involved; distinct by content hash')
BUDGET = {'quick': 80, 'thorough': 1200}
JOBS = {'quick': 4, 'thorough': 16}
ASSUMPTIONS = ['source architectures are produced with the step-by-step API (C02); the supplementary graph has no '
               'incompatibilities or constraints (the library forbids them)']
LEANCHECK_MODULES = ['Adsg.Model.Sup', 'Adsg.Props.C20']


def gen_sup(rng, src_spec, mappable=None, src_nodes=None):
    """Supplementary graph spec + mappings. `mappable`: source choices that still exist in the initialised source
    graph (choices resolved automatically at initialisation cannot be mapped: add_mapping rejects them)."""
    n = [1]
    sel, derives = [], []

    def new():
        n[0] += 1
        return n[0] - 1
    o0 = new()
    derives.append([0, o0])
    sel.append({'o': o0, 'opts': [new() for _ in range(rng.randint(2, 3))]})
    for _ in range(rng.randint(0, 2)):
        parent = rng.choice([0] + [o for c in sel for o in c['opts']])
        o = new()
        derives.append([parent, o])
        sel.append({'o': o, 'opts': [new() for _ in range(rng.randint(2, 3))]})
    sup = {'n': n[0], 'derives': derives, 'sel': sel, 'start': [0], 'incompat': [], 'cons': []}
    maps = []
    for ci, c in enumerate(sel):
        k = len(c['opts'])
        cands = list(range(len(src_spec['sel']))) if mappable is None else list(mappable)
        if cands and rng.random() < .6:
            sc = rng.choice(cands)
            table = [[j, rng.randrange(k)] for j in range(len(src_spec['sel'][sc]['opts']))] + [[None, rng.randrange(k)]]
            maps.append([ci, {'kind': 'opt', 'src_choice': sc, 'table': table}])
        else:
            # mostly nodes of the initialised source graph; sometimes (malformed stream) any declared node, which
            # add_mapping must reject when the node was removed at initialisation
            pool = list(range(src_spec['n'])) if (src_nodes is None or rng.random() < .15) else list(src_nodes)
            special = [d['node'] for d in src_spec.get('dvs', [])] + [m_['node'] for m_ in src_spec.get('metrics', [])]
            special = [v for v in special if v in pool]
            nodes = rng.sample(pool, min(rng.randint(1, 3), len(pool)))
            if special and rng.random() < .6:
                nodes = [rng.choice(special)] + [v for v in nodes if v not in special][:2]
            maps.append([ci, {'kind': 'exist', 'entries': [[v, rng.randrange(k)] for v in nodes], 'default': rng.randrange(k)}])
    rng.shuffle(maps)
    return sup, maps


def build_sup(sup, maps, src_b, drop_none=False):
    nodes = [SupNode('S%03d' % i) for i in range(sup['n'])]
    g = SupDSG()
    for nd in nodes:
        g.add_node(nd)
    g.add_edges([(nodes[a], nodes[b]) for a, b in sup['derives']])
    cn = [g.add_selection_choice('SC%02d' % ci, nodes[c['o']], [nodes[k] for k in c['opts']]) for ci, c in enumerate(sup['sel'])]
    for ci, m in maps:
        opts = sup['sel'][ci]['opts']
        if m['kind'] == 'opt':
            sc = m['src_choice']
            src_opts = src_b.spec['sel'][sc]['opts']
            mp = {}
            for j, t in m['table']:
                if j is None:
                    if not drop_none:
                        mp[None] = nodes[opts[t]]
                else:
                    mp[src_b.nodes[src_opts[j]]] = nodes[opts[t]]
            mapping = SupSelChoiceOptionMapping(src_b.cn[sc], mp)
        else:
            mp = {}
            for v, t in m['entries']:
                mp[src_b.nodes[v]] = nodes[opts[t]]
            mp[None] = nodes[opts[m['default']]]
            mapping = SupExistenceMapping(mp)
        g.add_mapping(cn[ci], src_b.dsg_base, mapping)
    g = g.set_start_nodes({nodes[s] for s in sup['start']})
    return g, nodes, cn


def source_archs(ctx, src_spec):
    """All final feasible instances of the source via the step API: [(row, nodes, instance)], plus one non-final graph."""
    b = gen.build(src_spec)
    b.dsg_base = gen.build(src_spec, initialize=False).dsg
    b.dsg_base = b.dsg   # mappings are initialised against the initialised source graph
    out = {}
    nonfinal = []

    def rec(g, depth):
        nxt = [c for c in g.get_ordered_next_choice_nodes() if isinstance(c, SelectionChoiceNode)]
        if not g.feasible:
            return
        if not nxt:
            if g.final:
                from . import c11
                row = c11.sel_row(b, src_spec, g)
                out[row] = (b.node_ids(g), g)
            return
        nonfinal.append(g)
        if depth > 6:
            return
        c = nxt[0]
        for o in g.get_option_nodes(c):
            rec(g.get_for_apply_selection_choice(c, o), depth + 1)
    rec(b.dsg, 0)
    return b, out, nonfinal


def check_pair(ctx, rep, src_spec, sup, maps):
    drv = ctx.driver
    b, archs, nonfinal = source_archs(ctx, src_spec)
    inp = {'src': src_spec, 'sup': sup, 'maps': maps}
    nested = any(c['o'] not in (0,) and any(c['o'] in d['opts'] or [p for p, ch in sup['derives'] if ch == c['o'] and p != 0] for d in sup['sel']) for c in sup['sel'])
    cls = {'nested': bool(nested), 'n_maps': len(maps)}
    if not archs:
        return
    # conditional source choices: the library demands the inactive case; our generator always provides it
    try:
        g, nodes, cn = build_sup(sup, maps, b)
        init_ok_impl = True
    except Exception as e:
        init_ok_impl = False
        init_exc = repr(e)[:200]
    sources = [{'nodes': nd, 'row': [v for v in row]} for row, (nd, _) in archs.items()]
    src_nodes = b.node_ids(b.dsg)
    m = drv.ask('sup_resolve', sup=sup, maps=maps, sources=sources, src_nodes=src_nodes)
    if m['init_ok'] != init_ok_impl:
        rep.disagree('initialisation-outcome', inp, {'impl_ok': init_ok_impl, 'model_ok': m['init_ok'],
                                                     'exc': None if init_ok_impl else init_exc}, cls)
        return
    if not init_ok_impl:
        rep.case(inp, nontrivial=True)
        rep.count('init:rejected', 'init:rejected:%s' % ('node-not-in-source' if not m.get('maps_wf', True) else 'mapping'))
        return
    sidx = {nd: i for i, nd in enumerate(nodes)}
    for (row, (nd, inst)), mr in zip(archs.items(), m['results']):
        case = dict(inp, row=list(row))
        inactive_src = any(v is None for v in row)
        nontrivial = nested or inactive_src or any(mm['kind'] == 'exist' for _, mm in maps)
        rep.case(case, nontrivial=nontrivial, sample=case if nontrivial else None)
        try:
            res = g.resolve(inst)
            got = sorted(sidx[x] for x in res.graph.nodes if x in sidx)
            left = [str(x) for x in res.choice_nodes]
            ok = True
        except Exception as e:
            ok, exc = False, repr(e)[:200]
        if ok != (mr['result'] is not None):
            rep.disagree('resolve-outcome', case, {'impl_ok': ok, 'model': mr['result'], 'exc': None if ok else exc}, cls)
            continue
        if not ok:
            rep.count('resolve:rejected')
            continue
        rep.count('resolve:ok')
        if got != mr['result'] or left or not res.final:
            rep.disagree('resolved-graph', case, {'impl': got, 'model': mr['result'], 'choices_left': left, 'assign': mr['assign']}, cls)
    # non-final source must be rejected
    for nf in nonfinal[:2]:
        try:
            g.resolve(nf)
            rep.disagree('non-final-source-accepted', inp, {}, cls)
        except RuntimeError:
            rep.count('reject:non-final-source')
    # malformed variants
    if len(maps) >= 1:
        for variant, mm in (('dropped', maps[:-1]), ('duplicated', maps + [maps[0]])):
            mv = drv.ask('sup_resolve', sup=sup, maps=mm, sources=sources[:1], src_nodes=src_nodes)
            try:
                build_sup(sup, mm, b)
                impl_ok = True
            except RuntimeError:
                impl_ok = False
            except Exception as e:
                impl_ok = 'exc:' + type(e).__name__
            rep.case(dict(inp, variant=variant), nontrivial=True)
            if impl_ok is not mv['init_ok']:
                rep.disagree('malformed-mapping-outcome', dict(inp, variant=variant), {'impl_ok': impl_ok, 'model_ok': mv['init_ok']}, cls)
    # the inactive case omitted for a conditionally active source choice must be rejected at registration
    for ci, mm in maps:
        if mm['kind'] == 'opt':
            sc = mm['src_choice']
            conditional = any(row[sc] is None for row in archs)
            if conditional:
                try:
                    build_sup(sup, maps, b, drop_none=True)
                    rep.disagree('missing-inactive-case-accepted', dict(inp, choice=ci), {}, cls)
                except RuntimeError:
                    rep.count('reject:missing-inactive-case')
                break


def run(ctx, rep):
    n = ctx.pick(600, 8000)
    i = 0
    for i in range(n):
        src = gen.gen_tree(ctx.rng, depth=3, incompat=ctx.rng.random() < .2)
        # design-variable and metric nodes in the source (existence mappings may be keyed on any kind of node)
        if ctx.rng.random() < .5:
            src = gen.attach_dvs(ctx.rng, src, 1, 2)
        if ctx.rng.random() < .5:
            src = gen.attach_metrics(ctx.rng, src, 1, 2)
        try:
            sb = gen.build(src)
            mappable = [ci for ci, c in enumerate(sb.cn) if c in sb.dsg.graph.nodes]
            src_nodes = sb.node_ids(sb.dsg)
        except Exception:
            mappable, src_nodes = [], None
        sup, maps = gen_sup(ctx.rng, src, mappable, src_nodes)
        if not ctx.mine(i):
            continue
        try:
            check_pair(ctx, rep, src, sup, maps)
        except Exception as e:
            import traceback
            rep.disagree('harness-exc', {'src': src, 'sup': sup, 'maps': maps}, {'exc': repr(e)[:200], 'tb': traceback.format_exc(limit=5)[-700:]})
        if ctx.out_of_time():
            break
    rep.notes.append('pairs generated: %d' % (i + 1))


def replay(ctx, rep, payload):
    inp = payload['input']
    check_pair(ctx, rep, inp['src'], inp['sup'], inp['maps'])


def replay_finding(ctx, f):
    from ..core import Report
    rep = Report()
    inp = f['replay']
    check_pair(ctx, rep, inp['src'], inp['sup'], inp['maps'])
    return any(d['kind'] in f.get('kinds', [f.get('kind')]) for d in rep.disagreements)
