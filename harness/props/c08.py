"""C08 Design space graphs behave as persistent values.

Correspondence / direct check: generated DSGs (incl. connector grouping nodes with conditional members, choice
constraints, design-variable nodes) x seeded histories of derive operations (copy, apply a selection choice, apply a
connection choice, constrain choices on a copy, set a design-variable value on a copy, confirmed graph, decode an instance
from a processor of either encoder type) applied to ANY live graph object, old or new. After every operation every live
graph object is re-observed through the graph API (nodes and edges, feasible, final, next choices, option lists, valid
connection sets, connector degree constraints as handed to the encoders, stored values) and compared with the snapshot
taken when it was created. The same history is run on the Lean heap model (driver op `heap_run`): after each look the
aggregated degree stored on every grouping node of the graph looked at must be what the model's cells hold (the
re-synchronisation on read that makes looks pure).
"""
import itertools
import math

from adsg_core.graph.adsg_nodes import (SelectionChoiceNode, ConnectionChoiceNode, ConnectorDegreeGroupingNode,
                                        ConnectorNode, DesignVariableNode)
from adsg_core.graph.graph_edges import EdgeType, get_edge_type, iter_in_edges, iter_out_edges
from adsg_core.graph.choice_constraints import ChoiceConstraintType

from .. import gen, proc

RULE = ('seeded DSGs from streams (tame, tree, cons, dv, conn, conn-dv with grouping connectors whose members are '
        'conditional) x seeded histories of 6-14 (quick) / up to 30 (thorough) derive operations on any live graph object; '
        'a case is one (graph, history); every live object is re-observed after every operation; non-trivial = at least 3 '
        'live objects and one operation applied to an object that is not the newest; distinct by content hash')
BUDGET = {'quick': 90, 'thorough': 1500}
JOBS = {'quick': 4, 'thorough': 16}
ASSUMPTIONS = ['what a graph object "reports" is read through the graph API (DSG.graph, feasible, final, '
               'get_ordered_next_choice_nodes, get_option_nodes, ConnectionChoiceNode.iter_conn_edges and the connector '
               'settings it hands to the encoders, des_var_values); attributes of the shared node objects read directly '
               '(e.g. ConnectorDegreeGroupingNode.deg_list) and the class-level record of automatically taken choices '
               '(get_taken_single_selection_choices) are not reports of a particular graph object',
               'operations that mutate the receiver by design (set_des_var_value, constrain_choices) are applied to a fresh '
               'copy, as the property states']
LEANCHECK_MODULES = ['Adsg.Model.Heap', 'Adsg.Props.C08']
STREAMS = ('tame', 'tree', 'cons', 'dv', 'conn', 'conn-dv', 'conn-dv', 'conn')
CONS = [ChoiceConstraintType.LINKED, ChoiceConstraintType.PERMUTATION, ChoiceConstraintType.UNORDERED,
        ChoiceConstraintType.UNORDERED_NOREPL]


class Names:
    def __init__(self, b):
        self.m = {}
        for n, i in b.idx.items():
            self.m[n] = 'n%d' % i
        for n, i in b.cidx.items():
            self.m[n] = 'c%d' % i
        for i, n in enumerate(b.conn_nodes):
            self.m[n] = 'k%d' % i

    def __call__(self, n):
        return self.m.get(n) or ('?' + str(n))


def observe(nm, g, order=0):
    """Everything the property lists, through the graph API, canonicalised. `order` varies the order in which the
    observations are made (0: feasibility first, 1: connection sets and connector settings first, 2: reversed) - what an
    object reports must not depend on what was asked before (a feasibility read re-synchronises shared node state)."""
    out = {}
    gr = g.graph

    def basic():
        out['nodes'] = sorted(nm(n) for n in gr.nodes)
        out['edges'] = sorted((nm(u), nm(v), str(d.get('type'))) for u, v, d in gr.edges(data=True))

    def feas():
        out['feasible'] = bool(g.feasible)
        out['final'] = bool(g.final)

    def choices():
        nxt = list(g.get_ordered_next_choice_nodes())
        out['next'] = [nm(c) for c in nxt]
        opts, sets = {}, {}
        for c in nxt:
            if isinstance(c, SelectionChoiceNode):
                opts[nm(c)] = [nm(o) for o in g.get_option_nodes(c)]
            elif isinstance(c, ConnectionChoiceNode):
                try:
                    es = [sorted((nm(u), nm(v)) for u, v in edges) for edges in itertools.islice(c.iter_conn_edges(g), 40)]
                    sets[nm(c)] = sorted(es)
                except Exception as e:
                    sets[nm(c)] = 'exc:' + type(e).__name__
        out['options'] = opts
        out['conn_sets'] = sets

    def degrees():
        degs = {}
        for c in gr.nodes:
            if isinstance(c, ConnectionChoiceNode):
                try:
                    settings, node_map = c._get_assign_nodes(g)
                    degs[nm(c)] = [[(nm(nd), n.conns, n.min_conns, bool(n.rep)) for nd, n in zip(node_map[i], side)]
                                   for i, side in enumerate((settings.src, settings.tgt))]
                except Exception as e:
                    degs[nm(c)] = 'exc:' + type(e).__name__
        out['degrees'] = degs

    def values():
        out['dv_values'] = sorted((nm(n), v) for n, v in g.des_var_values.items())
        out['constraints'] = [(str(cc.type), [nm(n) for n in cc.nodes]) for cc in g.get_choice_constraints()]

    steps = {0: [basic, feas, choices, degrees, values], 1: [choices, degrees, basic, values, feas],
             2: [values, degrees, choices, feas, basic]}[order % 3]
    for f in steps:
        f()
    return out


def own_state(nm, g, idx):
    """The Lean `Own` of a graph object: grouping nodes with the degree specs of their members present in this graph, and
    the number of connections of each grouping node once no connection choice is pending on it."""
    groups, conns = [], []
    gr = g.graph
    for gn in gr.nodes:
        if not isinstance(gn, ConnectorDegreeGroupingNode):
            continue
        gid = int(nm(gn)[1:])
        ms = []
        for e in iter_in_edges(gr, gn, edge_type=EdgeType.DERIVES):
            m = e[0]
            if m.deg_list is not None:
                ms.append({'list': [int(v) for v in m.deg_list]})
            elif m.deg_max != math.inf:
                ms.append({'list': list(range(int(m.deg_min), int(m.deg_max) + 1))})
            else:
                ms.append({'min': int(m.deg_min)})
        groups.append([gid, ms])
        pending = any(isinstance(x, ConnectionChoiceNode) for x in itertools.chain(gr.successors(gn), gr.predecessors(gn)))
        if not pending:
            n_out = sum(1 for e in iter_out_edges(gr, gn, edge_type=EdgeType.CONNECTS))
            n_in = sum(1 for e in iter_in_edges(gr, gn, edge_type=EdgeType.CONNECTS))
            conns.append([gid, max(n_out, n_in)])
    return {'groups': groups, 'conns': conns, 'rest': idx}


def cell_of(gn):
    if gn.deg_list is not None:
        return {'list': sorted(int(v) for v in gn.deg_list)}
    return {'min': int(gn.deg_min)}


class History:
    def __init__(self, ctx, rep, spec, ops, cls):
        self.ctx, self.rep, self.spec, self.ops, self.cls = ctx, rep, spec, ops, cls
        self.b = gen.build(spec)
        self.nm = Names(self.b)
        self.live = [self.b.dsg]
        self.src_of = [None]
        self.snap = [observe(self.nm, self.b.dsg)]
        self.procs = {}
        self.done = []
        self.acts = []          # mirrored model acts
        self.looks = []         # (act index, live index)
        self.old_touched = False

    def add(self, g, src):
        snap = observe(self.nm, g)
        own = own_state(self.nm, g, len(self.live))
        self.live.append(g)
        self.src_of.append(src)
        self.snap.append(snap)
        self.acts.append({'src': src, 'own': own})

    def apply(self, op):
        """op: tuple of ints (kind, a, b, c); indices are taken modulo what is available. Returns a label."""
        kind, a, b_, c = op
        live = self.live
        i = a % len(live)
        g = live[i]
        if i != len(live) - 1:
            self.old_touched = True
        k = kind % 8
        if k == 0:
            self.add(g.copy(), i)
            return 'copy'
        if k in (1, 5):
            nxt = [x for x in g.get_ordered_next_choice_nodes() if isinstance(x, SelectionChoiceNode)]
            if not nxt or not g.feasible:
                return 'skip'
            cn = nxt[b_ % len(nxt)]
            opts = g.get_option_nodes(cn)
            if not opts:
                return 'skip'
            self.add(g.get_for_apply_selection_choice(cn, opts[c % len(opts)]), i)
            return 'sel'
        if k == 2:
            nxt = [x for x in g.get_ordered_next_choice_nodes() if isinstance(x, ConnectionChoiceNode)]
            if not nxt or not g.feasible:
                return 'skip'
            cn = nxt[b_ % len(nxt)]
            sets = list(itertools.islice(cn.iter_conn_edges(g), 12))
            if not sets:
                return 'skip'
            self.add(g.get_for_apply_connection_choice(cn, sets[c % len(sets)]), i)
            return 'conn'
        if k == 3:
            cons = {n for cc in g.get_choice_constraints() for n in cc.nodes}
            cand = [x for x in g.choice_nodes if isinstance(x, SelectionChoiceNode) and x not in cons]
            by_n = {}
            for x in cand:
                by_n.setdefault(len(g.get_option_nodes(x)), []).append(x)
            groups = [v for v in by_n.values() if len(v) >= 2]
            if not groups:
                return 'skip'
            nodes = groups[b_ % len(groups)][:2]
            cp = g.copy()
            self.add(cp, i)
            try:
                g2 = cp.constrain_choices(CONS[c % len(CONS)], nodes)
            except (ValueError, RuntimeError):
                return 'constrain-rejected'
            # the copy itself was mutated by design: refresh its snapshot, it is a new value from here on
            self.snap[-1] = observe(self.nm, cp)
            if g2 is not cp:
                self.add(g2, len(self.live) - 1)
            return 'constrain'
        if k == 4:
            dvn = [x for x in g.graph.nodes if isinstance(x, DesignVariableNode)]
            if not dvn:
                return 'skip'
            nd = dvn[b_ % len(dvn)]
            cp = g.copy()
            try:
                v = (c % nd.n_opts) if nd.is_discrete else nd.bounds[0] + (nd.bounds[1] - nd.bounds[0]) * (c % 5) / 4
            except Exception:
                v = 0
            cp.set_des_var_value(nd, v)
            self.add(cp, i)
            return 'set-dv'
        if k == 6:
            try:
                self.add(g.get_confirmed_graph(), i)
            except Exception:
                return 'confirmed-exc'
            return 'confirmed'
        # decode from a processor on the initial graph
        enc = ('COMPLETE', 'FAST')[b_ % 2]
        if enc not in self.procs:
            try:
                self.procs[enc] = proc.GraphProcessor(self.b.dsg, encoder_type=proc.ENC[enc])
            except Exception:
                self.procs[enc] = None
        gp = self.procs[enc]
        if gp is None:
            return 'skip'
        import random
        r = random.Random(c)
        x = [r.randrange(dv.n_opts) if dv.is_discrete else r.uniform(*dv.bounds) for dv in gp.des_vars]
        try:
            inst, _, _ = gp.get_graph(x)
        except Exception:
            return 'decode-exc'
        self.add(inst, 0)
        return 'decode'

    def recheck(self, step, label):
        ok = True
        for i, g in enumerate(self.live):
            try:
                now = observe(self.nm, g, order=step + i)
            except Exception as e:
                now = {'exc': repr(e)[:200]}
            self.acts.append({'look': i})
            # a feasible verdict means the check visited every connector (no early exit), hence re-synchronised every
            # grouping node of this graph; on an early exit the cells of grouping nodes not yet visited are not touched
            # (and not read) - the model's look over-approximates the set of cells written
            if now.get('feasible'):
                self.looks.append((len(self.acts) - 1, i, {int(self.nm(gn)[1:]): cell_of(gn) for gn in g.graph.nodes
                                                        if isinstance(gn, ConnectorDegreeGroupingNode)}))
            if now != self.snap[i]:
                changed = sorted(k for k in set(now) | set(self.snap[i]) if now.get(k) != self.snap[i].get(k))
                self.rep.disagree('observation-changed', {'spec': self.spec, 'ops': self.ops},
                                  {'object': i, 'after_step': step, 'op': label, 'fields': changed,
                                   'before': {k: str(self.snap[i].get(k))[:300] for k in changed},
                                   'after': {k: str(now.get(k))[:300] for k in changed}},
                                  dict(self.cls, fields=','.join(changed)))
                ok = False
                self.snap[i] = now
        return ok

    def run(self):
        first = own_state(self.nm, self.live[0], 0)
        for step, op in enumerate(self.ops):
            try:
                label = self.apply(tuple(op))
            except Exception as e:
                label = 'exc:' + type(e).__name__
                self.rep.count('op-exc:' + type(e).__name__)
            self.done.append(label)
            self.rep.count('op:' + label)
            self.recheck(step, label)
            if len(self.live) > 14:
                break
        # the heap model on the same history
        if any(a.get('own', {}).get('groups') for a in self.acts) or first['groups']:
            m = self.ctx.driver.ask('heap_run', first=first, acts=self.acts)
            if not m['wf']:
                self.rep.disagree('heap-model-own-state-not-wellformed', {'spec': self.spec, 'ops': self.ops}, {}, dict(self.cls))
            for ai, i, cells in self.looks:
                st = m['steps'][ai]
                mc = {int(k): v for k, v in st['cells']}
                bad = {k: (v, mc.get(k)) for k, v in cells.items() if mc.get(k) != v}
                if bad:
                    self.rep.disagree('cells-after-look-differ', {'spec': self.spec, 'ops': self.ops},
                                      {'object': i, 'impl_vs_model': str(bad)[:300]}, dict(self.cls))
                    break
            self.rep.count('heap-model:run')
        return self


def gen_ops(rng, n):
    return [[rng.randrange(8), rng.randrange(1000), rng.randrange(1000), rng.randrange(1000)] for _ in range(n)]


def check(ctx, rep, spec, ops):
    cls = proc.cls_of(spec)
    inp = {'spec': spec, 'ops': ops}
    try:
        h = History(ctx, rep, spec, ops, cls)
    except Exception as e:
        rep.count('build-exc:' + type(e).__name__)
        return
    h.run()
    rep.case(inp, nontrivial=len(h.live) >= 3 and h.old_touched, n=len(h.done),
             sample=dict(inp, labels=h.done) if len(h.live) >= 3 and h.old_touched else None)
    rep.count('stream:' + spec.get('stream', '?'), 'live:%d' % min(len(h.live), 15), 'group:%s' % bool(spec.get('groups')))


def run(ctx, rep):
    n = ctx.pick(800, 20000)
    i = 0
    for i in range(n):
        spec = proc.gen_problem(ctx.rng, streams=STREAMS)
        ops = gen_ops(ctx.rng, ctx.rng.randint(6, ctx.pick(14, 30)))
        if not ctx.mine(i):
            continue
        try:
            check(ctx, rep, spec, ops)
        except Exception as e:
            import traceback
            rep.disagree('harness-exc', {'spec': spec, 'ops': ops}, {'exc': repr(e)[:200], 'tb': traceback.format_exc(limit=6)[-900:]})
        if ctx.out_of_time():
            break
    rep.notes.append('histories generated: %d' % (i + 1))


def replay(ctx, rep, payload):
    check(ctx, rep, payload['input']['spec'], payload['input']['ops'])


def replay_finding(ctx, f):
    from ..core import Report
    rep = Report()
    check(ctx, rep, f['replay']['spec'], f['replay']['ops'])
    return any(d['kind'] in f.get('kinds', [f.get('kind')]) and
               all(d['cls'].get(k) == v for k, v in f.get('class', {}).items()) for d in rep.disagreements)
