"""C14 The fast selection-choice encoder is sound and covers the design space.

Correspondence: harness/procpass.py with the FAST encoder - every vector of the fast encoder's declared space decodes
to a design admitted by the model (soundness), every admitted design is the decode of some vector (coverage, exhaustive
spaces only), a vector that is already valid is returned unchanged (fixed point), and the set of reachable designs
equals that of the complete encoder on the same graph.
"""
from .. import proc, procpass

KINDS = procpass.SOUND_KINDS | {'ctor-exc', 'decode-exc', 'coverage-missing', 'not-idempotent', 'fast-vs-complete',
                               'infeasible-graph-but-designs-exist'}
RULE = ('seeded problems from streams tame, tree, cons, dv, conn, shared (incl. zero selection choices, forced '
        'single-option choices, incompatibilities, linked choices) x FAST encoder (and COMPLETE for comparison); every '
        'vector of the declared space when <= 200 vectors, else 200 samples; a case is one (problem, encoder); non-trivial '
        '= >= 2 architectures or a connection choice or DV nodes; distinct by content hash')
BUDGET = {'quick': 110, 'thorough': 1500}
JOBS = {'quick': 4, 'thorough': 16}
ASSUMPTIONS = ['offered options along a greedy path are an oracle inside the sandwich (C06); the fast encoder reports '
               'auto-resolved choices as inactive, which the comparison (through instances) is insensitive to']
LEANCHECK_MODULES = ['Adsg.Model.Fast', 'Adsg.Props.C14']
STREAMS = ('tame', 'tree', 'cons', 'dv', 'conn', 'shared')


def check(ctx, rep, spec):
    try:
        f = procpass.run_pass(ctx, rep, spec, 'FAST', KINDS, want_enum=False)
        if f is None:
            return
        c = procpass.run_pass(ctx, type(rep)(), spec, 'COMPLETE', set(), want_enum=False)
        if c is not None and f['full'] and c['full']:
            a, b = set(f['by_design']), set(c['by_design'])
            if a != b:
                cls = proc.cls_of(spec)
                cls['enc'] = 'FAST'
                if spec.get('cons'):
                    cs = spec['cons'][0]['cs']
                    cls['cons_mixed'] = any(len({r[c_] is None for c_ in cs}) > 1 for r in f['P'].model)
                rep.disagree('fast-vs-complete', {'spec': spec, 'enc': 'FAST'},
                             {'fast_only': [str(k) for k in sorted(a - b, key=str)[:3]],
                              'complete_only': [str(k) for k in sorted(b - a, key=str)[:3]]}, cls)
    except Exception as e:
        import traceback
        rep.disagree('harness-exc', {'spec': spec, 'enc': 'FAST'}, {'exc': repr(e)[:200], 'tb': traceback.format_exc(limit=5)[-700:]})


def check_neighborhood(ctx, rep):
    """_iter_neighborhood vs Adsg.neighborhood, exhaustive for all boxes up to 3 variables x 4 options x all fixed masks."""
    import itertools
    from adsg_core.optimization.hierarchy.fast import FastHierarchyAnalyzer
    an = FastHierarchyAnalyzer.__new__(FastHierarchyAnalyzer)
    drv = ctx.driver
    for nv in (1, 2, 3):
        for n_opts in itertools.product(range(1, 5 if nv < 3 else 4), repeat=nv):
            an.__dict__['n_opts'] = list(n_opts)
            for x in itertools.product(*[range(n) for n in n_opts]):
                for fx in itertools.product((False, True), repeat=nv):
                    got = [list(v) for v in an._iter_neighborhood(list(x), list(fx))]
                    exp = drv.ask('neighborhood', n_opts=list(n_opts), x=list(x), fixed=list(fx))
                    rep.case({'fn': 'neighborhood', 'n_opts': n_opts, 'x': x, 'fixed': fx}, nontrivial=len(exp) >= 2)
                    if got != exp:
                        rep.disagree('iter-neighborhood', {'n_opts': list(n_opts), 'x': list(x), 'fixed': list(fx)}, {'impl': got[:6], 'model': exp[:6]})
                        return


def run(ctx, rep):
    if ctx.shard == 0:
        check_neighborhood(ctx, rep)
    n = ctx.pick(300, 6000)
    i = 0
    for i in range(n):
        spec = proc.gen_problem(ctx.rng, streams=STREAMS)
        if not ctx.mine(i):
            continue
        check(ctx, rep, spec)
        if ctx.out_of_time():
            break
    rep.notes.append('problems generated: %d' % (i + 1))


def replay(ctx, rep, payload):
    check(ctx, rep, payload['input']['spec'])


def replay_finding(ctx, f):
    from ..core import Report
    rep = Report()
    check(ctx, rep, f['replay']['spec'])
    return any(d['kind'] in f.get('kinds', [f.get('kind')]) and
               all(d['cls'].get(k) == v for k, v in f.get('class', {}).items()) for d in rep.disagreements)
