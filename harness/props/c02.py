"""C02 An architecture instance is exactly the derivation closure of the choices made.

Correspondence: the real resolution API is walked exhaustively (all orders x all offered options, up to a state
budget) on generated DSGs; at every state the confirmed node set and the set of next active choices are compared with
Adsg.closure / Adsg.nextChoices, at every leaf final/feasible/node set with the closure, two paths with the same picks
must give the same instance, and the set of feasible leaves must equal Adsg.allRows (driver ops `state`, `archs`).
"""
from .. import gen
from ..explore import Walk

KINDS = {'api-exc', 'confirmed-set', 'next-choices', 'leaf-nodes', 'leaf-not-final', 'choice-node-left', 'order-dependence',
         'reachable-set-missing', 'reachable-set-extra', 'apply-exc', 'feasible-leaf-not-admissible',
         'confirmed-edges-function', 'traverse-function', 'start-nodes-pruning'}
RULE = ('corpus of minimised past failures first; seeded random DSGs from streams tame (unshared options, derivation '
        'cycles, 1-2 start nodes), tree (hierarchical, conditional choices), shared (options shared between choices, several '
        'choices per node, options that are start nodes) and overlap (overlapping derivation paths, choices on shared '
        'intermediate nodes), a fifth of the tree / overlap graphs with a component no start node derives; every fourth '
        'graph additionally at function level (confirmed edges of every node with a shared cache and without, '
        'traverse_until_choice_nodes for random start sets); per graph the complete resolution tree over all orders and all offered options '
        'up to a state budget; a case is one state of that tree; non-trivial = the graph has >= 2 architectures or an '
        'incompatibility; distinct by (graph, pick set)')
BUDGET = {'quick': 60, 'thorough': 900}
JOBS = {'quick': 4, 'thorough': 16}
ASSUMPTIONS = ['which options are offered at an intermediate state is an oracle constrained by the sandwich '
               'viable <= offered <= declared (checked under C06); the walk is truncated at a state budget per graph, '
               'in which case the reachable-set comparison is skipped for that graph']
LEANCHECK_MODULES = ['Adsg.Model.Graph', 'Adsg.Model.Steps', 'Adsg.Props.C02']
STREAMS = [('tame', 3), ('tree', 4), ('shared', 3), ('overlap', 3)]


def gen_spec(rng, stream):
    if stream == 'tame':
        return gen.gen_tame(rng)
    if stream == 'tree':
        return gen.gen_tree(rng, depth=3)
    return gen.gen_shared(rng)


def add_orphans(rng, spec):
    """Nodes that no start node derives: two or three extra root nodes jointly deriving a node X, which derives an
    existing option node and carries a choice of its own. None of them belongs to any architecture; set_start_nodes has
    to remove the whole component (X has several parents, so it only goes once all of them are gone)."""
    spec = dict(spec)
    n = spec['n']
    derives = [list(e) for e in spec['derives']]
    sel = [dict(c) for c in spec['sel']]
    roots = list(range(n, n + rng.randint(2, 3)))
    n += len(roots)
    x = n
    n += 1
    for r in roots:
        derives.append([r, x])
    opts = [o for c in sel for o in c['opts']]
    if opts and rng.random() < .7:
        derives.append([x, rng.choice(opts)])
    k = rng.randint(2, 3)
    sel.append({'o': x, 'opts': list(range(n, n + k))})
    n += k
    spec.update(n=n, derives=derives, sel=sel)
    return spec


def stream_cls(spec, stream):
    opts = [o for c in spec['sel'] for o in c['opts']]
    origins = [c['o'] for c in spec['sel']]
    shared = len(set(opts)) != len(opts) or bool(set(opts) & set(spec['start'])) or len(set(origins)) != len(origins)
    return {'stream': stream, 'shared_options': shared,
            'two_choices_same_origin': len(set(origins)) != len(origins),
            'option_in_two_choices': len(set(opts)) != len(opts)}


def check_graph(ctx, rep, spec, stream, kinds=KINDS):
    if not spec['sel']:
        return
    w = Walk(ctx, rep, spec, kinds, ctx.pick(400, 5000), cls=stream_cls(spec, stream)).run()
    if w is None:
        return
    nontrivial = len(getattr(w, 'model_rows', {})) >= 2 or bool(spec['incompat'])
    rep.count('stream:' + stream, 'archs:%d' % min(len(getattr(w, 'model_rows', {})), 6))
    rep.case({'spec': spec}, nontrivial=nontrivial, n=max(w.n_states, 1),
             sample={'spec': spec, 'states': w.n_states, 'archs': len(w.model_rows)} if nontrivial else None)


# Minimised past failures (run first on every run). 1: two options reach a node via overlapping derivation paths
# (O1 -> B; O2 -> B, Y; Y -> B; P -> Y) - the confirmed-edge cache used to hold an incomplete edge set for Y, so the choice
# on B never became active after O3, P (fixed in 00072a1).
CORPUS = [
    {'n': 10, 'derives': [[1, 6], [2, 6], [2, 7], [7, 6], [4, 7]],
     'sel': [{'o': 0, 'opts': [1, 2, 3]}, {'o': 0, 'opts': [4, 5]}, {'o': 6, 'opts': [8, 9]}],
     'start': [0], 'incompat': [], 'cons': []},
    {'n': 8, 'derives': [[1, 4], [1, 5], [1, 6], [6, 4], [6, 5], [2, 6]],
     'sel': [{'o': 0, 'opts': [1, 2]}, {'o': 5, 'opts': [3, 7]}],
     'start': [0], 'incompat': [], 'cons': []},
]


def gen_overlap(rng):
    """Overlapping derivation paths: options derive shared intermediate nodes both directly and through each other
    (cross edges of the derivation DAG), and choices originate at such shared nodes."""
    nopt = rng.randint(2, 3)
    n = 1 + nopt
    sel = [{'o': 0, 'opts': list(range(1, 1 + nopt))}]
    if rng.random() < .6:
        k = rng.randint(2, 3)
        sel.append({'o': 0, 'opts': list(range(n, n + k))})
        n += k
    opts = [o for c in sel for o in c['opts']]
    mids = list(range(n, n + rng.randint(2, 4)))
    n += len(mids)
    derives = []
    for o in opts:
        for m in rng.sample(mids, rng.randint(0, min(3, len(mids)))):
            derives.append([o, m])
    for a in mids:
        for b_ in mids:
            if a != b_ and rng.random() < .3 and [b_, a] not in derives:
                derives.append([a, b_])
    rng.shuffle(derives)
    for _ in range(rng.randint(1, 2)):
        k = rng.randint(2, 3)
        sel.append({'o': rng.choice(mids), 'opts': list(range(n, n + k))})
        n += k
    return {'n': n, 'derives': derives, 'sel': sel, 'start': [0], 'incompat': [], 'cons': []}


def check_traversal(ctx, rep, spec, kinds=KINDS):
    """Function level (graph/traversal.py): get_confirmed_edges_for_node for every node of the initialised graph in a
    random order with one shared cache dict (as the influence matrix uses it), and without cache; and
    traverse_until_choice_nodes for random start sets - vs Adsg.confirmedEdges / confirmedFrom / choicesFrom computed on
    the derivation edges and choices of that same graph."""
    from adsg_core.graph.traversal import get_confirmed_edges_for_node, traverse_until_choice_nodes
    from adsg_core.graph.graph_edges import EdgeType, get_edge_type
    try:
        b = gen.build(spec)
    except Exception:
        return
    g = b.dsg.graph
    nodes = [n for n in g.nodes if n in b.idx]
    if not nodes:
        return
    derives = sorted({(b.idx[u], b.idx[v]) for u, v, d in g.edges(data=True)
                      if u in b.idx and v in b.idx and d.get('type') in (EdgeType.DERIVES, EdgeType.CONNECTS)})
    sel = []
    cmap = {}
    for cn in g.nodes:
        if cn in b.cidx:
            origins = [u for u in g.predecessors(cn) if u in b.idx]
            if len(origins) == 1:
                cmap[cn] = len(sel)
                sel.append({'o': b.idx[origins[0]], 'opts': [b.idx[o] for o in g.successors(cn) if o in b.idx]})
    mg = {'n': spec['n'], 'derives': [list(e) for e in derives], 'sel': sel, 'start': [], 'incompat': []}
    order = list(nodes)
    ctx.rng.shuffle(order)
    starts = [ctx.rng.sample(nodes, ctx.rng.randint(1, min(3, len(nodes)))) for _ in range(3)]
    m = ctx.driver.ask('confirmed', g=mg, nodes=[b.idx[n] for n in order], starts=[[b.idx[n] for n in st] for st in starts])
    inp = {'spec': spec, 'order': [b.idx[n] for n in order]}
    cls = dict(stream_cls(spec, spec.get('stream', 'function')), model_completable=None)
    cache = {}
    n_cross = 0
    for nd, want in zip(order, m['edges']):
        want = sorted(tuple(e) for e in want)
        for label, kw in (('shared-cache', {'cache': cache}), ('no-cache', {})):
            try:
                got = get_confirmed_edges_for_node(g, nd, include_choice=False, **kw)
            except Exception as e:
                if 'confirmed-edges-function' in kinds:
                    rep.disagree('confirmed-edges-function', dict(inp, node=b.idx[nd], mode=label), {'exc': repr(e)[:200]}, cls)
                continue
            got = sorted({(b.idx[e[0]], b.idx[e[1]]) for e in got if e[0] in b.idx and e[1] in b.idx})
            if got != want and 'confirmed-edges-function' in kinds:
                rep.disagree('confirmed-edges-function', dict(inp, node=b.idx[nd], mode=label),
                             {'missing': [e for e in want if e not in got][:5], 'extra': [e for e in got if e not in want][:5]}, cls)
                break
        n_cross += len(want) > 1
    for st, want in zip(starts, m['from']):
        try:
            conf, chs = traverse_until_choice_nodes(g, set(st))
        except Exception as e:
            if 'traverse-function' in kinds:
                rep.disagree('traverse-function', dict(inp, start=[b.idx[n] for n in st]), {'exc': repr(e)[:200]}, cls)
            continue
        got_n = sorted(b.idx[n] for n in conf if n in b.idx)
        got_c = sorted(cmap[c] for c in chs if c in cmap)
        if (got_n != want['nodes'] or got_c != sorted(want['choices'])) and 'traverse-function' in kinds:
            rep.disagree('traverse-function', dict(inp, start=[b.idx[n] for n in st]),
                         {'impl': [got_n, got_c], 'model': [want['nodes'], sorted(want['choices'])]}, cls)
    # set_start_nodes: "nodes that cannot be derived from any of the starting nodes are removed" - exactly those
    if not spec.get('cons') and not spec.get('conn'):
        try:
            b0 = gen.build(spec, initialize=False)
            kept = b0.node_ids(b0.dsg)
            md = ctx.driver.ask('confirmed', g=gen.model_graph(spec))['derivable']
            if kept != md and 'start-nodes-pruning' in kinds:
                rep.disagree('start-nodes-pruning', {'spec': spec}, {'kept_not_derivable': [v for v in kept if v not in md][:6],
                                                                     'derivable_removed': [v for v in md if v not in kept][:6]}, cls)
            rep.count('level:start-nodes-pruning')
        except Exception as e:
            rep.count('start-nodes-pruning-exc:' + type(e).__name__)
    rep.case(dict(inp, level='function'), nontrivial=n_cross >= 2, n=len(order) * 2 + len(starts))
    rep.count('level:function')


def run(ctx, rep, kinds=KINDS):
    for ci, spec in enumerate(CORPUS):
        if ctx.mine(ci):
            check_graph(ctx, rep, dict(spec), 'corpus', kinds)
    n = ctx.pick(1500, 30000)
    weights = [s for s, k in STREAMS for _ in range(k)]
    i = 0
    for i in range(n):
        stream = ctx.rng.choice(weights)
        spec = gen_overlap(ctx.rng) if stream == 'overlap' else gen_spec(ctx.rng, stream)
        if stream in ('tree', 'overlap') and ctx.rng.random() < .2:
            spec = add_orphans(ctx.rng, spec)
        if ctx.rng.random() < .3:
            spec['choices_first'] = True     # selection choices declared before the derivation edges
        if not ctx.mine(i):
            continue
        check_graph(ctx, rep, spec, stream, kinds)
        if i % 4 == 0:
            try:
                check_traversal(ctx, rep, dict(spec, stream=stream), kinds)
            except Exception as e:
                rep.count('function-level-exc:' + type(e).__name__)
        if ctx.out_of_time():
            break
    rep.notes.append('graphs generated: %d' % (i + 1))


def replay(ctx, rep, payload):
    check_graph(ctx, rep, payload['input']['spec'], payload.get('cls', {}).get('stream', 'replay'))


def replay_finding(ctx, f):
    from ..core import Report
    rep = Report()
    check_graph(ctx, rep, f['replay']['spec'], f.get('class', {}).get('stream', 'replay'))
    return any(d['kind'] in f.get('kinds', [f.get('kind')]) for d in rep.disagreements)
