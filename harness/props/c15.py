"""C15 Fixing a design variable restricts the design space exactly; freeing restores it.

Correspondence: for generated problems (complete encoder, plus decode-level checks with the fast encoder), every fixable
variable x every value: after fix_des_var the variable disappears from des_vars, the enumerated designs of the restricted
problem are compared with filtering the unfixed enumeration (sandwich: rows with the variable active at that value are
all present, rows with it active at another value are absent, every present row is an original row with that value or
inactive), counts and decodes describe that subset; fix/free sequences up to length 4 (then random) must leave the
problem equal to the one obtained by applying the resulting fixed map to a fresh processor, and equal to the original
after freeing everything; fixing connection-choice variables or out-of-range values must raise and change nothing.
The restriction semantics is the model function Adsg.restrictRows (driver op `restrict`).
"""
import itertools

import numpy as np

from adsg_core.graph.adsg_nodes import ConnectionChoiceNode, DesignVariableNode, SelectionChoiceNode

from .. import proc

RULE = ('seeded problems (streams tame / tree / cons / dv / conn-dv) with the complete encoder; per problem every fixable '
        'variable x every discrete value (continuous: both bounds) and fix/free sequences of length 2-4 plus random ones; a '
        'case is one (problem, fixed map); non-trivial = the fixed variable is conditionally active or the map fixes >= 2 '
        'variables; distinct by content hash')
BUDGET = {'quick': 100, 'thorough': 1500}
JOBS = {'quick': 4, 'thorough': 16}
ASSUMPTIONS = ['which side of the sandwich the code takes for rows where the fixed variable is inactive (selection choice: '
               'dropped, design-variable node: kept) is an implementation choice inside the property\'s sandwich; the model '
               'function restrictRows takes that choice as a parameter read from the variable kind']
LEANCHECK_MODULES = ['Adsg.Model.Proc', 'Adsg.Props.C15']


def enum(gp):
    res = gp.get_all_discrete_x()
    if res is None:
        return None
    xs, acts = res
    return [([float(v) for v in x], [bool(a) for a in act]) for x, act in zip(xs, acts)]


def full_rows(gp, rows, fixed):
    """Rows of a restricted enumeration re-expanded to all variables (fixed columns filled with the fixed value)."""
    n = len(gp.all_des_vars)
    out = []
    for x, act in rows:
        fx, fa = [], []
        it = iter(zip(x, act))
        for i in range(n):
            if i in fixed:
                fx.append(float(fixed[i]))
                fa.append(None)
            else:
                v, a = next(it)
                fx.append(v)
                fa.append(a)
        out.append((tuple(fx), tuple(fa)))
    return out


def check_problem(ctx, rep, spec, i_problem):
    try:
        P = proc.Problem(ctx, spec)
    except Exception as e:
        rep.count('build-exc:' + type(e).__name__)
        return
    if not P.dsg.feasible:
        return
    cls = proc.cls_of(spec)
    inp = {'spec': spec, 'enc': 'COMPLETE'}
    try:
        gp = P.processor('COMPLETE')
        dvs = gp.all_des_vars
        base = enum(gp)
        base_dv_names = [d.name for d in gp.des_vars]
        base_nv = gp.get_n_valid_designs()
    except Exception as e:
        rep.count('ctor-exc:' + type(e).__name__)
        return
    if base is None or not dvs or len(base) > 1500:
        return
    n = len(dvs)
    is_conn = [any(i0 <= i < i1 for _, _, _, i0, i1, _ in gp._conn_choice_data_map.values()) for i in range(n)]
    is_cont = [not dv.is_discrete for dv in dvs]

    def dis(kind, extra, detail, **more):
        rep.disagree(kind, dict(inp, **extra), detail, dict(cls, **more))

    def values(i):
        dv = dvs[i]
        return list(range(dv.n_opts)) if dv.is_discrete else [dv.bounds[0], dv.bounds[1]]

    def expected(fixed):
        """Sandwich for the rows of the restricted problem, in full-vector form (continuous columns ignored)."""
        must, may = set(), set()
        for x, act in base:
            ok_must, ok_may = True, True
            for i, v in fixed.items():
                if is_cont[i]:
                    continue
                if act[i]:
                    if x[i] != v:
                        ok_must = ok_may = False
                else:
                    ok_must = False     # inactive: allowed, not required
            key = tuple('c' if is_cont[j] else xv for j, xv in enumerate(x) if j not in fixed)
            if ok_must:
                must.add(key)
            if ok_may:
                may.add(key)
        return must, may

    def compare(gp_r, fixed, hist):
        case = {'fixed': sorted(fixed.items()), 'history': hist}
        cond = any(dvs[i].conditionally_active for i in fixed)
        rep.case(dict(inp, **case), nontrivial=cond or len(fixed) >= 2, sample=dict(inp, **case) if cond else None)
        rep.count('fixed:%d' % len(fixed))
        names = [d.name for d in gp_r.des_vars]
        exp_names = [d.name for i, d in enumerate(dvs) if i not in fixed]
        if names != exp_names:
            dis('fixed-variable-not-removed', case, {'des_vars': names, 'expected': exp_names})
            return
        for i, v in fixed.items():
            if not gp_r.is_fixed(gp_r.all_des_vars[i]) or gp_r.fixed_value(gp_r.all_des_vars[i]) != v:
                dis('fixed-value-not-reported', case, {'var': i})
        try:
            rows = enum(gp_r)
            nv_f = gp_r.get_n_valid_designs(with_fixed=True)
        except Exception as e:
            dis('restricted-enumeration-exc', case, {'exc': repr(e)[:200]})
            return
        got = full_rows(gp_r, rows, fixed)
        gkeys = [tuple('c' if is_cont[j] else xv for j, xv in enumerate(x) if j not in fixed) for x, _ in got]
        must, may = expected(fixed)
        if len(set(gkeys)) != len(gkeys):
            dis('restricted-duplicate-rows', case, {})
        if must - set(gkeys):
            dis('restricted-design-lost', case, {'lost': sorted(must - set(gkeys))[:3], 'n_must': len(must), 'n_got': len(gkeys)},
                fixed_conditional=cond)
        if set(gkeys) - may:
            dis('restricted-design-not-in-original', case, {'extra': sorted(set(gkeys) - may)[:3]}, fixed_conditional=cond)
        # exact comparison with the model's restriction (Adsg.Proc.restrictRows) on the discrete columns
        kinds = ['conn' if is_conn[j] else ('dv' if isinstance(dvs[j].node, DesignVariableNode) else 'sel') for j in range(n)]
        mrows = [[None if not a else (0 if is_cont[j] else int(v)) for j, (v, a) in enumerate(zip(x, act))] for x, act in base]
        disc_fixed = {i: v for i, v in fixed.items() if not is_cont[i]}
        mr = ctx.driver.ask('restrict', kinds=kinds, n_opts=[(dv.n_opts if dv.is_discrete else 1) for dv in dvs], rows=mrows,
                            ops=[{'op': 'fix', 'i': i, 'v': int(v)} for i, v in sorted(disc_fixed.items())])
        want_rows = sorted((tuple(r) for r in mr['rows']), key=repr)
        got_rows = sorted((tuple(None if (a is False) else (0 if is_cont[j] else int(v)) for j, (v, a) in enumerate(zip(x, act_)))
                           for x, act_ in [(fx, [a if j not in fixed else True for j, a in enumerate(fa)]) for fx, fa in got]), key=repr)
        # fixed columns carry no activeness in the restricted enumeration: compare them on the value only
        def strip(rows_):
            return sorted((tuple('f' if j in fixed else v for j, v in enumerate(r)) for r in rows_), key=repr)
        if strip(got_rows) != strip(want_rows):
            dis('restricted-rows-vs-model', case, {'n_impl': len(got_rows), 'n_model': len(want_rows)}, fixed_conditional=cond)
        if nv_f != len(rows):
            dis('restricted-count-mismatch', case, {'n_valid_with_fixed': int(nv_f), 'rows': len(rows)}, fixed_conditional=cond)
        # decodes of the restricted problem stay inside the restricted set and respect the fixed values
        free_dvs = gp_r.des_vars
        xs, _ = proc.vectors(ctx.rng, free_dvs, 40)
        for x in xs:
            try:
                inst, xi, act = gp_r.get_graph(list(x))
            except Exception as e:
                if rows:
                    dis('restricted-decode-exc', dict(case, x=[float(v) for v in x]), {'exc': repr(e)[:200]}, fixed_conditional=cond)
                continue
            fx = full_rows(gp_r, [([float(v) for v in xi], [bool(a) for a in act])], fixed)[0][0]
            key = tuple('c' if is_cont[j] else xv for j, xv in enumerate(fx) if j not in fixed)
            if key not in set(gkeys):
                dis('restricted-decode-outside-subset', dict(case, x=[float(v) for v in x]), {'decoded': list(fx)}, fixed_conditional=cond)
                break

    # (1) single fixes
    for i in range(n):
        if is_conn[i]:
            try:
                gp.fix_des_var(dvs[i], 0)
                dis('connection-variable-fix-accepted', {'var': i}, {})
                gp.free_des_var(dvs[i])
            except RuntimeError:
                rep.count('reject:conn-var')
            continue
        # out of range
        for bad in ([-1, dvs[i].n_opts] if dvs[i].is_discrete else [dvs[i].bounds[0] - 1, dvs[i].bounds[1] + 1]):
            try:
                gp.fix_des_var(dvs[i], bad)
                dis('out-of-range-fix-accepted', {'var': i, 'value': bad}, {})
                gp.free_des_var(dvs[i])
            except ValueError:
                rep.count('reject:out-of-range')
            if gp.fixed_values:
                dis('rejected-fix-changed-state', {'var': i, 'value': bad}, {'fixed': str(gp.fixed_values)})
        for v in values(i):
            g2 = P.processor('COMPLETE')
            try:
                g2.fix_des_var(g2.all_des_vars[i], v)
            except Exception as e:
                dis('fix-exc', {'var': i, 'value': v}, {'exc': repr(e)[:200]})
                continue
            compare(g2, {i: v}, [['fix', i, v]])
            if ctx.out_of_time():
                return
    # (2) fix/free sequences on one processor; state must equal a fresh processor with the resulting map
    fixable = [i for i in range(n) if not is_conn[i]]
    if not fixable:
        return
    rng = ctx.rng
    for _ in range(ctx.pick(6, 60)):
        L = rng.choice([2, 3, 4, 4, 8])
        gp_h = P.processor('COMPLETE')
        fixed, hist = {}, []
        for _ in range(L):
            i = rng.choice(fixable)
            if i in fixed and rng.random() < .5:
                gp_h.free_des_var(gp_h.all_des_vars[i])
                fixed.pop(i)
                hist.append(['free', i])
            else:
                v = rng.choice(values(i))
                gp_h.fix_des_var(gp_h.all_des_vars[i], v)
                fixed[i] = v
                hist.append(['fix', i, v])
            if rng.random() < .4:
                try:
                    xs, _ = proc.vectors(rng, gp_h.des_vars, 3)
                    for x in xs:
                        gp_h.get_graph(list(x))
                    hist.append(['decodes', len(xs)])
                except Exception:
                    pass
        compare(gp_h, dict(fixed), hist)
        # history independence: same rows as a fresh processor with the same map
        fresh = P.processor('COMPLETE')
        for i, v in sorted(fixed.items()):
            fresh.fix_des_var(fresh.all_des_vars[i], v)
        try:
            a, b_ = enum(gp_h), enum(fresh)
            if sorted(a) != sorted(b_):
                dis('fix-free-history-dependent', {'fixed': sorted(fixed.items()), 'history': hist}, {'n_hist': len(a), 'n_fresh': len(b_)})
        except Exception as e:
            dis('restricted-enumeration-exc', {'history': hist}, {'exc': repr(e)[:200]})
        # free everything: original problem restored
        for i in list(fixed):
            gp_h.free_des_var(gp_h.all_des_vars[i])
        try:
            again = enum(gp_h)
            if [d.name for d in gp_h.des_vars] != base_dv_names or sorted(again) != sorted(base) or gp_h.get_n_valid_designs() != base_nv:
                dis('free-does-not-restore', {'history': hist}, {'n_base': len(base), 'n_again': len(again)})
        except Exception as e:
            dis('free-does-not-restore', {'history': hist}, {'exc': repr(e)[:200]})
        if ctx.out_of_time():
            return


def run(ctx, rep):
    n = ctx.pick(300, 4000)
    i = 0
    for i in range(n):
        spec = proc.gen_problem(ctx.rng, streams=('tame', 'tree', 'cons', 'dv', 'dv', 'conn-dv'))
        if not ctx.mine(i):
            continue
        try:
            check_problem(ctx, rep, spec, i)
        except Exception as e:
            import traceback
            rep.disagree('harness-exc', {'spec': spec}, {'exc': repr(e)[:200], 'tb': traceback.format_exc(limit=5)[-700:]})
        if ctx.out_of_time():
            break
    rep.notes.append('problems generated: %d' % (i + 1))


def replay(ctx, rep, payload):
    check_problem(ctx, rep, payload['input']['spec'], 0)


def replay_finding(ctx, f):
    from ..core import Report
    rep = Report()
    check_problem(ctx, rep, f['replay']['spec'], 0)
    return any(d['kind'] in f.get('kinds', [f.get('kind')]) for d in rep.disagreements)
