"""C11 Connection choices respect connectors in every existence scenario.

Correspondence: generated DSGs with one connection choice whose 1-3 source and 1-3 target connectors are permanent or
tied to selection options, optional grouping node over conditional members, exclusion edges. Compared with the Lean
model (driver op `conn_graph`: Adsg.existenceOf / connSets per architecture):
  * the existence pattern the implementation assigns to every selection-choice combination
    (ConnectionChoiceNode.get_assignment_encoding_args via the processor) - overrides exact;
  * scenarios marked infeasible <=> the model has no valid connection set for that architecture;
  * the resolved graph's ConnectionChoiceNode.iter_conn_edges / validate_conn_edges as a set of matrices;
  * DSG.get_for_apply_connection_choice: exactly the CONNECTS edges of the matrix, no choice node, no exclusion edge,
    reported feasible;
  * GraphProcessor.get_all_discrete_x / get_graph: every decoded instance's connection matrix is a valid set of its
    architecture and all valid sets of every architecture are reached; get_n_valid_designs.
"""
import itertools
import collections

import numpy as np

from adsg_core.graph.adsg_nodes import SelectionChoiceNode, ConnectionChoiceNode, ConnectorNode
from adsg_core.graph.graph_edges import EdgeType
from adsg_core.optimization.graph_processor import GraphProcessor
from adsg_core.optimization.hierarchy import SelChoiceEncoderType

from .. import gen

RULE = ('seeded DSGs: root with 1-2 selection choices (2-3 options), 1-3 source x 1-3 target connectors over the degree '
        'alphabet {0..1, 1, 0..2, 1..2, 2, {0,2}, 0..*, 1..*, 2..*} x repeated yes/no, each under the root or under an '
        'option, optional degree-grouping node over 2-3 connectors, exclusion edges; a case is one (graph, architecture); '
        'non-trivial = the architecture lacks a connector, has a grouping override, or has >= 2 valid connection sets; '
        'distinct by content hash')
BUDGET = {'quick': 110, 'thorough': 1500}
JOBS = {'quick': 4, 'thorough': 16}
ASSUMPTIONS = ['the per-pair parallel-connection cap and the truncation of an open-ended grouping override to [min..nMax] '
               'are implementation conventions modelled as computed',
               'the automatically selected connection encoder is used as is (its correctness is C10/C12); valid sets are '
               'compared through decoded instances, not through encoder tables']
LEANCHECK_MODULES = ['Adsg.Model.ConnGraph', 'Adsg.Props.C11']


def jdeg(c):
    return {'list': sorted(set(c['v']))} if c['kind'] == 'list' else {'min': c['v']}


def model_conn(spec, b, node_map, k):
    """The model's ConnChoice in the implementation's entry order (node_map)."""
    cby = {c['node']: c for c in spec['connectors']}
    groups = {g_['node']: g_['members'] for g_ in spec.get('groups', [])}

    def entry(node):
        i = b.idx[node]
        if i in groups:
            return {'node': i, 'members': [{'node': m, 'deg': jdeg(cby[m]), 'rep': cby[m]['rep']} for m in groups[i]]}
        return {'node': i, 'deg': jdeg(cby[i]), 'rep': cby[i]['rep']}
    src = [entry(nd) for nd in node_map[0]]
    tgt = [entry(nd) for nd in node_map[1]]
    sidx = {b.idx[nd]: i for i, nd in enumerate(node_map[0])}
    tidx = {b.idx[nd]: j for j, nd in enumerate(node_map[1])}
    excluded = [[sidx[a], tidx[c]] for a, c in k.get('excl', []) if a in sidx and c in tidx]
    return {'src': src, 'tgt': tgt, 'excluded': excluded}, sidx, tidx


def instance_matrix(b, inst, sidx, tidx):
    M = [[0] * len(tidx) for _ in sidx]
    odd = []
    for u, v, d in inst.graph.edges(data=True):
        if d.get('type') == EdgeType.CONNECTS:
            iu, iv = b.idx.get(u), b.idx.get(v)
            if iu in sidx and iv in tidx:
                M[sidx[iu]][tidx[iv]] += 1
            else:
                odd.append((str(u), str(v)))
    return M, odd


def sel_row(b, spec, g):
    """Option index of every choice whose originating node exists, read from the origin -> option edges (edges that
    are plain derivation edges of the design space are discounted; parallel edges are counted)."""
    present = set(b.node_ids(g))
    derives = [tuple(e) for e in spec['derives']]
    row = []
    for ci, c in enumerate(spec['sel']):
        if c['o'] not in present:
            row.append(None)
            continue
        base = {}
        for (u, v) in derives:
            if u == c['o']:
                base[v] = base.get(v, 0) + 1
        # edges added by other choices on the same originating node cannot be told apart: rely on counts
        chosen = []
        for k, op in enumerate(c['opts']):
            n_e = g.graph.number_of_edges(b.nodes[c['o']], b.nodes[op]) if b.nodes[op] in g.graph.nodes else 0
            if n_e > base.get(op, 0):
                chosen.append(k)
        row.append(chosen[0] if len(chosen) == 1 else -9)
    return tuple(row)


def flat(M):
    return tuple(v for r in M for v in r)


def check_graph(ctx, rep, spec):
    drv = ctx.driver
    inp = {'spec': spec}
    has_group = bool(spec.get('groups'))
    cby = {c['node']: c for c in spec['connectors']}
    cond_members = has_group and any(any(p != 0 for p, ch in [tuple(e) for e in spec['derives']] if ch == m)
                                     for m in spec['groups'][0]['members'])
    rep_mixed = has_group and len({cby[m]['rep'] for m in spec['groups'][0]['members']}) > 1
    cls = {'grouping': has_group, 'grouping_conditional_members': bool(cond_members), 'group_rep_mixed': bool(rep_mixed),
           'exclusions': bool(spec['conn'][0]['excl'])}
    try:
        b = gen.build(spec)
    except Exception as e:
        rep.disagree('build-exc', inp, {'exc': repr(e)[:200]}, cls)
        return
    cc = b.conn_nodes[0]
    k = spec['conn'][0]
    # model needs the implementation's entry order: take it from the unresolved graph
    node_map0 = (cc.get_src_nodes(b.dsg.graph), cc.get_tgt_nodes(b.dsg.graph)) if cc in b.dsg.graph.nodes else None
    if node_map0 is None:
        rep.count('graph:conn-choice-removed-at-init')
        return
    mconn, sidx, tidx = model_conn(spec, b, node_map0, k)
    m = drv.ask('conn_graph', g=gen.model_graph(spec), conn=[mconn], max_sets=300)
    archs = {tuple(a['row']): a for a in m['archs']}
    # an architecture without any source connector has no connection choice; it is a design iff the zero matrix is
    # valid (every existing target accepts 0 connections) - the same enumSpec with all sources overridden to [0]
    n_total_model = sum(a['conn'][0]['n_sets'] for a in archs.values())
    rep.count('graph:%s' % ('grouping' if has_group else 'plain'))
    if not b.dsg.feasible:
        rep.count('graph:init-infeasible')
        return
    try:
        gp = GraphProcessor(b.dsg, encoder_type=SelChoiceEncoderType.COMPLETE)
        dvs = gp.des_vars
    except Exception as e:
        if n_total_model > 0:
            rep.disagree('processor-ctor-exc', inp, {'exc': repr(e)[:300], 'model_designs': n_total_model}, cls)
        else:
            rep.count('ctor-error:no-design')
        return
    an = gp._hierarchy_analyzer
    mgr, node_map, exist_map, i0, i1, all_conn_nodes = gp._conn_choice_data_map[cc]
    if [b.idx[nd] for nd in node_map[0]] != [e['node'] for e in mconn['src']] or \
            [b.idx[nd] for nd in node_map[1]] != [e['node'] for e in mconn['tgt']]:
        rep.disagree('entry-order-changed', inp, {}, cls)
        return
    patterns = mgr.matrix_gen.existence_patterns.patterns
    combs = an.get_choice_option_indices()
    # (1) pattern per selection-choice combination
    if combs is not None and not isinstance(exist_map, dict):
        for i_comb, comb in enumerate(combs):
            row = tuple(None if v < 0 else int(v) for v in comb)
            a = archs.get(row)
            case = dict(inp, row=list(row))
            if a is None:
                rep.disagree('combination-not-an-architecture', case, {}, cls)
                continue
            mc = a['conn'][0]
            ie = int(exist_map[i_comb])
            nontrivial = (not all(v is None for v in mc['pattern']['src'] + mc['pattern']['tgt'])) or mc['n_sets'] >= 2
            rep.case(case, nontrivial=nontrivial, sample=case if nontrivial else None)
            rep.count('arch:%s' % ('absent-choice' if not mc['present'] else ('no-set' if mc['n_sets'] == 0 else 'has-sets')))
            if not mc['present']:
                continue   # no pattern is used for it; feasibility is checked at processor level below
            if ie == -1:
                if mc['n_sets'] > 0:
                    rep.disagree('feasible-scenario-excluded', case, {'model_sets': mc['n_sets'], 'pattern': mc['pattern']}, cls)
                continue
            p = patterns[ie]
            impl_pat = {'src': [p.src_n_conn_override.get(i) for i in range(len(node_map[0]))],
                        'tgt': [p.tgt_n_conn_override.get(j) for j in range(len(node_map[1]))]}
            impl_pat = {s_: [None if v is None else [int(x) for x in v] for v in vs] for s_, vs in impl_pat.items()}
            if impl_pat != mc['pattern']:
                rep.disagree('existence-pattern', case, {'impl': impl_pat, 'model': mc['pattern']}, cls)
                continue
            if mc['n_sets'] == 0:
                rep.disagree('infeasible-scenario-kept', case, {'pattern': mc['pattern']}, cls)
    # (2) resolved graph: iter_conn_edges / validate / apply
    for row, a in list(archs.items())[:6]:
        mc = a['conn'][0]
        if not mc['present'] or mc['n_sets_graph'] > 300:
            continue
        g = b.dsg
        ok = True
        for _ in range(len(spec['sel']) + 1):
            nxt = [c for c in g.get_ordered_next_choice_nodes() if isinstance(c, SelectionChoiceNode)]
            if not nxt:
                break
            c = nxt[0]
            ci = b.cidx[c]
            if row[ci] is None:
                ok = False
                break
            try:
                g = g.get_for_apply_selection_choice(c, b.nodes[spec['sel'][ci]['opts'][row[ci]]])
            except Exception:
                ok = False
                break
        if not ok or sel_row(b, spec, g) != row or cc not in g.graph.nodes:
            rep.count('resolved-graph:skipped')
            continue
        case = dict(inp, row=list(row))
        want = {flat(M) for M in mc['sets_graph']}
        if mc['n_sets_graph'] != mc['n_sets']:
            rep.count('note:graph-level-and-processor-level-parallel-cap-differ')
        try:
            got = set()
            for edges in cc.iter_conn_edges(g):
                M = [[0] * len(tidx) for _ in sidx]
                for u, v in edges:
                    M[sidx[b.idx[u]]][tidx[b.idx[v]]] += 1
                got.add(flat(M))
            if got != want:
                rep.disagree('iter-conn-edges-set', case, {'impl_only': sorted(got - want)[:3], 'model_only': sorted(want - got)[:3],
                                                           'n_impl': len(got), 'n_model': len(want)}, cls)
        except Exception as e:
            rep.disagree('iter-conn-edges-exc', case, {'exc': repr(e)[:200]}, cls)
            continue
        src_nodes = [b.nodes[e['node']] for e in mconn['src']]
        tgt_nodes = [b.nodes[e['node']] for e in mconn['tgt']]
        for Mf in sorted(want)[:4]:
            edges = [(src_nodes[i], tgt_nodes[j]) for i in range(len(sidx)) for j in range(len(tidx))
                     for _ in range(Mf[i * len(tidx) + j])]
            if not all(u in g.graph.nodes and v in g.graph.nodes for u, v in edges):
                rep.disagree('valid-set-uses-absent-connector', dict(case, M=list(Mf)), {}, cls)
                continue
            try:
                if not cc.validate_conn_edges(g, edges):
                    rep.disagree('validate-conn-edges', dict(case, M=list(Mf)), {'impl': False, 'model': True}, cls)
                inst = g.get_for_apply_connection_choice(cc, edges)
                Mi, odd = instance_matrix(b, inst, sidx, tidx)
                has_excl = any(d.get('type') == EdgeType.EXCLUDES for _, _, d in inst.graph.edges(data=True))
                if flat(Mi) != Mf or odd or cc in inst.graph.nodes or has_excl:
                    rep.disagree('apply-connection-edges', dict(case, M=list(Mf)), {'instance': Mi, 'odd': odd, 'choice_left': cc in inst.graph.nodes,
                                                                                    'exclusion_edge_left': has_excl}, cls)
                if not inst.feasible:
                    rep.disagree('valid-set-instance-infeasible', dict(case, M=list(Mf)), {}, cls)
            except Exception as e:
                rep.disagree('apply-connection-exc', dict(case, M=list(Mf)), {'exc': repr(e)[:200]}, cls)
    # (3) processor level
    try:
        res = gp.get_all_discrete_x()
        nv = gp.get_n_valid_designs()
    except Exception as e:
        rep.disagree('enumeration-exc', inp, {'exc': repr(e)[:300]}, cls)
        return
    if res is None:
        return
    xs, acts = res
    dv_part = 1
    if nv != n_total_model:
        rep.disagree('n-valid-designs', inp, {'impl': int(nv), 'model': n_total_model}, cls)
    got_sets = collections.defaultdict(set)
    if len(xs) > ctx.pick(150, 600):
        idx = ctx.rng.sample(range(len(xs)), ctx.pick(150, 600))
        partial = True
    else:
        idx, partial = range(len(xs)), False
    for ix in idx:
        x = [int(v) for v in xs[ix]]
        case = dict(inp, x=x)
        try:
            inst, xi, act = gp.get_graph(x)
        except Exception as e:
            rep.disagree('decode-exc', case, {'exc': repr(e)[:300]}, cls)
            continue
        row = sel_row(b, spec, inst)
        a = archs.get(row)
        if a is None:
            rep.disagree('decoded-instance-not-an-architecture', case, {'row': list(row)}, cls)
            continue
        mc = a['conn'][0]
        Mi, odd = instance_matrix(b, inst, sidx, tidx)
        if not inst.final or cc in inst.graph.nodes:
            rep.disagree('instance-not-final', case, {}, cls)
        if odd:
            rep.disagree('connection-edge-outside-choice', case, {'edges': odd}, cls)
        if True:
            if mc['n_sets'] <= 300 and flat(Mi) not in {flat(M) for M in mc['sets']}:
                rep.disagree('invalid-connection-set', case, {'row': list(row), 'M': Mi, 'pattern': mc['pattern']}, cls)
            elif not inst.feasible:
                rep.disagree('valid-set-instance-infeasible', case, {'row': list(row), 'M': Mi}, cls)
        got_sets[row].add(flat(Mi))
        if [int(v) for v in xi] != x:
            rep.disagree('enumerated-row-not-fixed-point', case, {'xi': [int(v) for v in xi]}, cls)
    if not partial:
        for row, a in archs.items():
            mc = a['conn'][0]
            if 0 < mc['n_sets'] <= 300:
                want = {flat(M) for M in mc['sets']}
                if got_sets.get(row, set()) != want:
                    rep.disagree('scenario-sets-lost', dict(inp, row=list(row)),
                                 {'missing': len(want - got_sets.get(row, set())), 'n_model': len(want),
                                  'n_impl': len(got_sets.get(row, set()))}, cls)
            elif mc['n_sets'] == 0 and got_sets.get(row):
                rep.disagree('infeasible-scenario-decoded', dict(inp, row=list(row)), {}, cls)


def run(ctx, rep):
    n = ctx.pick(160, 4000)
    i = 0
    for i in range(n):
        spec = gen.gen_conn(ctx.rng)
        if not ctx.mine(i):
            continue
        try:
            check_graph(ctx, rep, spec)
        except Exception as e:
            import traceback
            rep.disagree('harness-exc', {'spec': spec}, {'exc': repr(e)[:200], 'tb': traceback.format_exc(limit=4)[-600:]})
        if ctx.out_of_time():
            break
    rep.notes.append('graphs generated: %d' % (i + 1))


def replay(ctx, rep, payload):
    check_graph(ctx, rep, payload['input']['spec'])


def replay_finding(ctx, f):
    from ..core import Report
    rep = Report()
    check_graph(ctx, rep, f['replay']['spec'])
    return any(d['kind'] in f.get('kinds', [f.get('kind')]) for d in rep.disagreements)
