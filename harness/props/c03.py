"""C03 The corrected design vector is a canonical fixed point describing the instance.\n\nCorrespondence: see harness/procpass.py - corrected vector in range, decode(decode(x).x) = decode(x), active selection\nvariables name the wired option (through DesVar.options), DV nodes carry the reported values, one design per corrected\nvector and one corrected vector per design."""
from .. import proc, procpass

KINDS = {'corrected-out-of-range', 'not-idempotent', 'vector-does-not-describe-instance', 'same-vector-different-design', 'same-design-different-vectors', 'dv-value-not-reported', 'lean-decode-vector'}
RULE = ('seeded problems from streams (tame, tree, cons, dv, conn, conn-dv) x both selection encoders; per problem every vector of the declared design space when <= 200 vectors (continuous variables at 3 sample points), else 200 samples; a case is one (problem, encoder); non-trivial = >= 2 architectures or a connection choice or DV nodes; distinct by content hash')
BUDGET = {'quick': 110, 'thorough': 1500}
JOBS = {'quick': 4, 'thorough': 16}
ASSUMPTIONS = ['the complete encoder\'s correction target, the encoder tables and the declared (non-forced) selection variables are read from the implementation and validated, not predicted', 'instances are compared through their semantic content: selection row, connection matrices, DV-node values, node set']
LEANCHECK_MODULES = ['Adsg.Model.Decode', 'Adsg.Props.C03']
ENCODERS = ('COMPLETE', 'FAST')
STREAMS = ('tame', 'tree', 'cons', 'dv', 'conn', 'conn-dv')


def check(ctx, rep, spec, enc):
    try:
        return procpass.run_pass(ctx, rep, spec, enc, KINDS, want_enum=False)
    except Exception as e:
        import traceback
        rep.disagree('harness-exc', {'spec': spec, 'enc': enc}, {'exc': repr(e)[:200], 'tb': traceback.format_exc(limit=5)[-700:]})


def run(ctx, rep):
    n = ctx.pick(300, 6000)
    i = 0
    for i in range(n):
        spec = proc.gen_problem(ctx.rng, streams=STREAMS)
        if not ctx.mine(i):
            continue
        for enc in ENCODERS:
            check(ctx, rep, spec, enc)
            if ctx.out_of_time():
                break
        if ctx.out_of_time():
            break
    rep.notes.append('problems generated: %d' % (i + 1))


def replay(ctx, rep, payload):
    check(ctx, rep, payload['input']['spec'], payload['input']['enc'])


def replay_finding(ctx, f):
    from ..core import Report
    rep = Report()
    check(ctx, rep, f['replay']['spec'], f['replay']['enc'])
    return any(d['kind'] in f.get('kinds', [f.get('kind')]) and
               all(d['cls'].get(k) == v for k, v in f.get('class', {}).items()) for d in rep.disagreements)
