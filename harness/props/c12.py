"""C12 Encoder selection always succeeds and disk caches are transparent.

Correspondence:
  (S) EncoderSelector._get_best on generated score tables vs Adsg.getBest (exact, function level);
  (A) automatic selection on generated connector settings (incl. degenerate ones) under a private cache directory:
      must return a manager satisfying the C10 contract; settings with <= 1 connection set in total get no variables;
      cold vs warm selection cache (same coding), tiny time limits, a second interpreter with another hash seed that
      reads the cache written by the first;
  (M) matrix cache: get_agg_matrix(cache=True) cold / warm / cache=False equal per pattern;
  (K) cache keys of pairs of settings vs equality of the structured key of the Lean model (Adsg.keyOf): equal real
      keys for model-different settings = collision (violation); different real keys for model-equal settings counted.
"""
import itertools
import json
import math
import os
import subprocess
import sys

import numpy as np
import pandas as pd

from adsg_core.optimization.assign_enc.selector import EncoderSelector
from adsg_core.optimization.assign_enc.matrix import AggregateAssignmentMatrixGenerator, NodeExistence

from .. import encmgr
from . import c09, c10

RULE = ('function level: 400 seeded score tables (1-6 rows over a grid of imputation ratios, information indices and '
        'distance correlations incl. NaN) x by_inf_idx x n_priority; selection: seeded connector settings (1-2 x 1-3 '
        'nodes, patterns, exclusions; every third one degenerate) with cold cache, warm cache, tiny time limit, and for a '
        'subset a second interpreter with another PYTHONHASHSEED; keys: all pairs among 12 variants of each settings '
        '(permuted exclusions, changed node, changed pattern, changed limit); a case is one table / one (settings, '
        'cache state) / one pair; non-trivial = table with >= 2 rows, settings with >= 2 connection sets, pair of '
        'model-different settings; distinct by content hash')
BUDGET = {'quick': 110, 'thorough': 1500}
JOBS = {'quick': 4, 'thorough': 16}
ASSUMPTIONS = ['time limits, pickling, md5 / hash() digests and the numeric stack are outside the Lean model; they are '
               'exercised (installed versions only), not proved',
               'encoder scoring (imputation ratio, information index, distance correlation) is not modelled; only the '
               'decision logic over a score table is']
LEANCHECK_MODULES = ['Adsg.Model.Cache', 'Adsg.Model.Select', 'Adsg.Props.C12']

IMP = [1.0, 1.5, 5., 10., 25., 40., 70., 100., 300.]
INF = [0., .2, .35, .5, .7, 1.]
DC = [math.nan, -.5, 0., .2, .35, .5, .7, .9, 1.]


def check_get_best(ctx, rep):
    drv = ctx.driver
    sel = EncoderSelector(None)
    rng = ctx.rng
    for _ in range(ctx.pick(400, 5000)):
        n = rng.randint(1, 6)
        rows = [(rng.choice(IMP), rng.choice(INF), rng.choice(DC)) for _ in range(n)]
        df = pd.DataFrame({'n_des_pts': [1] * n, 'imp_ratio': [r[0] for r in rows], 'inf_idx': [r[1] for r in rows],
                           'dist_corr': [r[2] for r in rows]})
        by_inf = rng.random() < .5
        npri = rng.choice([None, None, 4, 5, 2])
        inp = {'fn': '_get_best', 'rows': [[r[0], r[1], None if math.isnan(r[2]) else r[2]] for r in rows],
               'by_inf': by_inf, 'n_priority': npri}
        try:
            got = sel._get_best(df, knows_n_mat=True, n_priority=npri, by_inf_idx=by_inf)
            got = None if got is None else int(got)
        except Exception as e:
            got = 'exc:' + type(e).__name__
        exp = drv.ask('get_best', one=100, limits=[int(l * 100) for l in sel.imputation_ratio_limits],
                      min_corr=int(round(sel.min_distance_correlation * 100)),
                      scores=[{'imp': int(round(r[0] * 100)), 'inf': int(round(r[1] * 100)),
                               'dc': None if math.isnan(r[2]) else int(round(r[2] * 100))} for r in rows],
                      by_inf=by_inf, n_priority=npri)
        rep.case(inp, nontrivial=n >= 2)
        rep.count('get_best:' + ('inf' if by_inf else 'dc'))
        if got != exp:
            # ties: the implementation's argmax/argmin takes the first of equal rows, as the model does; report all
            rep.disagree('get-best', inp, {'impl': got, 'model': exp})


def decode_table(mgr, pats, limit=120):
    """pats: only patterns that admit at least one valid matrix (the property speaks about those)."""
    n_opts = [int(dv.n_opts) for dv in mgr.design_vars]
    xs = list(itertools.islice(itertools.product(*[range(n) for n in n_opts]), limit))
    out = []
    for p in pats:
        for x in xs:
            xi, act, M = mgr.get_matrix(list(x), existence=p)
            out.append([[int(v) for v in xi], [bool(a) for a in act], [int(v) for v in np.array(M).ravel()]])
    return {'encoder': str(mgr.encoder), 'n_opts': n_opts, 'table': out}


CHILD = r'''
import sys, json, os
sys.path.insert(0, %(verif)r)
from harness import encmgr
from harness.props import c09, c12
from adsg_core.optimization.assign_enc.selector import EncoderSelector
case = json.loads(sys.stdin.read())
sspec, tspec, excluded, exists, _ = c09.from_json(case)
pats = [c09.mk_exist(ex) for ex in exists]
mkset = encmgr.settings_factory(sspec, tspec, excluded, pats)
sel = EncoderSelector(mkset())
path = sel._cache_path(sel._get_cache_key() + '.pkl')
hit = os.path.exists(path)
mgr = sel.get_best_assignment_manager()
print(json.dumps({'hit': hit, 'table': c12.decode_table(mgr, [p for p, v in zip(pats, case['valid']) if v])}))
'''


def check_selection(ctx, rep, sspec, tspec, excluded, exists, other_process=False):
    drv = ctx.driver
    pats, uex = [], []
    for ex in exists:
        p = c09.mk_exist(ex)
        if p not in pats:
            pats.append(p)
            uex.append(ex)
    exists = uex
    ns, nt = len(sspec), len(tspec)
    mkset = encmgr.settings_factory(sspec, tspec, excluded, pats)
    js = encmgr.jsettings(sspec, tspec, excluded)
    jes = [c09.jexist(ns, nt, ex) for ex in exists]
    inp = {'s': js, 'es': jes}
    n_valid = [len(drv.ask('matrices', s=js, e=je)['spec']) for je in jes]
    total = sum(n_valid)
    cls = {'degenerate': total <= 1, 'n_patterns': len(pats)}
    rep.count('settings:%s' % ('degenerate' if total <= 1 else 'regular'))

    def select(tag, timeout=None):
        sel = EncoderSelector(mkset())
        if timeout is not None:
            sel.encoding_timeout = timeout
        try:
            return sel, sel.get_best_assignment_manager()
        except Exception as e:
            rep.disagree('selection-failed', dict(inp, stage=tag), {'exc': repr(e)[:300]}, dict(cls, stage=tag))
            return sel, None
    # cold
    sel, mgr = select('cold')
    rep.case(dict(inp, cache='cold'), nontrivial=total >= 2, sample=dict(inp, cache='cold') if total >= 2 else None)
    if mgr is None:
        return
    rep.count('selected:' + type(mgr.encoder).__name__, 'stage:%s' % sel._last_selection_stage)
    if total <= 1 and len(mgr.design_vars) != 0:
        rep.disagree('degenerate-settings-with-variables', inp, {'n_vars': len(mgr.design_vars), 'encoder': str(mgr.encoder)}, cls)
    if total >= 1:
        encmgr.contract_check(ctx, rep, mgr, sspec, tspec, excluded, exists, pats, dict(inp, selected=str(mgr.encoder)),
                              dict(cls, kind=encmgr.family(mgr), selected=True, encoder=type(mgr.encoder).__name__,
                                   imputer=type(getattr(mgr.encoder, '_imputer', None)).__name__), limit=120)
    try:
        vpats = [p for p, n in zip(pats, n_valid) if n > 0]
        t_cold = decode_table(mgr, vpats)
    except Exception as e:
        rep.disagree('decode-table-exc', inp, {'exc': repr(e)[:200]}, cls)
        return
    # warm (selection cache hit)
    _, mgr_w = select('warm')
    rep.case(dict(inp, cache='warm'), nontrivial=total >= 2)
    if mgr_w is not None:
        t_warm = decode_table(mgr_w, vpats)
        if t_warm != t_cold:
            rep.disagree('warm-cache-differs', inp, {'cold': t_cold['encoder'], 'warm': t_warm['encoder']}, cls)
    # tiny time limit, cache bypassed
    t_tiny = None
    sel_t = EncoderSelector(mkset())
    sel_t.encoding_timeout = 0.003
    rep.case(dict(inp, cache='tiny-timeout'), nontrivial=total >= 2)
    try:
        mgr_t = sel_t.get_best_assignment_manager(cache=False)
        rep.count('tiny-timeout:selected:' + type(mgr_t.encoder).__name__)
        # cache=False only bypasses reading: the selection made under the tiny limit is written to the selection cache
        # and is what later readers get (a freshly computed result too, under another time limit)
        try:
            t_tiny = decode_table(mgr_t, vpats)
        except Exception:
            t_tiny = None
        if total >= 1:
            encmgr.contract_check(ctx, rep, mgr_t, sspec, tspec, excluded, exists, pats, dict(inp, timeout=0.003),
                                  dict(cls, kind=encmgr.family(mgr_t), selected=True, tiny_timeout=True, encoder=type(mgr_t.encoder).__name__,
                                       imputer=type(getattr(mgr_t.encoder, '_imputer', None)).__name__), limit=60)
    except Exception as e:
        rep.disagree('selection-failed', dict(inp, stage='tiny-timeout'), {'exc': repr(e)[:300]},
                     dict(cls, stage='tiny-timeout', n_valid_total=min(total, 2), advises_longer_timeout='try increasing timeout' in str(e)))
    # matrix cache
    gen_c = AggregateAssignmentMatrixGenerator(mkset())
    fresh = {p: sorted(encmgr.tup(m) for m in mats) for p, mats in gen_c.get_agg_matrix(cache=False).items()}
    for tag in ('cached-1', 'cached-2'):
        g2 = AggregateAssignmentMatrixGenerator(mkset())
        got = {p: sorted(encmgr.tup(m) for m in mats) for p, mats in g2.get_agg_matrix(cache=True).items()}
        rep.case(dict(inp, matrix_cache=tag), nontrivial=total >= 2)
        if got != fresh:
            rep.disagree('matrix-cache-differs', dict(inp, stage=tag), {}, cls)
    # another process with another hash seed reads the selection cache
    if other_process:
        env = dict(os.environ)
        env['PYTHONHASHSEED'] = str(ctx.rng.randint(1, 10000))
        env['NUMBA_NUM_THREADS'] = '1'
        try:
            out = subprocess.run([sys.executable, '-c', CHILD % {'verif': os.path.dirname(os.path.dirname(os.path.dirname(os.path.abspath(__file__))))}],
                                 input=json.dumps({'s': js, 'e': jes, 'valid': [n > 0 for n in n_valid]}), capture_output=True, text=True, env=env, timeout=300)
            res = json.loads(out.stdout.strip().split('\n')[-1])
            rep.case(dict(inp, cache='other-process'), nontrivial=total >= 2)
            rep.count('other-process:cache-hit' if res['hit'] else 'other-process:cache-miss')
            if res['table'] != t_cold and res['table'] != t_tiny:
                rep.disagree('other-process-differs', inp, {'hit': res['hit'], 'cold': t_cold['encoder'],
                                                            'other': res['table']['encoder']}, cls)
        except Exception as e:
            rep.disagree('other-process-failed', inp, {'exc': repr(e)[:300]}, cls)


def key_variants(rng, sspec, tspec, excluded, exists):
    """Variants of one settings object: some semantically equal (permuted exclusions), most different."""
    ns, nt = len(sspec), len(tspec)
    out = [(sspec, tspec, list(excluded), exists, None)]
    ex2 = list(excluded)
    rng.shuffle(ex2)
    out.append((sspec, tspec, ex2, exists, None))
    out.append((sspec, tspec, list(excluded) + [(0, 0)] if (0, 0) not in excluded else [e for e in excluded if e != (0, 0)], exists, None))
    s2 = list(sspec)
    s2[0] = (s2[0][0], not s2[0][1])
    out.append((s2, tspec, list(excluded), exists, None))
    t2 = list(tspec)
    t2[-1] = (rng.choice([a for a in c09.ALPHA[:10] if a != t2[-1][0]]), t2[-1][1])
    out.append((sspec, t2, list(excluded), exists, None))
    out.append((sspec, tspec, list(excluded), exists, 3))
    out.append((sspec, tspec, list(excluded), exists + [c09.gen_existence(rng, ns, nt)], None))
    out.append((sspec, tspec, list(excluded), list(reversed(exists)), None))
    out.append((tspec, sspec, [(b, a) for a, b in excluded], [{'src': e['tgt'], 'tgt': e['src']} for e in exists], None))
    return out


def check_keys(ctx, rep, sspec, tspec, excluded, exists):
    drv = ctx.driver
    variants = []
    for (ss, ts, ex, es, par) in key_variants(ctx.rng, sspec, tspec, excluded, exists):
        pats, ues = [], []
        for e in es:
            p = c09.mk_exist(e)
            if p not in pats:
                pats.append(p)
                ues.append(e)
        try:
            key = encmgr.settings_factory(ss, ts, ex, pats, par)().get_cache_key()
        except Exception as e:
            rep.disagree('cache-key-exc', {'s': encmgr.jsettings(ss, ts, ex, par)}, {'exc': repr(e)[:200]})
            continue
        variants.append((key, {'s': encmgr.jsettings(ss, ts, ex, par), 'es': [c09.jexist(len(ss), len(ts), e) for e in ues]}))
    for (k1, a), (k2, b) in itertools.combinations(variants, 2):
        same_model = drv.ask('key_eq', a=a, b=b)
        rep.case({'a': a, 'b': b}, nontrivial=not same_model)
        if k1 == k2 and not same_model:
            rep.disagree('cache-key-collision', {'a': a, 'b': b}, {'key': k1})
        elif k1 != k2 and same_model:
            rep.count('note:equivalent-settings-different-keys')
        else:
            rep.count('keys:agree')


def gen_case(rng, degenerate=False):
    if degenerate:
        ns, nt = rng.choice([(1, 1), (1, 2), (2, 1)])
        alpha = [('list', [1]), ('list', [0]), ('list', [2]), ('min', 1), ('list', [0, 1])]
        sspec = [(rng.choice(alpha[:3]), False) for _ in range(ns)]
        tspec = [(rng.choice(alpha), rng.random() < .5) for _ in range(nt)]
        return sspec, tspec, [], [{'src': {}, 'tgt': {}}]
    return c10.gen_case(rng)


def run(ctx, rep):
    if ctx.shard == 0:
        check_get_best(ctx, rep)
    n = ctx.pick(40, 1500)
    i = 0
    for i in range(n):
        case = gen_case(ctx.rng, degenerate=(i % 3 == 2))
        if not ctx.mine(i):
            continue
        check_keys(ctx, rep, *case)
        check_selection(ctx, rep, *case, other_process=(i % 8 == 0))
        if ctx.out_of_time():
            break
    rep.notes.append('settings generated: %d' % (i + 1))


def replay(ctx, rep, payload):
    inp = payload['input']
    if 'rows' in inp or 'a' in inp:
        check_get_best(ctx, rep)
        return
    sspec, tspec, excluded, exists, _ = c09.from_json({'s': inp['s'], 'e': inp['es']})
    check_selection(ctx, rep, sspec, tspec, excluded, exists, other_process=True)


def replay_finding(ctx, f):
    from ..core import Report
    rep = Report()
    inp = f['replay']
    sspec, tspec, excluded, exists, _ = c09.from_json({'s': inp['s'], 'e': inp['es']})
    check_selection(ctx, rep, sspec, tspec, excluded, exists)
    return any(d['kind'] in f.get('kinds', [f.get('kind')]) for d in rep.disagreements)
