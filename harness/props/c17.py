"""C17 Metrics are classified and evaluated according to the documented contract.

Correspondence: generated DSGs with metric nodes of every direction / reference / declared-type combination hung
under permanent and conditional nodes; GraphProcessor.objectives / constraints and DSGEvaluator.evaluate on every
architecture with evaluators returning complete, partial and NaN maps, compared with Adsg.roleOf / classify /
evaluate (driver op `metrics`). The permanent-node set is read from the implementation and validated by the driver
(`perm ⊆ every admissible closure`), then used as the oracle of the classification.
"""
import itertools
import math

from adsg_core.optimization.evaluator import DSGEvaluator
from adsg_core.optimization.hierarchy import SelChoiceEncoderType
from adsg_core.graph.adsg_nodes import MetricNode

from .. import gen

RULE = ('exhaustive single-metric family (3 directions x 3 refs x 5 declared types x permanent/conditional = 90 graphs) '
        'plus seeded random tree/tame DSGs with 1-4 metric nodes; per graph: classification, then every architecture '
        '(all selection vectors) x 3 evaluator behaviours (complete / partial / NaN); a case is one (graph, vector, '
        'evaluator); non-trivial = graph has a conditional metric, a declared type, or an ambiguous metric; distinct by '
        'content hash')
BUDGET = {'quick': 45, 'thorough': 600}
JOBS = {'quick': 2, 'thorough': 16}
ASSUMPTIONS = ['metric values are opaque: the model says which evaluator entry / NaN / reference is reported, the harness '
               'compares with the floats the evaluator produced (NaN compared as a tag)',
               'the permanent-node set is read from the implementation and validated (subset of every admissible '
               'closure), not predicted: auto-resolution of single-option choices is an implementation detail']
LEANCHECK_MODULES = ['Adsg.Model.Metrics', 'Adsg.Props.C17']


class Ev(DSGEvaluator):
    mode = 'complete'

    def _evaluate(self, dsg, metric_nodes):
        out = {}
        for k, m in enumerate(sorted(metric_nodes, key=lambda n: n.name)):
            if self.mode == 'partial' and k % 2 == 1:
                continue
            if self.mode == 'zero':      # exact zeros, negative values and -0.0 are values like any other
                out[m] = (0., -3.5, -0.)[k % 3]
                continue
            out[m] = math.nan if self.mode == 'nan' else 100. + int(m.name[1:])
        return out


def family_specs():
    """Every direction x ref x declared type, under a permanent and under a conditional node."""
    out = []
    for d in (None, -1, 1):
        for ref in (None, 0., 2.5):
            for decl in (None, 'none', 'objective', 'constraint', 'obj_or_con'):
                for parent in (0, 1):
                    spec = {'n': 4, 'derives': [[parent, 3]], 'sel': [{'o': 0, 'opts': [1, 2]}], 'start': [0],
                            'incompat': [], 'cons': [],
                            'metrics': [{'name': 0, 'node': 3, 'dir': d, 'ref': ref, 'decl': decl}]}
                    out.append(spec)
    return out


def check_graph(ctx, rep, spec):
    drv = ctx.driver
    try:
        b = gen.build(spec)
    except Exception as e:
        rep.count('build-exc:' + type(e).__name__)
        return
    if not b.dsg.feasible:
        rep.count('graph:init-infeasible')
        return
    try:
        gp = Ev(b.dsg, encoder_type=SelChoiceEncoderType.COMPLETE)
        dvs = gp.des_vars
    except Exception as e:
        rep.count('ctor-exc:' + type(e).__name__)
        return
    ms = spec['metrics']
    name_of = {b.nodes[m['node']]: m['name'] for m in ms}
    perm = sorted(b.idx[n] for n in gp.permanent_nodes if n in b.idx)
    try:
        objs = [name_of[o.node] for o in gp.objectives]
        cons = [name_of[c.node] for c in gp.constraints]
        crefs = [c.ref for c in gp.constraints]
        impl_ok = True
    except RuntimeError:
        objs = cons = crefs = None
        impl_ok = False
    in_graph = {name_of[n] for n in gp.metric_nodes}
    dropped = [m['node'] for m in ms if m['name'] not in in_graph]
    ms = [m for m in ms if m['name'] in in_graph]
    mmetrics = [{'name': m['name'], 'node': m['node'], 'dir': m['dir'] is not None, 'ref': m['ref'] is not None,
                 'decl': m['decl']} for m in ms]
    # architectures
    rows = list(itertools.product(*[range(dv.n_opts) for dv in dvs]))
    if len(rows) > 30:
        rows = ctx.rng.sample(rows, 30)
    evals, insts = [], []
    if impl_ok:
        for x in rows:
            try:
                inst, _, _ = gp.get_graph(list(x))
            except Exception as e:
                rep.count('decode-exc:' + type(e).__name__)
                continue
            for mode in ('complete', 'partial', 'nan', 'zero'):
                gp.mode = mode
                inst_m = inst.copy()
                vals = gp._evaluate(inst_m, inst_m.metric_nodes)
                try:
                    o, c = gp.evaluate(inst_m)
                except Exception as e:
                    rep.disagree('evaluate-exc', {'spec': spec, 'x': list(x), 'mode': mode}, {'exc': repr(e)})
                    continue
                arch = b.node_ids(inst_m)
                # value ids: index into a list of the evaluator's floats
                vlist = [(name_of[k], v) for k, v in vals.items()]
                evals.append({'arch': arch, 'vals': [[nm, i] for i, (nm, _) in enumerate(vlist)]})
                insts.append((x, mode, o, c, vlist, inst_m))
    r = drv.ask('metrics', g=gen.model_graph(spec), metrics=mmetrics, perm=perm, evals=evals, dropped=dropped)
    inp = {'spec': spec}
    conditional = any(m['node'] not in perm for m in ms)
    nontrivial = conditional or any(m['decl'] for m in ms) or not r['ok']
    if not r['perm_in_every_arch']:
        rep.disagree('permanent-node-not-in-every-architecture', inp, {'perm': perm, 'model_perm': r['model_perm']})
    if not r['dropped_never_exist']:
        rep.disagree('metric-dropped-although-it-exists-in-an-architecture', inp, {'dropped': dropped})
    if dropped:
        rep.count('note:metric-node-pruned-from-initial-graph')
    if not r['perm_contains_confirmed']:
        rep.count('note:perm-smaller-than-confirmed')
    rep.count('classify:' + ('ok' if r['ok'] else 'ambiguous'))
    if r['ok'] != impl_ok:
        rep.disagree('classification-error-mismatch', inp, {'impl_ok': impl_ok, 'model_ok': r['ok']})
    elif impl_ok:
        m_objs = [x['name'] for x in r['roles'] if x['role'] == 'objective']
        m_cons = [x['name'] for x in r['roles'] if x['role'] == 'constraint']
        for x in r['roles']:
            rep.count('role:' + x['role'])
        if objs != m_objs or cons != m_cons:
            rep.disagree('classification', inp, {'impl': [objs, cons], 'model': [m_objs, m_cons]})
        else:
            ref_by_name = {m['name']: m['ref'] for m in ms}
            for (x, mode, o, c, vlist, inst_m), me in zip(insts, r['evals']):
                case = {'spec': spec, 'x': list(x), 'mode': mode}

                def same(got, mv, refv):
                    if mv == 'nan':
                        return isinstance(got, float) and math.isnan(got)
                    if mv == 'ref':
                        return got == refv and not (isinstance(got, float) and math.isnan(got))
                    v = vlist[mv['given']][1]
                    return (math.isnan(got) and math.isnan(v)) or got == v
                ok = len(o) == len(me['obj']) and len(c) == len(me['con']) and \
                    all(same(g_, m_, None) for g_, m_ in zip(o, me['obj'])) and \
                    all(same(g_, m_, ref_by_name[nm]) for g_, m_, nm in zip(c, me['con'], m_cons))
                for m_ in me['con']:
                    rep.count('con-val:' + (m_ if isinstance(m_, str) else 'given'))
                if not ok:
                    rep.disagree('evaluate-values', case, {'impl': [repr(o), repr(c)], 'model': me})
                # every metric node of the instance got a value (evaluator's or NaN)
                mv = inst_m.metric_values
                for node in inst_m.metric_nodes:
                    if node not in mv:
                        rep.disagree('metric-node-without-value', case, {'node': str(node)})
                rep.case(case, nontrivial=nontrivial, sample=case if nontrivial and mode == 'partial' else None)
    if not insts:
        rep.case(inp, nontrivial=nontrivial, sample=inp if not r['ok'] else None)


def gen_spec(rng):
    base = gen.gen_tree(rng, depth=2, incompat=rng.random() < .3) if rng.random() < .7 else gen.gen_tame(rng)
    return gen.attach_metrics(rng, base, 1, 4)


def run(ctx, rep):
    fam = family_specs()
    for i, spec in enumerate(fam):
        if ctx.mine(i):
            check_graph(ctx, rep, spec)
    n_graphs = ctx.pick(1000, 20000)
    i = 0
    for i in range(n_graphs):
        spec = gen_spec(ctx.rng)
        if not ctx.mine(i):
            continue
        check_graph(ctx, rep, spec)
        if ctx.out_of_time():
            break
    rep.notes.append('random graphs generated: %d' % (i + 1))


def replay(ctx, rep, payload):
    check_graph(ctx, rep, payload['input']['spec'])


def search(ctx, rep):
    """Model-free restatement of the classification contract on the single-metric family."""
    for spec in family_specs():
        b = gen.build(spec)
        gp = Ev(b.dsg, encoder_type=SelChoiceEncoderType.COMPLETE)
        m = spec['metrics'][0]
        permanent = spec['derives'][0][0] == 0
        can_obj = m['dir'] is not None and permanent
        can_con = m['dir'] is not None and m['ref'] is not None
        try:
            role = 'objective' if gp.objectives else ('constraint' if gp.constraints else 'unused')
        except RuntimeError:
            role = 'error'
        rep.case(spec)
        bad = (role == 'objective' and not can_obj) or (role == 'constraint' and not can_con) or \
              (m['decl'] == 'none' and role != 'unused') or \
              (can_obj and can_con and m['decl'] in ('objective', 'constraint') and role != m['decl']) or \
              (can_obj and can_con and m['decl'] is None and role != 'error')
        if bad:
            rep.disagree('classification-contract', {'spec': spec}, {'role': role})
