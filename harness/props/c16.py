"""C16 Design-variable nodes receive in-range values exactly when they exist.

Correspondence:
  (F) function level, exhaustive over a small domain: DesignVariableNode.correct_value and DSG.set_des_var_value
      vs Adsg.correctDiscrete / Adsg.pickCont (driver op correct_value);
  (G) graph level: generated DSGs with discrete/continuous DV nodes under permanent and conditional nodes
      x both selection encoders x vectors with values inside/on/outside the domain; per DV variable the
      triple (exists in instance, reported value, reported activeness, stored node value) vs Adsg.decodeDV.
"""
import itertools
import math
from fractions import Fraction

from adsg_core.graph.adsg_nodes import DesignVariableNode
from adsg_core.graph.adsg_basic import BasicDSG
from adsg_core.optimization.graph_processor import GraphProcessor
from adsg_core.optimization.hierarchy import SelChoiceEncoderType

from .. import gen

RULE = ('function level: every (domain, value) pair of a fixed grid (discrete n=1..5 x 16 values incl. negative, '
        'non-integer, huge, +-inf; 6 bound pairs x 13 values); graph level: seeded random tree/tame DSGs with 1-3 DV '
        'nodes under permanent or conditional nodes, both encoders, all selection rows x sampled DV values; a case is '
        'one (graph, encoder, vector) or one (domain, value); non-trivial = value outside the domain, on a bound, '
        'non-integer, or DV node absent from the instance; distinct by content hash')
BUDGET = {'quick': 50, 'thorough': 600}
JOBS = {'quick': 2, 'thorough': 16}
ASSUMPTIONS = ['float comparison is exact, so clamping is compared on exact rationals; (lo+hi)/2 and the relative '
               'position of linked continuous nodes are compared with Python\'s own float arithmetic, not modelled',
               'NaN inputs are exercised and recorded, not judged (the property does not speak about them)']
LEANCHECK_MODULES = ['Adsg.Model.DV', 'Adsg.Props.C16']

DISCRETE_VALUES = [-1e9, -3, -1, -0.5, -0.0, 0, 0.7, 1, 1.5, 2, 3, 3.999, 4, 6, 1e9, 2.5]
INF = float('inf')


def frac(v):
    return Fraction(v)


def cont_ints(lo, hi, v):
    """Scale lo, hi, v to integers on a common denominator; +-inf are replaced by a point outside the bounds."""
    flo, fhi = frac(lo), frac(hi)
    if v == INF:
        fv = fhi + 1
    elif v == -INF:
        fv = flo - 1
    else:
        fv = frac(v)
    den = math.lcm(flo.denominator, fhi.denominator, fv.denominator)
    return int(flo * den), int(fhi * den), int(fv * den)


def check_function_level(ctx, rep):
    drv = ctx.driver
    # discrete
    for n in range(1, 6):
        node = DesignVariableNode('d', options=list(range(n)))
        for v in DISCRETE_VALUES + [INF, -INF]:
            inp = {'level': 'function', 'dom': {'kind': 'discrete', 'n': n}, 'value': repr(v)}
            got, _ = node.correct_value(v)
            # the node itself does not truncate: model value = v when in range; compare clamp only
            if v in (INF, -INF):
                exp = n - 1 if v > 0 else 0
            else:
                f = frac(v)
                r = drv.ask('correct_value', dom={'kind': 'discrete', 'n': n}, num=f.numerator, den=f.denominator)
                # model truncates (processor path); for the raw node call compare on integers only
                if f.denominator != 1:
                    # raw clamp: below 0 -> 0, >= n -> n-1, else unchanged
                    exp = 0 if f < 0 else (n - 1 if f >= n else v)
                else:
                    exp = r['v']
            rep.case(inp, nontrivial=(v < 0 or v >= n or v != int(v) if abs(v) != INF else True))
            rep.count('fn:discrete')
            if got != exp:
                rep.disagree('correct-value-discrete', inp, {'impl': repr(got), 'model': repr(exp)})
            # direct setter on a graph: must store the corrected value (integers only: option indices)
            if abs(v) != INF and v == int(v):
                g = BasicDSG()
                g.add_node(node)
                g.set_des_var_value(node, int(v))
                st = g.des_var_value(node)
                if st != exp or not (0 <= st < n):
                    rep.disagree('set-value-discrete', inp, {'stored': repr(st), 'model': repr(exp)})
    # continuous
    for lo, hi in gen.DV_BOUNDS:
        node = DesignVariableNode('c', bounds=(lo, hi))
        mid = (lo + hi) / 2
        eps = (hi - lo) * 1e-9
        for v in [lo - 1, lo - eps, lo, lo + eps, mid, hi - eps, hi, hi + eps, hi + 1, 1e30, -1e30, INF, -INF]:
            inp = {'level': 'function', 'dom': {'kind': 'cont', 'lo': lo, 'hi': hi}, 'value': repr(v)}
            got, frac_got = node.correct_value(v)
            ilo, ihi, iv = cont_ints(lo, hi, v)
            r = drv.ask('correct_value', dom={'kind': 'cont', 'lo': ilo, 'hi': ihi}, v=iv)
            exp = {'value': v, 'lo': lo, 'hi': hi}[r['pick']]
            rep.case(inp, nontrivial=(r['pick'] != 'value' or v in (lo, hi)))
            rep.count('fn:cont:' + r['pick'])
            if got != exp or not (lo <= got <= hi):
                rep.disagree('correct-value-cont', inp, {'impl': repr(got), 'model': r['pick']})
            g = BasicDSG()
            g.add_node(node)
            g.set_des_var_value(node, v)
            st = g.des_var_value(node)
            if st != exp:
                rep.disagree('set-value-cont', inp, {'stored': repr(st), 'model': r['pick']})
    # ill-formed domains are rejected
    for bad in [(1., 1.), (2., 1.)]:
        try:
            DesignVariableNode('x', bounds=bad)
            rep.disagree('bad-bounds-accepted', {'bounds': bad}, {})
        except ValueError:
            pass
    try:
        DesignVariableNode('x', options=[])
        rep.disagree('empty-options-accepted', {}, {})
    except ValueError:
        pass


def dv_values(rng, d):
    if d['kind'] == 'discrete':
        n = d['n']
        pool = [-3, -1, -0.5, 0, 0.7, n - 1, n - 0.5, n, n + 5, 1e9, -1e9] + list(range(n))
    else:
        lo, hi = d['lo'], d['hi']
        pool = [lo - 1, lo, (lo + hi) / 2, lo + (hi - lo) * .25, hi, hi + 1, 1e30, -1e30, INF, -INF]
    return pool


def check_graph(ctx, rep, spec, enc, preset='auto'):
    drv = ctx.driver
    rng = ctx.rng
    try:
        b = gen.build(spec)
    except Exception as e:
        rep.count('build-exc:' + type(e).__name__)
        return
    if not b.dsg.feasible:
        rep.count('graph:init-infeasible')
        return
    # sometimes the design space graph itself already carries a (default) value for a design-variable node
    dvn = [b.nodes[d['node']] for d in spec['dvs'] if b.nodes[d['node']] in b.dsg.graph.nodes]
    if preset == 'auto':
        preset = b.idx[rng.choice(dvn)] if (dvn and rng.random() < .35) else None
    if preset is not None:
        nd = b.nodes[preset]
        try:
            b.dsg.set_des_var_value(nd, 0 if nd.is_discrete else nd.bounds[0])
        except Exception:
            preset = None
    held = []
    try:
        gp = GraphProcessor(b.dsg, encoder_type=enc)
        dvs = gp.des_vars
    except RuntimeError as e:
        rep.count('graph:no-feasible-arch' if 'no feasible' in str(e) else 'ctor-runtime-error')
        return
    except Exception as e:
        rep.count('ctor-exc:' + type(e).__name__)   # other properties (C01/C14) judge constructor failures
        return
    dv_by_node = {d['node']: d for d in spec['dvs']}
    links = spec.get('dv_links', [])
    linked = {i for grp in links for i in grp}
    sel_vars = [(i, dv) for i, dv in enumerate(dvs) if not isinstance(dv.node, DesignVariableNode)]
    dv_vars = [(i, dv) for i, dv in enumerate(dvs) if isinstance(dv.node, DesignVariableNode)]
    sel_rows = list(itertools.product(*[range(dv.n_opts) for _, dv in sel_vars]))
    if len(sel_rows) > 40:
        sel_rows = rng.sample(sel_rows, 40)
    n_vec = ctx.pick(6, 14)
    for srow in sel_rows:
        for _ in range(n_vec):
            x = [None] * len(dvs)
            for (i, _), v in zip(sel_vars, srow):
                x[i] = v
            raw = {}
            for i, dv in dv_vars:
                d = dv_by_node[b.idx[dv.node]]
                v = rng.choice(dv_values(rng, d))
                if d['kind'] == 'discrete' and abs(v) == INF:
                    v = 0
                x[i] = v
                raw[i] = v
            inp = {'level': 'graph', 'spec': spec, 'enc': enc.name, 'x': [repr(v) for v in x], 'preset': preset}
            try:
                inst, x_imp, act = gp.get_graph(list(x))
                x_imp2 = act2 = None
                _, x_imp2, act2 = gp.get_graph(list(x), create=False)
            except Exception as e:
                rep.count('decode-exc:' + type(e).__name__)   # judged by C01/C14
                continue
            present = set(b.node_ids(inst))
            nontrivial = False
            # every DV node of the graph: exists <-> has value; DV variable reports it
            for d in spec['dvs']:
                nid = d['node']
                node = b.nodes[nid]
                exists = nid in present
                stored = inst.des_var_value(node) if exists else None
                var = [(i, dv) for i, dv in dv_vars if dv.node is node]
                cls = {'linked': nid in linked, 'kind': d['kind'], 'exists': exists, 'has_var': bool(var)}
                if not var:
                    # node without its own variable (linked follower): must still have an in-domain value when it exists
                    if exists and stored is None:
                        rep.disagree('existing-dv-node-without-value', inp, {'node': nid}, cls)
                    elif exists and not in_domain(d, stored):
                        rep.disagree('stored-value-out-of-domain', inp, {'node': nid, 'stored': repr(stored)}, cls)
                    continue
                i, dv = var[0]
                v = raw[i]
                if d['kind'] == 'discrete':
                    f = frac(v)
                    tr = drv.ask('correct_value', dom={'kind': 'discrete', 'n': d['n']}, num=f.numerator, den=f.denominator)
                    m = drv.ask('decode_dv', dom={'kind': 'discrete', 'n': d['n']}, exists=exists, v=tr['trunc'])
                    exp_val = m['v'] if m['act'] else 0
                    if f.denominator != 1 or v < 0 or v >= d['n']:
                        nontrivial = True
                else:
                    ilo, ihi, iv = cont_ints(d['lo'], d['hi'], v)
                    m = drv.ask('decode_dv', dom={'kind': 'cont', 'lo': ilo, 'hi': ihi}, exists=exists, v=iv)
                    if m['act']:
                        pk = drv.ask('correct_value', dom={'kind': 'cont', 'lo': ilo, 'hi': ihi}, v=iv)['pick']
                        exp_val = {'value': v, 'lo': d['lo'], 'hi': d['hi']}[pk]
                        if pk != 'value':
                            nontrivial = True
                    else:
                        exp_val = (d['lo'] + d['hi']) / 2
                if not exists:
                    nontrivial = True
                rep.count('dv:%s:%s' % (d['kind'], 'active' if exists else 'absent'))
                got = (bool(act[i]), x_imp[i])
                if got != (m['act'], exp_val):
                    rep.disagree('dv-decode', inp, {'node': nid, 'var': i, 'impl': repr(got), 'model': repr((m['act'], exp_val))}, cls)
                if exists and stored != exp_val:
                    rep.disagree('dv-stored-value', inp, {'node': nid, 'stored': repr(stored), 'model': repr(exp_val)}, cls)
                if (bool(act2[i]), x_imp2[i]) != got:
                    rep.disagree('dv-create-flag', inp, {'var': i, 'create': repr(got), 'nocreate': repr((act2[i], x_imp2[i]))}, cls)
            rep.case(inp, nontrivial=nontrivial, sample=inp if nontrivial else None)
            if len(held) < 12:
                held.append((inp, inst, {d['node']: inst.des_var_value(b.nodes[d['node']]) for d in spec['dvs']
                                         if d['node'] in present}))
            if ctx.out_of_time():
                break
        else:
            continue
        break
    # a decoded architecture keeps the values of its own vector, whatever was decoded afterwards
    for inp, inst, vals in held:
        now = {nid: inst.des_var_value(b.nodes[nid]) for nid in vals}
        if now != vals:
            rep.disagree('dv-stored-value', inp, {'stored_at_decode': repr(vals), 'stored_later': repr(now)},
                         {'linked': False, 'kind': 'any', 'exists': True, 'has_var': True, 'changed_later': True})
            break


def in_domain(d, v):
    if d['kind'] == 'discrete':
        return v == int(v) and 0 <= v < d['n']
    return d['lo'] <= v <= d['hi']


def gen_linked_branches(rng):
    """Linked DV nodes hanging under different options of one choice (or one permanent, one conditional)."""
    k = rng.randint(2, 3)
    spec = {'n': 1 + k, 'derives': [], 'sel': [{'o': 0, 'opts': list(range(1, 1 + k))}], 'start': [0], 'incompat': [],
            'cons': []}
    parents = rng.sample(range(0, 1 + k), 2)
    kind = rng.choice(['discrete', 'cont'])
    dvs = []
    for p in parents:
        node = spec['n']
        spec['n'] += 1
        spec['derives'].append([p, node])
        if kind == 'discrete':
            dvs.append({'node': node, 'kind': 'discrete', 'n': 3})
        else:
            lo, hi = rng.choice(gen.DV_BOUNDS)
            dvs.append({'node': node, 'kind': 'cont', 'lo': lo, 'hi': hi})
    spec['dvs'] = dvs
    spec['dv_links'] = [[d['node'] for d in dvs]]
    return spec


def gen_spec(rng):
    r = rng.random()
    if r < .15:
        return gen_linked_branches(rng)
    base = gen.gen_tree(rng, depth=2, incompat=False) if r < .75 else gen.gen_tame(rng, incompat=False)
    return gen.attach_dvs(rng, base, 1, 3, link_p=.3)


def run(ctx, rep):
    if ctx.shard == 0:
        check_function_level(ctx, rep)
    i = 0
    n_graphs = ctx.pick(400, 8000)
    for i in range(n_graphs):
        spec = gen_spec(ctx.rng)
        if not ctx.mine(i):
            continue
        for enc in (SelChoiceEncoderType.COMPLETE, SelChoiceEncoderType.FAST):
            check_graph(ctx, rep, spec, enc)
        if ctx.out_of_time():
            break
    rep.notes.append('graphs generated: %d' % (i + 1))


def replay(ctx, rep, payload):
    inp = payload['input']
    if inp.get('level') == 'graph':
        enc = SelChoiceEncoderType[inp['enc']]
        check_graph(ctx, rep, inp['spec'], enc, preset=inp.get('preset'))
    else:
        check_function_level(ctx, rep)


def replay_finding(ctx, f):
    from ..core import Report
    rep = Report()
    inp = f['replay']
    check_graph(ctx, rep, inp['spec'], SelChoiceEncoderType[inp['enc']], preset=inp.get('preset'))
    return any(d['kind'] in f.get('kinds', [f.get('kind')]) for d in rep.disagreements)


def search(ctx, rep):
    """Model-free restatement: clamp laws checked directly on the implementation."""
    for n in range(1, 6):
        node = DesignVariableNode('d', options=list(range(n)))
        for v in range(-5, 10):
            got, _ = node.correct_value(v)
            rep.case({'n': n, 'v': v})
            if not (0 <= got < n) or (0 <= v < n and got != v):
                rep.disagree('clamp-law-discrete', {'n': n, 'v': v}, {'got': got})
    for lo, hi in gen.DV_BOUNDS:
        node = DesignVariableNode('c', bounds=(lo, hi))
        for v in [lo - 1, lo, (lo + hi) / 2, hi, hi + 1, INF, -INF]:
            got, _ = node.correct_value(v)
            rep.case({'lo': lo, 'hi': hi, 'v': repr(v)})
            if not (lo <= got <= hi) or (lo <= v <= hi and got != v):
                rep.disagree('clamp-law-cont', {'lo': lo, 'hi': hi, 'v': repr(v)}, {'got': got})
