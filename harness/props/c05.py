"""C05 Decoding is a pure function of graph, fixed values and vector.

Correspondence: operation sequences (bounded-exhaustive to depth 3 over a small alphabet, random beyond) over
{decode(x, create), enumerate, statistics, fix, free, mutate returned instance, pickle round trip} on one processor; after
every decode the result (corrected vector, activeness, semantic content of the instance) is compared with a reference
processor built freshly for the current fixed values (which is itself re-checked against brand-new processors), with the
create flag on and off, and - for a subset - with a second interpreter started with another PYTHONHASHSEED. The abstract
state machine Adsg.Proc (lean/Adsg/Model/Proc.lean) is what the theorems are about; the driver replays every history
on it (op `proc_run`) and must predict which decodes are answered identically.
"""
import itertools
import json
import os
import pickle
import subprocess
import sys

import numpy as np

from adsg_core.graph.adsg_nodes import MetricNode, DesignVariableNode

from .. import gen, proc

RULE = ('seeded problems (streams tame / tree / cons / dv / conn / conn-dv) x both selection encoders; per problem all '
        'operation sequences of length <= 3 over a 6-letter alphabet instantiated with seeded arguments, then random '
        'sequences of length 12-30; a case is one decode inside a history; non-trivial = the history before the decode '
        'contains a fix/free, an enumeration or a mutation; distinct by (problem, history prefix)')
BUDGET = {'quick': 100, 'thorough': 1500}
JOBS = {'quick': 4, 'thorough': 16}
ASSUMPTIONS = ['"fresh processor" = a processor built for the same graph and given the same fixed values, used only for '
               'decodes; it is itself compared with brand-new processors on a sample',
               'cross-process comparison covers a subset of problems (interpreter start-up cost)']
LEANCHECK_MODULES = ['Adsg.Model.Proc', 'Adsg.Props.C05']


def decode(P, gp, x, create=True):
    inst, xi, act = gp.get_graph(list(x), create=create)
    out = {'x': [float(v) for v in xi], 'act': [bool(a) for a in act]}
    if inst is not None:
        c = P.canon(inst)
        out['design'] = [list(c['row']), [list(m) if m is not None else None for m in c['mats']],
                         [None if v is None else float(v) for v in c['dvals']], list(c['nodes'])]
    return out, inst


def safe(fn):
    try:
        return ('ok', fn())
    except Exception as e:
        return ('exc', type(e).__name__ + ':' + str(e)[:60])


class Ref:
    """Reference results: fresh processor per fixed-state."""

    def __init__(self, P, enc):
        self.P, self.enc = P, enc
        self.procs = {}

    def get(self, fixed):
        key = tuple(sorted(fixed.items()))
        if key not in self.procs:
            gp = self.P.processor(self.enc)
            for i, v in sorted(fixed.items()):
                gp.fix_des_var(gp.all_des_vars[i], v)
            self.procs[key] = gp
        return self.procs[key]

    def brand_new(self, fixed):
        gp = self.P.processor(self.enc)
        for i, v in sorted(fixed.items()):
            gp.fix_des_var(gp.all_des_vars[i], v)
        return gp


def run_history(ctx, rep, P, enc, ops, cls, ref, mutate_seen):
    """ops: list of tuples. Returns False if the problem cannot be used."""
    gp = P.processor(enc)
    n_all = len(gp.all_des_vars)
    fixed = {}
    hist = []
    inp_base = {'spec': P.spec, 'enc': enc}
    for op in ops:
        kind = op[0]
        hist.append(list(op))
        if kind == 'fix':
            _, i, v = op
            dv = gp.all_des_vars[i]
            r = safe(lambda: gp.fix_des_var(dv, v))
            if r[0] == 'ok':
                fixed[i] = v
        elif kind == 'free':
            _, i = op
            safe(lambda: gp.free_des_var(gp.all_des_vars[i]))
            fixed.pop(i, None)
        elif kind == 'enum':
            safe(lambda: gp.get_all_discrete_x())
        elif kind == 'stats':
            safe(lambda: (gp.get_n_valid_designs(), gp.get_n_valid_designs(with_fixed=True), gp.get_imputation_ratio()))
        elif kind == 'pickle':
            try:
                gp = pickle.loads(pickle.dumps(gp))
            except Exception as e:
                rep.disagree('pickle-roundtrip-exc', dict(inp_base, history=hist), {'exc': repr(e)[:200]}, cls)
                return True
        elif kind in ('decode', 'decode-mutate'):
            _, xfull, create = op
            x = [v for i, v in enumerate(xfull) if i not in fixed]
            got = safe(lambda: decode(P, gp, x, create))
            want = safe(lambda: decode(P, ref.get(fixed), x, create))
            nontrivial = any(h[0] in ('fix', 'free', 'enum', 'decode-mutate', 'pickle') for h in hist[:-1])
            case = dict(inp_base, history=hist)
            rep.case(case, nontrivial=nontrivial, sample=case if nontrivial and len(hist) <= 6 else None)
            rep.count('op:' + kind, 'create:%s' % create)
            g_out = got[1][0] if got[0] == 'ok' else got
            w_out = want[1][0] if want[0] == 'ok' else want
            if g_out != w_out:
                rep.disagree('history-dependent-decode', case, {'with_history': str(g_out)[:300], 'fresh': str(w_out)[:300]},
                             dict(cls, after_fix_free=any(h[0] in ('fix', 'free') for h in hist[:-1]),
                                  after_mutation=any(h[0] == 'decode-mutate' for h in hist[:-1])))
                return True
            if got[0] == 'ok' and create:
                # create flag: same vector / activeness without materialising
                nc = safe(lambda: decode(P, gp, x, False))
                if nc[0] != 'ok' or nc[1][0]['x'] != g_out['x'] or nc[1][0]['act'] != g_out['act']:
                    rep.disagree('create-flag-changes-result', case, {'create': str(g_out)[:200], 'no_create': str(nc)[:200]}, cls)
            if kind == 'decode-mutate' and got[0] == 'ok' and got[1][1] is not None:
                inst = got[1][1]
                for m in inst.metric_nodes:
                    inst.set_metric_value(m, 4242.)
                for d in inst.des_var_nodes:
                    try:
                        inst.set_des_var_value(d, 0 if d.is_discrete else d.bounds[0])
                    except Exception:
                        pass
                mutate_seen.append(True)
                # a later decode of the same vector must not show the stored metric values
                again = safe(lambda: gp.get_graph(list(x)))
                if again[0] == 'ok':
                    inst2 = again[1][0]
                    leaked = [str(m) for m in inst2.metric_nodes if inst2.metric_value(m) == 4242.]
                    if leaked or inst2 is inst:
                        rep.disagree('returned-instances-not-independent', case, {'same_object': inst2 is inst, 'leaked_metrics': leaked},
                                     dict(cls, has_dv=bool(P.spec.get('dvs')), has_conn=bool(P.spec.get('conn'))))
                        return True
    # the reference itself vs a brand new processor on the last decode
    last = [h for h in hist if h[0] in ('decode', 'decode-mutate')]
    if last and ctx.rng.random() < .15:
        _, xfull, create = last[-1]
        x = [v for i, v in enumerate(xfull) if i not in fixed]
        a = safe(lambda: decode(P, ref.get(fixed), x, True)[0])
        bnew = safe(lambda: decode(P, ref.brand_new(fixed), x, True)[0])
        if a != bnew:
            rep.disagree('history-dependent-decode', dict(inp_base, history=hist, reference_check=True),
                         {'reference': str(a)[:300], 'brand_new': str(bnew)[:300]}, dict(cls, after_fix_free=False, after_mutation=False))
    return True


CHILD = r'''
import sys, json, os
sys.path.insert(0, %(verif)r)
from harness import core, proc
from harness.props import c05
case = json.loads(sys.stdin.read())
ctx = core.Ctx('C05', 'quick', 0)
P = proc.Problem(ctx, case['spec'])
gp = P.processor(case['enc'])
out = {'des_vars': [str(d) for d in gp.des_vars], 'table': []}
for x in case['xs']:
    out['table'].append(c05.safe(lambda: c05.decode(P, gp, x, True)[0]))
print(json.dumps(out))
'''


def other_process(ctx, rep, P, enc, xs, cls):
    gp = P.processor(enc)
    mine = {'des_vars': [str(d) for d in gp.des_vars], 'table': [list(safe(lambda: decode(P, gp, x, True)[0])) for x in xs]}
    env = dict(os.environ)
    env['PYTHONHASHSEED'] = str(ctx.rng.randint(1, 100000))
    env['NUMBA_NUM_THREADS'] = '1'
    verif = os.path.dirname(os.path.dirname(os.path.dirname(os.path.abspath(__file__))))
    try:
        out = subprocess.run([sys.executable, '-c', CHILD % {'verif': verif}], input=json.dumps({'spec': P.spec, 'enc': enc, 'xs': xs}),
                             capture_output=True, text=True, env=env, timeout=300)
        res = json.loads(out.stdout.strip().split('\n')[-1])
    except Exception as e:
        rep.disagree('other-process-failed', {'spec': P.spec, 'enc': enc}, {'exc': repr(e)[:200]}, cls)
        return
    mine = json.loads(json.dumps(mine))
    rep.case({'spec': P.spec, 'enc': enc, 'other_process': True}, nontrivial=True)
    rep.count('other-process')
    if res != mine:
        rep.disagree('other-process-differs', {'spec': P.spec, 'enc': enc},
                     {'mine': str(mine)[:300], 'other': str(res)[:300]}, cls)


def gen_ops(rng, gp, n_all, length):
    dvs = gp.all_des_vars

    def rand_x():
        return [rng.randrange(dv.n_opts) if dv.is_discrete else rng.choice([dv.bounds[0], dv.bounds[1], sum(dv.bounds) / 2]) for dv in dvs]
    fixable = [i for i, dv in enumerate(dvs) if not any(i0 <= i < i1 for _, _, _, i0, i1, _ in gp._conn_choice_data_map.values())]
    ops = []
    for _ in range(length):
        r = rng.random()
        if r < .45:
            ops.append(('decode', rand_x(), rng.random() < .8))
        elif r < .55:
            ops.append(('decode-mutate', rand_x(), True))
        elif r < .72 and fixable:
            i = rng.choice(fixable)
            dv = dvs[i]
            ops.append(('fix', i, rng.randrange(dv.n_opts) if dv.is_discrete else dv.bounds[0]))
        elif r < .84 and fixable:
            ops.append(('free', rng.choice(fixable)))
        elif r < .90:
            ops.append(('enum',))
        elif r < .96:
            ops.append(('stats',))
        else:
            ops.append(('pickle',))
    return ops


def check_problem(ctx, rep, spec, enc, i_problem):
    try:
        P = proc.Problem(ctx, spec)
    except Exception as e:
        rep.count('build-exc:' + type(e).__name__)
        return
    if not P.dsg.feasible:
        return
    cls = proc.cls_of(spec)
    cls['enc'] = enc
    try:
        gp0 = P.processor(enc)
        n_all = len(gp0.all_des_vars)
    except Exception as e:
        rep.count('ctor-exc:' + type(e).__name__)   # judged by C01
        return
    if n_all == 0:
        return
    ref = Ref(P, enc)
    mutate_seen = []
    rng = ctx.rng
    # bounded-exhaustive short histories over a concrete alphabet
    dvs = gp0.all_des_vars
    x1 = [0 if dv.is_discrete else dv.bounds[0] for dv in dvs]
    x2 = [dv.n_opts - 1 if dv.is_discrete else dv.bounds[1] for dv in dvs]
    fixable = [i for i, dv in enumerate(dvs) if not any(i0 <= i < i1 for _, _, _, i0, i1, _ in gp0._conn_choice_data_map.values())]
    alphabet = [('decode', x1, True), ('decode', x2, True), ('decode-mutate', x2, True), ('enum',)]
    if fixable:
        i = fixable[0]
        alphabet += [('fix', i, (dvs[i].n_opts - 1) if dvs[i].is_discrete else dvs[i].bounds[1]), ('free', i)]
    depth = 3 if ctx.quick else 4
    seqs = [s for d in range(2, depth + 1) for s in itertools.product(alphabet, repeat=d)
            if s[-1][0].startswith('decode')]
    rng.shuffle(seqs)
    for s in seqs[:ctx.pick(25, 400)]:
        run_history(ctx, rep, P, enc, list(s), cls, ref, mutate_seen)
        if ctx.out_of_time():
            return
    for _ in range(ctx.pick(3, 30)):
        ops = gen_ops(rng, gp0, n_all, rng.randint(12, 30))
        run_history(ctx, rep, P, enc, ops, cls, ref, mutate_seen)
        if ctx.out_of_time():
            return
    if i_problem % 12 == 0:
        xs = [[float(v) for v in x] for x in [x1, x2] + [[rng.randrange(dv.n_opts) if dv.is_discrete else dv.bounds[0] for dv in dvs] for _ in range(6)]]
        other_process(ctx, rep, P, enc, xs, cls)


def run(ctx, rep):
    n = ctx.pick(72, 1500)
    i = 0
    for i in range(n):
        spec = proc.gen_problem(ctx.rng, streams=('tame', 'tree', 'cons', 'cons', 'dv', 'conn', 'conn-dv'))
        if not ctx.mine(i):
            continue
        for enc in ('COMPLETE', 'FAST'):
            try:
                check_problem(ctx, rep, spec, enc, i)
            except Exception as e:
                import traceback
                rep.disagree('harness-exc', {'spec': spec, 'enc': enc}, {'exc': repr(e)[:200], 'tb': traceback.format_exc(limit=5)[-700:]})
            if ctx.out_of_time():
                break
        if ctx.out_of_time():
            break
    rep.notes.append('problems generated: %d' % (i + 1))


def replay(ctx, rep, payload):
    inp = payload['input']
    P = proc.Problem(ctx, inp['spec'])
    cls = proc.cls_of(inp['spec'])
    cls['enc'] = inp['enc']
    if 'history' in inp:
        ops = [tuple(h) for h in inp['history']]
        run_history(ctx, rep, P, inp['enc'], ops, cls, Ref(P, inp['enc']), [])
    else:
        check_problem(ctx, rep, inp['spec'], inp['enc'], 0)


def replay_finding(ctx, f):
    from ..core import Report
    rep = Report()
    inp = f['replay']
    P = proc.Problem(ctx, inp['spec'])
    cls = proc.cls_of(inp['spec'])
    cls['enc'] = inp['enc']
    run_history(ctx, rep, P, inp['enc'], [tuple(h) for h in inp['history']], cls, Ref(P, inp['enc']), [])
    return any(d['kind'] in f.get('kinds', [f.get('kind')]) for d in rep.disagreements)
