"""Connection-encoder managers: construction of every registered factory and the manager-level contract check
(shared by C10, C12, C07)."""
import itertools

import numpy as np

from adsg_core.optimization.assign_enc.matrix import (NodeExistence, NodeExistencePatterns, MatrixGenSettings,
                                                       AggregateAssignmentMatrixGenerator)
from adsg_core.optimization.assign_enc import encoder_registry as reg
from adsg_core.optimization.assign_enc.assignment_manager import AssignmentManager, LazyAssignmentManager
from adsg_core.optimization.assign_enc.lazy_encoding import LazyEncoder
from adsg_core.optimization.assign_enc.encoding import DetectedHighImpRatio, EagerEncoder
from adsg_core.optimization.assign_enc.patterns.encoder import InvalidPatternEncoder

from .props import c09


def factories():
    out = []
    for kind, facs, dflt, alts in (('eager', reg.EAGER_ENCODERS, reg.DEFAULT_EAGER_IMPUTER, reg.EAGER_IMPUTERS),
                                   ('lazy', reg.LAZY_ENCODERS, reg.DEFAULT_LAZY_IMPUTER, reg.LAZY_IMPUTERS),
                                   ('enum', reg.EAGER_ENUM_ENCODERS, reg.DEFAULT_LAZY_IMPUTER, reg.LAZY_IMPUTERS),
                                   ('pattern', reg.PATTERN_ENCODERS, reg.DEFAULT_LAZY_IMPUTER, reg.LAZY_IMPUTERS)):
        for i, f in enumerate(facs):
            out.append({'name': '%s%d' % (kind, i), 'kind': kind, 'factory': f, 'default_imputer': dflt, 'imputers': alts})
    return out


def make_manager(mkset, fac, imp_factory):
    """Returns a manager, or None when the encoder rejects the settings by its documented protocol."""
    try:
        enc = fac['factory'](imp_factory())
        if isinstance(enc, LazyEncoder):
            return LazyAssignmentManager(mkset(), enc)
        return AssignmentManager(mkset(), enc, cache=False)
    except (InvalidPatternEncoder, DetectedHighImpRatio):
        return None


def settings_factory(sspec, tspec, excluded, pats, parallel=None):
    def mkset():
        return MatrixGenSettings([c09.mk(s) for s in sspec], [c09.mk(t) for t in tspec], excluded=list(excluded),
                                 existence=NodeExistencePatterns(list(pats)), max_conn_parallel=parallel)
    return mkset


def jsettings(sspec, tspec, excluded, parallel=None):
    return {'src': [c09.jnode(s) for s in sspec], 'tgt': [c09.jnode(t) for t in tspec],
            'excluded': [list(e) for e in excluded], 'parallel': parallel}


def family(mgr):
    from adsg_core.optimization.assign_enc.lazy_encoding import QuasiLazyEncoder
    from adsg_core.optimization.assign_enc.patterns.encoder import PatternEncoderBase
    enc = mgr.encoder
    if isinstance(enc, PatternEncoderBase):
        return 'pattern'
    if isinstance(enc, QuasiLazyEncoder):
        return 'enum'
    if isinstance(enc, LazyEncoder):
        return 'lazy'
    return 'eager'


def tup(M):
    return tuple(int(v) for v in np.array(M).ravel())


def contract_check(ctx, rep, mgr, sspec, tspec, excluded, exists, pats, inp, cls, parallel=None, limit=250, eager_model=True):
    """C10 clauses on one manager for all its patterns. Reference valid sets come from the Lean model (enumSpec)."""
    drv = ctx.driver
    ns, nt = len(sspec), len(tspec)
    js = jsettings(sspec, tspec, excluded, parallel)
    dvs = mgr.design_vars
    n_opts = [int(dv.n_opts) for dv in dvs]

    def dis(kind, extra_inp, detail):
        rep.disagree(kind, dict(inp, **extra_inp), detail, dict(cls))

    if any(n < 2 for n in n_opts):
        dis('variable-with-less-than-two-values', {}, {'n_opts': n_opts})
    n_decl = 1
    for n in n_opts:
        n_decl *= n
    full = n_decl <= limit
    if full:
        xs = [list(x) for x in itertools.product(*[range(n) for n in n_opts])]
    else:
        xs = [[ctx.rng.randrange(n) for n in n_opts] for _ in range(limit)]
    extras = [[-3] * len(n_opts), [99] * len(n_opts), [0] * (len(n_opts) + 2), [1] * (len(n_opts) + 1)]
    alldv = None
    # a lazy / pattern encoder lists its design vectors by decoding the whole declared space: only for small spaces
    if n_decl <= 600 or isinstance(mgr.encoder, EagerEncoder):
        try:
            alldv = mgr.get_all_design_vectors()
        except Exception as e:
            dis('all-design-vectors-exc', {}, {'exc': repr(e)[:200]})
    else:
        rep.count('all-design-vectors:skipped-large')
    tables = None
    enc = mgr.encoder
    if eager_model and isinstance(enc, EagerEncoder):
        tables = []
        for p in pats:
            if p in enc._design_vectors:
                tables.append([[list(map(int, dv)), [list(map(int, row)) for row in m]]
                               for dv, m in zip(enc._design_vectors[p], enc.matrix[p])])
            else:
                tables.append(None)
    used_values = [set() for _ in n_opts]
    for pi, (p, ex) in enumerate(zip(pats, exists)):
        je = c09.jexist(ns, nt, ex)
        # the brute-force specification enumerates every matrix below the per-pair limits: beyond ~14 cells the
        # algorithmic enumeration (proved equal to it, C09.enumLib_eq_enumSpec) is used instead
        r = drv.ask('matrices', s=js, e=je, lib_only=ns * nt > 14)
        ref = {tuple(v for row in M for v in row) for M in r['spec']}
        if not ref:
            rep.count('pattern:no-valid-matrix')
            continue
        pin = {'e': je}
        seen = {}
        queries, impl_out = [], []
        for xi_, x in enumerate(xs + extras):
            is_extra = xi_ >= len(xs)
            if xi_ % 16 == 15 and ctx.out_of_time():
                rep.count('pattern:truncated-by-budget')
                full = False
                break
            try:
                xi, act, M = mgr.get_matrix(list(x), existence=p)
            except Exception as e:
                dis('decode-exc', dict(pin, x=x), {'exc': repr(e)[:200]})
                continue
            xi = [int(v) for v in xi]
            act = [bool(a) for a in act]
            Mt = tup(M)
            if Mt not in ref:
                # an all -1 matrix is the imputers' "gave up" marker (bounded search exhausted)
                rep.disagree('invalid-matrix', dict(inp, **dict(pin, x=x)), {'M': Mt},
                             dict(cls, all_minus_one=bool(Mt) and all(v == -1 for v in Mt)))
                continue
            if len(xi) != len(x) or any(v < 0 or v >= n for v, n in zip(xi, n_opts)):
                dis('corrected-vector-out-of-range', dict(pin, x=x), {'xi': xi, 'n_opts': n_opts})
            if any(v != 0 or a for v, a in zip(xi[len(n_opts):], act[len(n_opts):])):
                dis('extra-entries-not-inactive', dict(pin, x=x), {'xi': xi, 'act': act})
            if any((not a) and v != 0 for v, a in zip(xi, act)):
                dis('inactive-not-canonical', dict(pin, x=x), {'xi': xi, 'act': act})
            try:
                xi2, act2, M2 = mgr.get_matrix(list(xi), existence=p)
                xi2 = [int(v) for v in xi2]
                if xi2 != xi or tup(M2) != Mt:
                    dis('not-idempotent', dict(pin, x=x), {'xi': xi, 'xi2': xi2})
                elif [bool(a) for a in act2] != act:
                    dis('activeness-direct-vs-imputed', dict(pin, x=x), {'xi': xi, 'act': act, 'act2': [bool(a) for a in act2]})
            except Exception as e:
                dis('redecode-exc', dict(pin, x=x), {'exc': repr(e)[:200]})
            key = tuple(xi[:len(n_opts)])
            if key in seen and seen[key][0] != Mt:
                dis('same-vector-different-matrix', dict(pin, x=x), {'xi': xi})
            if not is_extra:
                seen[key] = (Mt, tuple(act[:len(n_opts)]))
                for i, (v, a) in enumerate(zip(xi, act[:len(n_opts)])):
                    if a:
                        used_values[i].add(v)
            try:
                _, _, edges = mgr.get_conn_idx(list(x), existence=p)
                exp_edges = sorted((i, j) for i in range(ns) for j in range(nt) for _ in range(int(np.array(M)[i, j])))
                if edges is None or sorted((int(a), int(b)) for a, b in edges) != exp_edges:
                    dis('conn-idx-edges', dict(pin, x=x), {'edges': str(edges)[:100]})
            except Exception as e:
                dis('conn-idx-exc', dict(pin, x=x), {'exc': repr(e)[:200]})
            if tables is not None and tables[pi] is not None:
                mats = [tuple(v for row in m for v in row) for _, m in tables[pi]]
                queries.append({'p': pi, 'x': [int(v) for v in x], 'imp': mats.index(Mt) if Mt in mats else None})
                impl_out.append((x, xi, act, Mt))
        rep.case(dict(inp, **pin), nontrivial=len(ref) >= 2, n=len(xs) + len(extras),
                 sample=dict(inp, **pin) if len(ref) >= 2 else None)
        rep.count('pattern:checked', 'nvalid:%s' % ('1' if len(ref) == 1 else ('2-9' if len(ref) < 10 else '10+')))
        if full:
            got = {m for m, _ in seen.values()}
            if got != ref:
                dis('not-onto', pin, {'missing': len(ref - got), 'n_valid': len(ref)})
        if alldv is not None and p in alldv:
            rows = [[int(v) for v in r_] for r_ in alldv[p]]
            rz = {tuple(max(v, 0) for v in r_) for r_ in rows}
            if full and rz != set(seen):
                dis('all-design-vectors-mismatch', pin, {'listed_only': sorted(rz - set(seen))[:3],
                                                         'decode_only': sorted(set(seen) - rz)[:3]})
            else:
                for r_ in rows:
                    k = tuple(max(v, 0) for v in r_)
                    if k in seen and seen[k][1] != tuple(v != -1 for v in r_):
                        dis('activeness-enumeration-vs-decode', dict(pin, row=r_), {'decode_act': list(seen[k][1])})
                        break
        # eager manager layer vs Lean model
        if queries:
            m = drv.ask('eager', tables=tables, n_opts=n_opts, queries=queries)
            if m['wf'][pi] is False:
                dis('table-not-wellformed', pin, {})
            tab_m = {tuple(v for row in mm for v in row) for _, mm in tables[pi]}
            if tab_m != ref:
                dis('table-matrices-not-valid-set', pin, {'extra': len(tab_m - ref), 'missing': len(ref - tab_m)})
            for (x, xi, act, Mt), mr in zip(impl_out, m['results']):
                mm = tuple(v for row in mr['m'] for v in row) if mr['m'] is not None else None
                if (xi, act, Mt) != (mr['v'], mr['act'], mm):
                    dis('eager-manager-vs-model', dict(pin, x=x), {'impl': [xi, act], 'model': [mr['v'], mr['act']],
                                                                   'direct_hit': mr['hit']})
                    break
    any_checked = any(len(u) > 0 for u in used_values)
    for i, u in enumerate(used_values):
        if full and any_checked and len(u) < 2:
            dis('variable-never-takes-two-values', {}, {'var': i, 'used': sorted(u)})
