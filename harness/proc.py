"""Processor-level machinery shared by C01, C03, C04, C05, C07, C14, C15: problem generators, the semantic
canonicalisation of decoded instances ("design" = selection row + connection matrices + DV-node values) and the model's
set of designs (driver ops `archs`, `conn_graph`)."""
import itertools
import math

import numpy as np

from adsg_core.graph.adsg_nodes import DesignVariableNode, SelectionChoiceNode, ConnectionChoiceNode
from adsg_core.graph.graph_edges import EdgeType
from adsg_core.optimization.graph_processor import GraphProcessor
from adsg_core.optimization.hierarchy import SelChoiceEncoderType

from . import gen
from .props import c11

ENC = {'COMPLETE': SelChoiceEncoderType.COMPLETE, 'FAST': SelChoiceEncoderType.FAST}


def gen_problem(rng, streams=('tame', 'tree', 'cons', 'dv', 'conn', 'conn-dv'), shared=False):
    """A spec with optional DV nodes and up to two connection choices."""
    s = rng.choice(streams)
    if s == 'tame':
        spec = gen.gen_tame(rng)
    elif s == 'tree':
        spec = gen.gen_tree(rng, depth=3)
    elif s == 'shared':
        # shared options / options that are start nodes - but not two choices of the same originating node offering
        # the same option node: their origin -> option edges cannot be told apart in an instance (and the library's
        # handling of that construct is the known finding KF-C02-shared-option-same-origin)
        for _ in range(50):
            spec = gen.gen_shared(rng)
            origins = [c['o'] for c in spec['sel']]
            amb = any(ci != cj and a['o'] == b_['o'] and set(a['opts']) & set(b_['opts'])
                      for ci, a in enumerate(spec['sel']) for cj, b_ in enumerate(spec['sel']))
            if not amb:
                break
    elif s == 'cons':
        from .props import c13
        spec, _ = c13.gen_cons_spec(rng)
    elif s == 'dv':
        spec = gen.attach_dvs(rng, gen.gen_tree(rng, depth=2, incompat=rng.random() < .3), 1, 2)
    elif s == 'conn':
        spec = gen.gen_conn(rng, second_conn=.3)
    else:
        spec = gen.attach_dvs(rng, gen.gen_conn(rng, p_group=.2, second_conn=.25), 1, 2)
    spec['stream'] = s
    return spec


class Problem:
    """Real objects + the model's view of one spec."""

    def __init__(self, ctx, spec):
        self.ctx, self.spec = ctx, spec
        self.b = gen.build(spec)
        self.dsg = self.b.dsg
        self.conn = []          # per connection choice: (choice node, model json, sidx, tidx)
        for ki, k in enumerate(spec.get('conn', [])):
            cc = self.b.conn_nodes[ki]
            if cc not in self.dsg.graph.nodes:
                self.conn.append((cc, None, None, None))
                continue
            node_map = (cc.get_src_nodes(self.dsg.graph), cc.get_tgt_nodes(self.dsg.graph))
            mconn, sidx, tidx = c11.model_conn(spec, self.b, node_map, k)
            self.conn.append((cc, mconn, sidx, tidx))
        self._model = None

    @property
    def model(self):
        """{row: {'nodes': [...], 'conn': [sets per conn choice], 'n': number of designs without DV values}}"""
        if self._model is None:
            drv = self.ctx.driver
            mg = gen.model_graph(self.spec)
            live = [c for c in self.conn if c[1] is not None]
            if live:
                m = drv.ask('conn_graph', g=mg, conn=[c[1] for c in live], max_sets=400)
                self._model = {tuple(a['row']): a for a in m['archs']}
            else:
                m = drv.ask('archs', g=mg)
                self._model = {tuple(a['row']): dict(a, conn=[]) for a in m['archs']}
        return self._model

    def dv_nodes(self):
        return self.spec.get('dvs', [])

    def n_designs_discrete(self):
        """Number of valid discrete designs in the model: rows x connection sets x discrete DV values of existing nodes."""
        tot = 0
        for row, a in self.model.items():
            n = 1
            for c in a['conn']:
                n *= c['n_sets']
            present = set(a['nodes'])
            for d in self.dv_nodes():
                if d['node'] in present and d['kind'] == 'discrete' and not self.is_link_follower(d['node']):
                    n *= d['n']
            tot += n
        return tot

    def is_link_follower(self, node):
        return any(node in grp and node != grp[0] for grp in self.spec.get('dv_links', []))

    def processor(self, enc):
        return GraphProcessor(self.dsg, encoder_type=ENC[enc] if isinstance(enc, str) else enc)

    def canon(self, inst):
        """Semantic content of a decoded instance."""
        b, spec = self.b, self.spec
        row = c11.sel_row(b, spec, inst)
        mats = []
        odd = None
        for cc, mconn, sidx, tidx in self.conn:
            if mconn is None:
                mats.append(None)
                continue
            M, o = c11.instance_matrix(b, inst, sidx, tidx)
            mats.append(c11.flat(M))
            # a connection edge is "outside" only if it belongs to none of the connection choices
            odd = set(o) if odd is None else (odd & set(o))
        odd = sorted(odd or [])
        present = set(b.node_ids(inst))
        dvals = []
        for d in self.dv_nodes():
            if d['node'] in present:
                dvals.append(inst.des_var_value(b.nodes[d['node']]))
            else:
                dvals.append(None)
        return {'row': row, 'mats': tuple(mats), 'dvals': tuple(dvals), 'nodes': tuple(sorted(present)), 'odd': odd,
                'final': bool(inst.final), 'feasible': bool(inst.feasible),
                'choices_left': [str(n) for n in inst.choice_nodes]}

    def judge(self, c):
        """Is the canonical design admitted by the model? Returns a list of complaints."""
        out = []
        a = self.model.get(c['row'])
        if a is None:
            return ['row-not-an-architecture']
        if list(c['nodes']) != sorted(a['nodes']):
            # instance node ids that belong to the model graph must equal the closure
            out.append('node-set-differs')
        for (cc, mconn, sidx, tidx), m, mc in zip([x for x in self.conn if x[1] is not None],
                                                 [m for m in c['mats'] if m is not None], a['conn']):
            if mc['n_sets'] <= 400 and m not in {c11.flat(M) for M in mc['sets']}:
                out.append('invalid-connection-set')
        if c['odd']:
            out.append('connection-edge-outside-choice')
        present = set(a['nodes'])
        for d, v in zip(self.dv_nodes(), c['dvals']):
            if d['node'] in present and not self.is_link_follower(d['node']):
                if v is None:
                    out.append('dv-node-without-value')
                elif d['kind'] == 'discrete' and not (v == int(v) and 0 <= v < d['n']):
                    out.append('dv-value-out-of-domain')
                elif d['kind'] == 'cont' and not (d['lo'] <= v <= d['hi']):
                    out.append('dv-value-out-of-domain')
        if not c['final'] or c['choices_left']:
            out.append('not-final')
        if not c['feasible']:
            out.append('not-feasible')
        return out

    def design_key(self, c):
        """Identity of the architecture for injectivity / enumeration comparisons (continuous values excluded)."""
        dv = tuple(v if (v is None or d['kind'] == 'discrete') else 'c' for d, v in zip(self.dv_nodes(), c['dvals']))
        return (c['row'], c['mats'], dv)


def vectors(rng, dvs, limit, cont_samples=2):
    """All vectors of the declared discrete space (continuous variables sampled) when small, otherwise samples."""
    axes = []
    for dv in dvs:
        if dv.is_discrete:
            axes.append(list(range(dv.n_opts)))
        else:
            lo, hi = dv.bounds
            axes.append([lo, hi, lo + (hi - lo) * .25][:cont_samples + 1])
    total = 1
    for a in axes:
        total *= len(a)
    if total <= limit:
        return [list(x) for x in itertools.product(*axes)], True
    return [[rng.choice(a) for a in axes] for _ in range(limit)], False


def choice_cycle(spec):
    """Circular choice activation: an option of choice a (or a node it derives) is the originating node of choice b, and
    the other way round (possibly through further choices, or a == b)."""
    succ = {}
    for u, v in spec['derives']:
        succ.setdefault(u, []).append(v)

    def reach(srcs):
        seen, st = set(srcs), list(srcs)
        while st:
            for v in succ.get(st.pop(), []):
                if v not in seen:
                    seen.add(v)
                    st.append(v)
        return seen
    n = len(spec['sel'])
    rel = {a: {b for b in range(n) if spec['sel'][b]['o'] in reach(spec['sel'][a]['opts'])} for a in range(n)}
    # transitive closure
    for k in range(n):
        for a in range(n):
            if k in rel[a]:
                rel[a] |= rel[k]
    return any(a in rel[a] for a in range(n))


def cls_of(spec):
    from .props import c02
    c = c02.stream_cls(spec, spec.get('stream', '?'))
    c['choice_cycle'] = choice_cycle(spec)
    c['has_conn'] = bool(spec.get('conn'))
    c['has_cons'] = bool(spec.get('cons'))
    c['has_dv'] = bool(spec.get('dvs'))
    c['dv_links'] = bool(spec.get('dv_links'))
    c['has_group'] = bool(spec.get('groups'))
    if spec.get('groups'):
        cby = {x['node']: x for x in spec['connectors']}
        c['group_rep_mixed'] = len({cby[m]['rep'] for m in spec['groups'][0]['members']}) > 1
    if spec.get('cons'):
        c['cons_ty'] = spec['cons'][0]['ty']
    return c
