"""Shared machinery of the correspondence checks: driver process, reports, evidence, findings, audit."""
import collections
import hashlib
import json
import os
import re
import subprocess
import sys
import time

VERIF = os.path.dirname(os.path.dirname(os.path.abspath(__file__)))
LEAN_DIR = os.path.join(VERIF, 'lean')
DRIVER = os.path.join(LEAN_DIR, '.lake', 'build', 'bin', 'adsg_driver')
ALLOWED_AXIOMS = {'propext', 'Classical.choice', 'Quot.sound'}

TRUSTED_BASE = [
    'Lean 4.33.0 kernel; axioms allowed in property theorems: propext, Classical.choice, Quot.sound (audited by #print axioms on every run)',
    'no sorry/admit/native_decide/bv_decide/own axioms in lean/Adsg (grepped on every run)',
    'Mathlib v4.33.0 single modules imported by proof files only',
    'hand-written Lean model (lean/Adsg/Model) of the modelled parts of adsg-core; tie to /repo = differential correspondence check (Python harness + compiled Lean driver), bounded and seeded',
    'Python harness canonicalisation (node naming, sorting of sets, exception -> enum)',
]


class DriverError(Exception):
    pass


class Driver:
    """Persistent compiled Lean driver speaking the JSON line protocol."""

    def __init__(self):
        if not os.path.exists(DRIVER):
            raise DriverError('driver binary missing: %s' % DRIVER)
        self.p = subprocess.Popen([DRIVER], stdin=subprocess.PIPE, stdout=subprocess.PIPE, text=True, bufsize=1)
        self.n = 0

    def ask(self, op, **kw):
        self.n += 1
        req = dict(kw)
        req['op'] = op
        req['id'] = self.n
        try:
            self.p.stdin.write(json.dumps(req) + '\n')
            self.p.stdin.flush()
            line = self.p.stdout.readline()
        except (BrokenPipeError, OSError) as e:
            raise DriverError('driver died: %r' % e)
        if not line:
            raise DriverError('driver closed the stream (op %s)' % op)
        resp = json.loads(line)
        if 'error' in resp:
            raise DriverError('driver error on op %s: %s' % (op, resp['error']))
        return resp['r']

    def close(self):
        try:
            self.p.stdin.close()
            self.p.wait(timeout=5)
        except Exception:
            self.p.kill()


def stable_hash(obj):
    return hashlib.md5(json.dumps(obj, sort_keys=True, default=str).encode()).hexdigest()[:16]


class Report:
    """What one run (or one shard of it) covered."""

    def __init__(self):
        self.evaluations = 0
        self.keys = set()            # hashes of distinct non-trivial cases
        self.samples = []
        self.dist = collections.Counter()
        self.disagreements = []      # dicts: kind, input, detail, cls
        self.notes = []
        self.broken = None           # description when the correspondence itself could not run
        self._per_key = {}

    def case(self, key_obj, nontrivial=True, sample=None, n=1):
        self.evaluations += n
        if nontrivial:
            self.keys.add(stable_hash(key_obj))
        if sample is not None and len(self.samples) < 6:
            self.samples.append(sample)

    def count(self, *names):
        for nme in names:
            self.dist[nme] += 1

    def disagree(self, kind, inp, detail, cls=None):
        self.dist['disagreement:' + kind] += 1
        # keep a few examples per (kind, class): the many repetitions of one known finding must not crowd out a
        # disagreement of another kind or class (all of them are counted in `dist`)
        key = (kind, json.dumps(cls or {}, sort_keys=True, default=str))
        n = self._per_key.get(key, 0)
        self._per_key[key] = n + 1
        if n < 6 and len(self.disagreements) < 4000:
            self.disagreements.append({'kind': kind, 'input': inp, 'detail': detail, 'cls': cls or {}})

    def to_json(self):
        return {'evaluations': self.evaluations, 'keys': sorted(self.keys), 'samples': self.samples,
                'dist': dict(self.dist), 'disagreements': self.disagreements, 'notes': self.notes,
                'broken': self.broken}

    def merge_json(self, j):
        self.evaluations += j['evaluations']
        self.keys |= set(j['keys'])
        for s in j['samples']:
            if len(self.samples) < 6:
                self.samples.append(s)
        self.dist.update(j['dist'])
        self.disagreements += j['disagreements']
        self.notes += j['notes']
        if j.get('broken') and not self.broken:
            self.broken = j['broken']


class Ctx:
    def __init__(self, prop, tier, seed, shard=0, nshards=1, budget_s=60.0):
        import random
        self.prop = prop
        self.tier = tier
        self.seed = seed
        self.shard = shard
        self.nshards = nshards
        self.rng = random.Random((seed * 1000003 + shard * 7919 + int(prop[1:])) & 0xFFFFFFFF)
        self.t0 = time.time()
        self.budget_s = budget_s
        self._driver = None

    @property
    def quick(self):
        return self.tier == 'quick'

    def pick(self, quick, thorough):
        return quick if self.quick else thorough

    def time_left(self):
        return self.budget_s - (time.time() - self.t0)

    def out_of_time(self):
        return self.time_left() <= 0

    @property
    def driver(self):
        if self._driver is None:
            self._driver = Driver()
        return self._driver

    def mine(self, i):
        """Work item i belongs to this shard."""
        return i % self.nshards == self.shard


# ---------------------------------------------------------------------------------------------
# Lean build + audit

FORBIDDEN = re.compile(r'\bsorry\b|\badmit\b|^\s*axiom\s|native_decide|bv_decide|implemented_by|\bunsafe\s|maxHeartbeats\s+0\b')


def strip_comments(src):
    # remove /- ... -/ (nested not handled beyond one level of care) and -- line comments
    out = []
    i, depth, n = 0, 0, len(src)
    while i < n:
        if src.startswith('/-', i):
            depth += 1
            i += 2
        elif src.startswith('-/', i) and depth > 0:
            depth -= 1
            i += 2
        elif depth > 0:
            if src[i] == '\n':
                out.append('\n')
            i += 1
        elif src.startswith('--', i):
            while i < n and src[i] != '\n':
                i += 1
        else:
            out.append(src[i])
            i += 1
    return ''.join(out)


def grep_forbidden():
    hits = []
    for root, _, files in os.walk(os.path.join(LEAN_DIR, 'Adsg')):
        for f in files:
            if f.endswith('.lean'):
                p = os.path.join(root, f)
                txt = strip_comments(open(p).read())
                for ln, line in enumerate(txt.split('\n'), 1):
                    if FORBIDDEN.search(line):
                        hits.append('%s:%d: %s' % (os.path.relpath(p, VERIF), ln, line.strip()[:80]))
    return hits


def lean_build(targets=('Adsg', 'adsg_driver')):
    p = subprocess.run(['lake', 'build'] + list(targets), cwd=LEAN_DIR, capture_output=True, text=True)
    return p.returncode == 0, (p.stdout + p.stderr)[-4000:]


def audit(prop):
    """Run `#print axioms` on every property theorem of `prop`. Returns (theorems, ok_list, problems)."""
    path = os.path.join(LEAN_DIR, 'Audit', prop + '.lean')
    if not os.path.exists(path):
        return [], [], ['audit file missing: ' + path]
    wanted = re.findall(r'^#print axioms\s+(\S+)', open(path).read(), re.M)
    p = subprocess.run(['lake', 'env', 'lean', os.path.join('Audit', prop + '.lean')], cwd=LEAN_DIR,
                       capture_output=True, text=True)
    out = p.stdout + p.stderr
    problems = []
    if p.returncode != 0:
        problems.append('audit file does not elaborate: ' + out[-1500:])
    found = {}
    for m in re.finditer(r"'([^']+)' depends on axioms: \[([^\]]*)\]", out, re.S):
        found[m.group(1)] = {a.strip() for a in m.group(2).replace('\n', ' ').split(',') if a.strip()}
    for m in re.finditer(r"'([^']+)' does not depend on any axioms", out):
        found[m.group(1)] = set()
    ok = []
    for t in wanted:
        if t not in found:
            problems.append('theorem not checked: ' + t)
        elif not found[t] <= ALLOWED_AXIOMS:
            problems.append('theorem %s uses axioms %s' % (t, sorted(found[t] - ALLOWED_AXIOMS)))
        else:
            ok.append(t)
    return wanted, ok, problems


def leanchecker(modules):
    p = subprocess.run(['lake', 'env', 'leanchecker'] + list(modules), cwd=LEAN_DIR, capture_output=True, text=True)
    return p.returncode == 0, (p.stdout + p.stderr)[-2000:]


# ---------------------------------------------------------------------------------------------
# Known findings

def load_findings(prop):
    path = os.path.join(VERIF, 'known_findings.json')
    if not os.path.exists(path):
        return []
    data = json.load(open(path))
    return [f for f in data.get('open', []) if f['property'] == prop]


def write_evidence(prop, tier, seed, rep, obligations, discharged, wall_s, violations, rule, extra=None,
                   checker_cmd=None, assumptions=None):
    os.makedirs(os.path.join(VERIF, 'evidence'), exist_ok=True)
    cov = {
        'obligations': obligations,
        'discharged': discharged,
        'checker_cmd': checker_cmd or ('cd lean && lake build Adsg adsg_driver && lake env lean Audit/%s.lean' % prop),
        'trusted_base': TRUSTED_BASE,
        'evaluations': rep.evaluations,
        'distinct_nontrivial': len(rep.keys),
        'rule': rule,
        'samples': rep.samples or ['(no case reached)'],
        'input_distribution': dict(sorted(rep.dist.items())),
        'notes': rep.notes[:20],
    }
    if extra:
        cov.update(extra)
    ev = {'property_id': prop, 'tier': tier, 'seed': seed, 'level': 'proof', 'coverage': cov,
          'assumptions': assumptions or [], 'wall_s': round(wall_s, 2), 'violations': violations}
    with open(os.path.join(VERIF, 'evidence', prop + '.json'), 'w') as fp:
        json.dump(ev, fp, indent=1, default=str)
    return ev


def write_replay(prop, payload):
    os.makedirs(os.path.join(VERIF, 'replay'), exist_ok=True)
    h = stable_hash(payload)
    path = os.path.join(VERIF, 'replay', '%s-%s.json' % (prop, h))
    with open(path, 'w') as fp:
        json.dump(payload, fp, indent=1, default=str)
    return os.path.relpath(path, VERIF)
