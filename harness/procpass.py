"""One pass over a (problem, selection encoder): decode every vector of the declared space (or samples), the
enumeration of valid designs and the statistics, and emit every deviation from the model as a disagreement kind.
Each property module judges the kinds that belong to its statement:

  C01  ctor-exc, decode-exc, row-not-an-architecture, node-set-differs, invalid-connection-set, not-final, not-feasible,
       connection-edge-outside-choice, dv-node-without-value, dv-value-out-of-domain, ctor-error-but-designs-exist
  C03  corrected-out-of-range, not-idempotent, vector-does-not-describe-instance, same-vector-different-design,
       same-design-different-vectors, dv-value-not-reported
  C04  enum-row-not-fixed-point, enum-activeness-differs, enum-duplicate-design, enum-missing-designs, enum-extra-designs,
       n-valid-mismatch, n-declared-mismatch, imputation-ratio-mismatch, enum-exc
  C07  active-but-absent, inactive-not-canonical, unconditional-variable-inactive, activeness-paths-differ,
       create-flag-activeness
  C14  fast-unsound (= C01 kinds under FAST), fast-coverage-missing, fast-valid-vector-changed, fast-vs-complete
"""
import math

import numpy as np

from adsg_core.graph.adsg_nodes import DesignVariableNode, SelectionChoiceNode, ConnectionChoiceNode

from . import proc

SOUND_KINDS = {'row-not-an-architecture', 'node-set-differs', 'invalid-connection-set', 'not-final', 'not-feasible',
               'connection-edge-outside-choice', 'dv-node-without-value', 'dv-value-out-of-domain'}


def tolist(v):
    return [float(a) for a in v]


def run_pass(ctx, rep, spec, enc, kinds, limit=None, want_enum=True):
    limit = limit or ctx.pick(200, 2000)
    cls = proc.cls_of(spec)
    cls['enc'] = enc
    inp = {'spec': spec, 'enc': enc}

    def dis(kind, extra, detail, **more):
        if kind in kinds:
            rep.disagree(kind, dict(inp, **extra), detail, dict(cls, **more))
    try:
        P = proc.Problem(ctx, spec)
    except Exception as e:
        rep.count('build-exc:' + type(e).__name__)
        return None
    model = P.model
    n_model = P.n_designs_discrete()
    # some declared option occurs in no architecture of the model (e.g. it necessarily leads to an incompatibility)
    cls['dead_option'] = any(all(r[ci] != k for r in model) for ci, c_ in enumerate(spec['sel']) for k in range(len(c_['opts'])))
    if not P.dsg.feasible:
        rep.count('graph:init-infeasible')
        if n_model > 0:
            dis('infeasible-graph-but-designs-exist', {}, {'n_model': n_model})
        return None
    try:
        gp = P.processor(enc)
        dvs = gp.des_vars
    except Exception as e:
        if n_model > 0:
            dis('ctor-exc', {}, {'exc': repr(e)[:300], 'n_model': n_model})
        else:
            rep.count('ctor-error:no-design')
            if not isinstance(e, (RuntimeError, ValueError)):
                dis('ctor-exc', {}, {'exc': repr(e)[:300], 'n_model': 0})
        return None
    xs, full = proc.vectors(ctx.rng, dvs, limit)
    n_opts = [dv.n_opts if dv.is_discrete else None for dv in dvs]
    by_vec, by_design = {}, {}
    results = {}
    stats = {'n': 0, 'corrected': 0}
    sel_idx = {}
    for i, dv in enumerate(dvs):
        if isinstance(dv.node, SelectionChoiceNode):
            sel_idx[i] = P.b.cidx[dv.node]
    dv_idx = {i: P.b.idx[dv.node] for i, dv in enumerate(dvs) if isinstance(dv.node, DesignVariableNode)}
    conn_var = {i for i, dv in enumerate(dvs) if isinstance(dv.node, ConnectionChoiceNode)}
    for x in xs:
        case = {'x': tolist(x)}
        try:
            inst, xi, act = gp.get_graph(list(x))
        except Exception as e:
            if n_model > 0 or not isinstance(e, RuntimeError):
                dis('decode-exc', case, {'exc': repr(e)[:300], 'n_model': n_model})
            else:
                rep.count('decode-error:no-design')
            continue
        stats['n'] += 1
        xi = tolist(xi)
        act = [bool(a) for a in act]
        c = P.canon(inst)
        key = norm_key(P, P.design_key(c))
        results[tuple(tolist(x))] = (tuple(xi), tuple(act), key)
        if xi != tolist(x):
            stats['corrected'] += 1
        for complaint in P.judge(c):
            dis(complaint, case, {'row': list(c['row']), 'mats': [list(m) if m else m for m in c['mats']],
                                  'dvals': list(c['dvals']), 'nodes': list(c['nodes'])})
        # C03: range
        for i, (v, n) in enumerate(zip(xi, n_opts)):
            if n is not None and not (v == int(v) and 0 <= v < n):
                dis('corrected-out-of-range', case, {'xi': xi, 'var': i})
            if n is None and not (dvs[i].bounds[0] <= v <= dvs[i].bounds[1]):
                dis('corrected-out-of-range', case, {'xi': xi, 'var': i})
        # C03: describes
        present = set(c['nodes'])
        for i, ci in sel_idx.items():
            if act[i]:
                opt_node = dvs[i].options[int(xi[i])]
                k = P.b.idx.get(opt_node)
                opts = spec['sel'][ci]['opts']
                if c['row'][ci] is None or k not in opts or opts.index(k) != c['row'][ci]:
                    dis('vector-does-not-describe-instance', case, {'var': i, 'choice': ci, 'instance_opt': c['row'][ci]})
                if spec['sel'][ci]['o'] not in present:
                    dis('active-but-absent', case, {'var': i, 'choice': ci})
        for i, node in dv_idx.items():
            d = [d_ for d_ in spec['dvs'] if d_['node'] == node][0]
            if act[i]:
                if node not in present:
                    dis('active-but-absent', case, {'var': i, 'dv_node': node})
                else:
                    stored = inst.des_var_value(P.b.nodes[node])
                    if stored != xi[i]:
                        dis('dv-value-not-reported', case, {'var': i, 'stored': repr(stored), 'reported': xi[i]})
        for i in conn_var:
            if act[i] and all(cc not in P.dsg.graph.nodes for cc, *_ in P.conn):
                dis('active-but-absent', case, {'var': i})
        for i, a in enumerate(act):
            if not a:
                canon_v = 0. if n_opts[i] is not None else (dvs[i].bounds[0] + dvs[i].bounds[1]) / 2
                if xi[i] != canon_v:
                    dis('inactive-not-canonical', case, {'var': i, 'value': xi[i]})
        # C03: fixed point
        if xi != tolist(x):
            try:
                inst2, xi2, act2 = gp.get_graph(list(xi))
                k2 = norm_key(P, P.design_key(P.canon(inst2)))
                if tolist(xi2) != xi or k2 != key:
                    dis('not-idempotent', case, {'xi': xi, 'xi2': tolist(xi2)})
                elif [bool(a) for a in act2] != act:
                    dis('activeness-paths-differ', case, {'xi': xi, 'act_corrected_from': act, 'act_direct': [bool(a) for a in act2]},
                        conn_var_involved=any((a1 != a2) and (i in conn_var) for i, (a1, a2) in enumerate(zip(act, act2))))
            except Exception as e:
                dis('not-idempotent', case, {'xi': xi, 'exc': repr(e)[:200]})
        # create flag
        try:
            _, xi3, act3 = gp.get_graph(list(x), create=False)
            if tolist(xi3) != xi or [bool(a) for a in act3] != act:
                dis('create-flag-activeness', case, {'create': [xi, act], 'no_create': [tolist(xi3), [bool(a) for a in act3]]})
        except Exception as e:
            dis('create-flag-activeness', case, {'exc': repr(e)[:200]})
        # C03: injectivity (discrete part of the vector identifies the design)
        vkey = tuple(v if n is not None else 'c' for v, n in zip(xi, n_opts))
        if vkey in by_vec and by_vec[vkey] != key:
            dis('same-vector-different-design', case, {'xi': xi})
        by_vec[vkey] = key
        if key in by_design and by_design[key] != vkey:
            dis('same-design-different-vectors', case, {'xi': xi, 'other': list(by_design[key])},
                conn_var_involved=any(a != b for i, (a, b) in enumerate(zip(vkey, by_design[key])) if i in conn_var))
        by_design[key] = vkey
    rep.case(inp, nontrivial=len(model) >= 2 or bool(spec.get('conn')) or bool(spec.get('dvs')), n=max(stats['n'], 1),
             sample=dict(inp, n_vectors=len(xs), n_model_designs=n_model) if len(model) >= 2 else None)
    rep.count('enc:' + enc, 'stream:' + spec.get('stream', '?'), 'space:%s' % ('full' if full else 'sampled'))
    out = {'P': P, 'gp': gp, 'by_design': by_design, 'full': full, 'n_model': n_model, 'results': results}
    # coverage (every admitted architecture is the decode of some vector)
    model_keys = None
    if n_model <= 3000:
        model_keys = all_model_keys(P)
        out['model_keys'] = model_keys
    if full and model_keys is not None:
        missing = {norm_key(P, k) for k in model_keys} - set(by_design)
        if missing:
            dis('coverage-missing', {}, {'missing': [str(m) for m in sorted(missing, key=str)[:3]], 'n_model': len(model_keys),
                                        'n_reached': len(by_design)})
    # enumeration
    if want_enum and enc == 'COMPLETE':
        enum_checks(ctx, P, gp, dvs, n_opts, model_keys, n_model, dis, conn_var)
    return out


def all_model_keys(P):
    import itertools
    keys = set()
    for row, a in P.model.items():
        sets = []
        for cc, mconn, sidx, tidx in P.conn:
            if mconn is None:
                sets.append([None])
        live = [c for c in P.conn if c[1] is not None]
        per_conn = []
        li = 0
        for cc, mconn, sidx, tidx in P.conn:
            if mconn is None:
                per_conn.append([None])
            else:
                mc = a['conn'][li]
                li += 1
                per_conn.append([tuple(v for r in M for v in r) for M in mc['sets']])
        present = set(a['nodes'])
        per_dv = []
        for d in P.dv_nodes():
            if d['node'] not in present:
                per_dv.append([None])
            elif P.is_link_follower(d['node']):
                per_dv.append(['follower'])
            elif d['kind'] == 'discrete':
                per_dv.append(list(range(d['n'])))
            else:
                per_dv.append(['c'])
        for mats in itertools.product(*per_conn):
            for dv in itertools.product(*per_dv):
                keys.add((row, tuple(mats), tuple(dv)))
    return keys


def norm_key(P, key):
    """Linked followers carry derived values; compare them as a tag."""
    row, mats, dv = key
    dv = tuple('follower' if (v is not None and P.is_link_follower(d['node'])) else v for d, v in zip(P.dv_nodes(), dv))
    return (row, mats, dv)


def enum_checks(ctx, P, gp, dvs, n_opts, model_keys, n_model, dis, conn_var):
    try:
        res = gp.get_all_discrete_x()
        nv = gp.get_n_valid_designs()
        nd = gp.get_n_design_space()
        ir = gp.get_imputation_ratio(include_cont=False)
    except Exception as e:
        dis('enum-exc', {}, {'exc': repr(e)[:300]})
        return
    decl = 1
    for dv in dvs:
        if dv.is_discrete:
            decl *= dv.n_opts
    if nd != decl:
        dis('n-declared-mismatch', {}, {'impl': int(nd), 'product': decl})
    if res is None:
        return
    xs, acts = res
    if nv != len(xs):
        dis('n-valid-mismatch', {}, {'n_valid': int(nv), 'rows': len(xs)})
    if nv != n_model:
        dis('n-valid-mismatch', {}, {'n_valid': int(nv), 'model': n_model})
    if nv > 0 and not math.isclose(ir, nd / nv, rel_tol=1e-9):
        dis('imputation-ratio-mismatch', {}, {'impl': float(ir), 'quotient': nd / nv})
    seen = {}
    idx = range(len(xs)) if len(xs) <= ctx.pick(300, 3000) else ctx.rng.sample(range(len(xs)), ctx.pick(300, 3000))
    partial = len(idx) != len(xs)
    always_active = [True] * len(dvs)
    for ix in idx:
        x = tolist(xs[ix])
        a_enum = [bool(a) for a in acts[ix]]
        case = {'x': x, 'enum_row': True}
        for i, a in enumerate(a_enum):
            always_active[i] = always_active[i] and a
        # continuous variables are placeholders (0) in the list of *discrete* vectors: decode with an in-bounds value
        # and compare the discrete / inactive positions only
        x_dec = [v if (n_opts[i] is not None or not a_enum[i]) else dvs[i].bounds[0] for i, v in enumerate(x)]
        try:
            inst, xi, act = gp.get_graph(list(x_dec))
        except Exception as e:
            dis('enum-row-not-fixed-point', case, {'exc': repr(e)[:200]})
            continue
        if tolist(xi) != x_dec:
            dis('enum-row-not-fixed-point', case, {'xi': tolist(xi)})
        if [bool(a) for a in act] != a_enum:
            dis('enum-activeness-differs', case, {'enum': a_enum, 'decode': [bool(a) for a in act]},
                conn_var_involved=any((a1 != bool(a2)) and (i in conn_var) for i, (a1, a2) in enumerate(zip(a_enum, act))))
        key = norm_key(P, P.design_key(P.canon(inst)))
        if key in seen:
            dis('enum-duplicate-design', case, {'other': seen[key]})
        seen[key] = x
    if not partial:
        for i, dv in enumerate(dvs):
            if not dv.conditionally_active and not always_active[i]:
                dis('unconditional-variable-inactive', {}, {'var': i, 'name': dv.name})
    if model_keys is not None and not partial:
        mk = {norm_key(P, k) for k in model_keys}
        if mk - set(seen):
            dis('enum-missing-designs', {}, {'missing': [str(m) for m in sorted(mk - set(seen), key=str)[:3]], 'n_model': len(mk), 'n_enum': len(seen)})
        if set(seen) - mk:
            dis('enum-extra-designs', {}, {'extra': [str(m) for m in sorted(set(seen) - mk, key=str)[:3]]})
