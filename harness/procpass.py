"""One pass over a (problem, selection encoder): decode every vector of the declared space (or samples), the
enumeration of valid designs and the statistics, and emit every deviation from the model as a disagreement kind.
Each property module judges the kinds that belong to its statement:

  C01  ctor-exc, decode-exc, row-not-an-architecture, node-set-differs, invalid-connection-set, not-final, not-feasible,
       connection-edge-outside-choice, dv-node-without-value, dv-value-out-of-domain, ctor-error-but-designs-exist
  C03  corrected-out-of-range, not-idempotent, vector-does-not-describe-instance, same-vector-different-design,
       same-design-different-vectors, dv-value-not-reported
  C04  enum-row-not-fixed-point, enum-activeness-differs, enum-duplicate-design, enum-missing-designs, enum-extra-designs,
       n-valid-mismatch, n-declared-mismatch, imputation-ratio-mismatch, enum-exc
  C07  active-but-absent, inactive-not-canonical, unconditional-variable-inactive, activeness-paths-differ,
       create-flag-activeness
  C14  fast-unsound (= C01 kinds under FAST), fast-coverage-missing, fast-valid-vector-changed, fast-vs-complete
"""
import math

import numpy as np

from adsg_core.graph.adsg_nodes import DesignVariableNode, SelectionChoiceNode, ConnectionChoiceNode

from . import proc

SOUND_KINDS = {'row-not-an-architecture', 'node-set-differs', 'invalid-connection-set', 'not-final', 'not-feasible',
               'connection-edge-outside-choice', 'dv-node-without-value', 'dv-value-out-of-domain'}


def tolist(v):
    return [float(a) for a in v]


def run_pass(ctx, rep, spec, enc, kinds, limit=None, want_enum=True):
    limit = limit or ctx.pick(200, 2000)
    cls = proc.cls_of(spec)
    cls['enc'] = enc
    inp = {'spec': spec, 'enc': enc}

    def dis(kind, extra, detail, **more):
        if kind in kinds:
            rep.disagree(kind, dict(inp, **extra), detail, dict(cls, **more))
    try:
        P = proc.Problem(ctx, spec)
    except Exception as e:
        rep.count('build-exc:' + type(e).__name__)
        return None
    model = P.model
    n_model = P.n_designs_discrete()
    # the choices of a constraint are not always active together (they sit on different hierarchy levels)
    if spec.get('cons'):
        cs = spec['cons'][0]['cs']
        cls['cons_mixed'] = any(len({r[c] is None for c in cs}) > 1 for r in model)
    # some declared option occurs in no architecture of the model (e.g. it necessarily leads to an incompatibility)
    cls['dead_option'] = any(all(r[ci] != k for r in model) for ci, c_ in enumerate(spec['sel']) for k in range(len(c_['opts'])))
    if not P.dsg.feasible:
        rep.count('graph:init-infeasible')
        if n_model > 0:
            dis('infeasible-graph-but-designs-exist', {}, {'n_model': n_model})
        return None
    try:
        gp = P.processor(enc)
        dvs = gp.des_vars
    except Exception as e:
        if n_model > 0:
            dis('ctor-exc', {}, {'exc': repr(e)[:300], 'n_model': n_model})
        else:
            rep.count('ctor-error:no-design')
            if not isinstance(e, (RuntimeError, ValueError)):
                dis('ctor-exc', {}, {'exc': repr(e)[:300], 'n_model': 0})
        return None
    xs, full = proc.vectors(ctx.rng, dvs, limit)
    want_lean = any(k in kinds for k in LEAN_KINDS)
    spy = ConnSpy(gp) if want_lean else None
    lean_samples = []
    lean_cap = ctx.pick(60, 400)
    n_opts = [dv.n_opts if dv.is_discrete else None for dv in dvs]
    by_vec, by_design = {}, {}
    results = {}
    stats = {'n': 0, 'corrected': 0}
    sel_idx = {}
    for i, dv in enumerate(dvs):
        if isinstance(dv.node, SelectionChoiceNode):
            sel_idx[i] = P.b.cidx[dv.node]
    dv_idx = {i: P.b.idx[dv.node] for i, dv in enumerate(dvs) if isinstance(dv.node, DesignVariableNode)}
    conn_var = {i for i, dv in enumerate(dvs) if isinstance(dv.node, ConnectionChoiceNode)}
    for x in xs:
        case = {'x': tolist(x)}
        try:
            if spy:
                spy.reset()
            inst, xi, act = gp.get_graph(list(x))
            calls = dict(spy.calls) if spy else None
        except Exception as e:
            if n_model > 0 or not isinstance(e, RuntimeError):
                dis('decode-exc', case, {'exc': repr(e)[:300], 'n_model': n_model})
            else:
                rep.count('decode-error:no-design')
            continue
        stats['n'] += 1
        xi = tolist(xi)
        act = [bool(a) for a in act]
        c = P.canon(inst)
        key = norm_key(P, P.design_key(c))
        results[tuple(tolist(x))] = (tuple(xi), tuple(act), key)
        if spy and len(lean_samples) < lean_cap:
            lean_samples.append((list(x), c, list(xi), list(act), calls))
        if xi != tolist(x):
            stats['corrected'] += 1
        for complaint in P.judge(c):
            dis(complaint, case, {'row': list(c['row']), 'mats': [list(m) if m else m for m in c['mats']],
                                  'dvals': list(c['dvals']), 'nodes': list(c['nodes'])})
        # C03: range
        for i, (v, n) in enumerate(zip(xi, n_opts)):
            if n is not None and not (v == int(v) and 0 <= v < n):
                dis('corrected-out-of-range', case, {'xi': xi, 'var': i})
            if n is None and not (dvs[i].bounds[0] <= v <= dvs[i].bounds[1]):
                dis('corrected-out-of-range', case, {'xi': xi, 'var': i})
        # C03: describes
        present = set(c['nodes'])
        for i, ci in sel_idx.items():
            if act[i]:
                opt_node = dvs[i].options[int(xi[i])]
                k = P.b.idx.get(opt_node)
                opts = spec['sel'][ci]['opts']
                if c['row'][ci] is None or k not in opts or opts.index(k) != c['row'][ci]:
                    dis('vector-does-not-describe-instance', case, {'var': i, 'choice': ci, 'instance_opt': c['row'][ci]})
                if spec['sel'][ci]['o'] not in present:
                    dis('active-but-absent', case, {'var': i, 'choice': ci})
        for i, node in dv_idx.items():
            d = [d_ for d_ in spec['dvs'] if d_['node'] == node][0]
            if act[i]:
                if node not in present:
                    dis('active-but-absent', case, {'var': i, 'dv_node': node})
                else:
                    stored = inst.des_var_value(P.b.nodes[node])
                    if stored != xi[i]:
                        dis('dv-value-not-reported', case, {'var': i, 'stored': repr(stored), 'reported': xi[i]})
        for i in conn_var:
            if act[i] and all(cc not in P.dsg.graph.nodes for cc, *_ in P.conn):
                dis('active-but-absent', case, {'var': i})
        for i, a in enumerate(act):
            if not a:
                canon_v = 0. if n_opts[i] is not None else (dvs[i].bounds[0] + dvs[i].bounds[1]) / 2
                if xi[i] != canon_v:
                    dis('inactive-not-canonical', case, {'var': i, 'value': xi[i]})
        # C03: fixed point
        if xi != tolist(x):
            try:
                inst2, xi2, act2 = gp.get_graph(list(xi))
                k2 = norm_key(P, P.design_key(P.canon(inst2)))
                if tolist(xi2) != xi or k2 != key:
                    dis('not-idempotent', case, {'xi': xi, 'xi2': tolist(xi2)})
                elif [bool(a) for a in act2] != act:
                    dis('activeness-paths-differ', case, {'xi': xi, 'act_corrected_from': act, 'act_direct': [bool(a) for a in act2]},
                        conn_var_involved=any((a1 != a2) and (i in conn_var) for i, (a1, a2) in enumerate(zip(act, act2))))
            except Exception as e:
                dis('not-idempotent', case, {'xi': xi, 'exc': repr(e)[:200]})
        # create flag
        try:
            _, xi3, act3 = gp.get_graph(list(x), create=False)
            if tolist(xi3) != xi or [bool(a) for a in act3] != act:
                dis('create-flag-activeness', case, {'create': [xi, act], 'no_create': [tolist(xi3), [bool(a) for a in act3]]})
        except Exception as e:
            dis('create-flag-activeness', case, {'exc': repr(e)[:200]})
        # C03: injectivity (discrete part of the vector identifies the design)
        vkey = tuple(v if n is not None else 'c' for v, n in zip(xi, n_opts))
        if vkey in by_vec and by_vec[vkey] != key:
            dis('same-vector-different-design', case, {'xi': xi})
        by_vec[vkey] = key
        if key in by_design and by_design[key] != vkey:
            dis('same-design-different-vectors', case, {'xi': xi, 'other': list(by_design[key])},
                conn_var_involved=any(a != b for i, (a, b) in enumerate(zip(vkey, by_design[key])) if i in conn_var))
        by_design[key] = vkey
    if spy:
        spy.remove()
        try:
            rep.count('lean-decode:' + str(lean_decode_checks(ctx, P, gp, dvs, lean_samples, dis, {})).split(':')[0])
        except Exception as e:
            import traceback
            rep.disagree('harness-exc', inp, {'exc': repr(e)[:200], 'tb': traceback.format_exc(limit=6)[-900:]})
    rep.case(inp, nontrivial=len(model) >= 2 or bool(spec.get('conn')) or bool(spec.get('dvs')), n=max(stats['n'], 1),
             sample=dict(inp, n_vectors=len(xs), n_model_designs=n_model) if len(model) >= 2 else None)
    rep.count('enc:' + enc, 'stream:' + spec.get('stream', '?'), 'space:%s' % ('full' if full else 'sampled'))
    out = {'P': P, 'gp': gp, 'by_design': by_design, 'full': full, 'n_model': n_model, 'results': results}
    # coverage (every admitted architecture is the decode of some vector)
    model_keys = None
    if n_model <= 3000:
        model_keys = all_model_keys(P)
        out['model_keys'] = model_keys
    if 'lean-design-space' in kinds:
        lean_design_space(ctx, P, gp, n_model, model_keys, dis)
    if full and model_keys is not None:
        missing = {norm_key(P, k) for k in model_keys} - set(by_design)
        if missing:
            dis('coverage-missing', {}, {'missing': [str(m) for m in sorted(missing, key=str)[:3]], 'n_model': len(model_keys),
                                        'n_reached': len(by_design)})
    # enumeration
    if want_enum and enc == 'COMPLETE':
        enum_checks(ctx, P, gp, dvs, n_opts, model_keys, n_model, dis, conn_var)
    return out


def all_model_keys(P):
    import itertools
    keys = set()
    for row, a in P.model.items():
        sets = []
        for cc, mconn, sidx, tidx in P.conn:
            if mconn is None:
                sets.append([None])
        live = [c for c in P.conn if c[1] is not None]
        per_conn = []
        li = 0
        for cc, mconn, sidx, tidx in P.conn:
            if mconn is None:
                per_conn.append([None])
            else:
                mc = a['conn'][li]
                li += 1
                per_conn.append([tuple(v for r in M for v in r) for M in mc['sets']])
        present = set(a['nodes'])
        per_dv = []
        for d in P.dv_nodes():
            if d['node'] not in present:
                per_dv.append([None])
            elif P.is_link_follower(d['node']):
                per_dv.append(['follower'])
            elif d['kind'] == 'discrete':
                per_dv.append(list(range(d['n'])))
            else:
                per_dv.append(['c'])
        for mats in itertools.product(*per_conn):
            for dv in itertools.product(*per_dv):
                keys.add((row, tuple(mats), tuple(dv)))
    return keys


def norm_key(P, key):
    """Linked followers carry derived values; compare them as a tag."""
    row, mats, dv = key
    dv = tuple('follower' if (v is not None and P.is_link_follower(d['node'])) else v for d, v in zip(P.dv_nodes(), dv))
    return (row, mats, dv)


def enum_checks(ctx, P, gp, dvs, n_opts, model_keys, n_model, dis, conn_var):
    try:
        res = gp.get_all_discrete_x()
        nv = gp.get_n_valid_designs()
        nd = gp.get_n_design_space()
        ir = gp.get_imputation_ratio(include_cont=False)
    except Exception as e:
        dis('enum-exc', {}, {'exc': repr(e)[:300]})
        return
    decl = 1
    for dv in dvs:
        if dv.is_discrete:
            decl *= dv.n_opts
    if nd != decl:
        dis('n-declared-mismatch', {}, {'impl': int(nd), 'product': decl})
    if res is None:
        return
    xs, acts = res
    if nv != len(xs):
        dis('n-valid-mismatch', {}, {'n_valid': int(nv), 'rows': len(xs)})
    if nv != n_model:
        dis('n-valid-mismatch', {}, {'n_valid': int(nv), 'model': n_model})
    if nv > 0 and not math.isclose(ir, nd / nv, rel_tol=1e-9):
        dis('imputation-ratio-mismatch', {}, {'impl': float(ir), 'quotient': nd / nv})
    seen = {}
    idx = range(len(xs)) if len(xs) <= ctx.pick(300, 3000) else ctx.rng.sample(range(len(xs)), ctx.pick(300, 3000))
    partial = len(idx) != len(xs)
    always_active = [True] * len(dvs)
    for ix in idx:
        x = tolist(xs[ix])
        a_enum = [bool(a) for a in acts[ix]]
        case = {'x': x, 'enum_row': True}
        for i, a in enumerate(a_enum):
            always_active[i] = always_active[i] and a
        # continuous variables are placeholders (0) in the list of *discrete* vectors: decode with an in-bounds value
        # and compare the discrete / inactive positions only
        x_dec = [v if (n_opts[i] is not None or not a_enum[i]) else dvs[i].bounds[0] for i, v in enumerate(x)]
        try:
            inst, xi, act = gp.get_graph(list(x_dec))
        except Exception as e:
            dis('enum-row-not-fixed-point', case, {'exc': repr(e)[:200]})
            continue
        if tolist(xi) != x_dec:
            dis('enum-row-not-fixed-point', case, {'xi': tolist(xi)})
        if [bool(a) for a in act] != a_enum:
            dis('enum-activeness-differs', case, {'enum': a_enum, 'decode': [bool(a) for a in act]},
                conn_var_involved=any((a1 != bool(a2)) and (i in conn_var) for i, (a1, a2) in enumerate(zip(a_enum, act))))
        key = norm_key(P, P.design_key(P.canon(inst)))
        if key in seen:
            dis('enum-duplicate-design', case, {'other': seen[key]})
        seen[key] = x
    if not partial:
        for i, dv in enumerate(dvs):
            if not dv.conditionally_active and not always_active[i]:
                dis('unconditional-variable-inactive', {}, {'var': i, 'name': dv.name})
    if model_keys is not None and not partial:
        mk = {norm_key(P, k) for k in model_keys}
        if mk - set(seen):
            dis('enum-missing-designs', {}, {'missing': [str(m) for m in sorted(mk - set(seen), key=str)[:3]], 'n_model': len(mk), 'n_enum': len(seen)})
        if set(seen) - mk:
            dis('enum-extra-designs', {}, {'extra': [str(m) for m in sorted(set(seen) - mk, key=str)[:3]]})


# ---------------------------------------------------------------------------------------------------------------------
# Tie of the Lean definitions `decode` / `decodeRef` / `validDesign` / `allDesigns` (Adsg/Model/Decode.lean, Design.lean)
# to the implementation: driver ops `decode_full`, `design_space`.

LEAN_KINDS = {'lean-decode-design', 'lean-decode-vector', 'lean-decode-activeness', 'lean-contract', 'lean-design-space'}
GRID = 1000


class ConnSpy:
    """Records the (existence pattern, input, output) of AssignmentManager.get_conn_idx calls made by get_graph -
    an observation of the processor's use of its managers from the outside (instance attribute on the manager object)."""

    def __init__(self, gp):
        self.calls = {}
        self.mgrs = []
        self.gp = gp
        orig_get_graph = gp.get_graph

        def get_graph(*a, **kw):
            # get_graph calls itself again after excluding an infeasible combination: only the calls of the last
            # (successful) pass describe the returned instance
            self.calls = {}
            return orig_get_graph(*a, **kw)
        gp.get_graph = get_graph
        for cc, data in gp._conn_choice_data_map.items():
            mgr = data[0]
            orig = mgr.get_conn_idx

            def wrapped(dv, existence=None, _orig=orig, _cc=cc, **kw):
                out = _orig(dv, existence=existence, **kw)
                self.calls[_cc] = (existence, [int(v) for v in dv], out)
                return out
            mgr.get_conn_idx = wrapped
            self.mgrs.append(mgr)

    def reset(self):
        self.calls = {}

    def remove(self):
        try:
            del self.gp.get_graph
        except AttributeError:
            pass
        for mgr in self.mgrs:
            try:
                del mgr.get_conn_idx
            except AttributeError:
                pass


def manager_table(mgr, existence, cache):
    """(design vector with -1 marks, matrix) rows of one existence pattern, through the encoder's own tables when it is
    an eager encoder and through the manager API otherwise."""
    from adsg_core.optimization.assign_enc.encoding import EagerEncoder
    key = (id(mgr), hash(existence))
    if key in cache:
        return cache[key]
    enc = mgr.encoder
    if isinstance(enc, EagerEncoder) and existence in enc._design_vectors:
        tab = [[[int(v) for v in dv], [[int(v) for v in r] for r in m]]
               for dv, m in zip(enc._design_vectors[existence], enc.matrix[existence])]
        kind = 'eager'
    else:
        alldv = mgr.get_all_design_vectors()
        rows = alldv.get(existence)
        tab = None
        kind = 'api'
        if rows is not None:
            tab = []
            for r in rows:
                _, _, M = mgr.get_matrix([max(int(v), 0) for v in r], existence=existence)
                tab.append([[int(v) for v in r], [[int(v) for v in rr] for rr in np.array(M)]])
    cache[key] = (tab, kind)
    return cache[key]


def lean_problem(P, gp):
    """The Lean `Problem` in the processor's own variable order, or None when the spec has features the decode model
    does not cover (linked DV nodes)."""
    spec = P.spec
    if spec.get('dv_links'):
        return None
    conn_by_node = {cc: (mconn, sidx, tidx) for cc, mconn, sidx, tidx in P.conn}
    conn, conn_nodes = [], []
    for cc in gp.connection_choice_nodes:
        if cc not in conn_by_node or conn_by_node[cc][0] is None:
            return None
        conn.append(conn_by_node[cc][0])
        conn_nodes.append(cc)
    if len(conn) != len([c for c in P.conn if c[1] is not None]):
        return None
    dspec = {d['node']: d for d in spec.get('dvs', [])}
    dvs, dv_meta = [], []
    for nd in gp.design_variable_nodes:
        d = dspec.get(P.b.idx.get(nd))
        if d is None:
            return None
        if d['kind'] == 'discrete':
            dvs.append({'node': d['node'], 'dom': {'kind': 'discrete', 'n': d['n']}})
        else:
            dvs.append({'node': d['node'], 'dom': {'kind': 'cont', 'lo': 0, 'hi': GRID}})
        dv_meta.append(d)
    if len(dvs) != len(spec.get('dvs', [])):
        return None
    return {'g': gen_model_graph(spec), 'conn': conn, 'dvs': dvs, 'conn_nodes': conn_nodes, 'dv_meta': dv_meta}


def gen_model_graph(spec):
    from . import gen
    return gen.model_graph(spec)


def to_grid(d, v):
    """Continuous value -> grid point (affine map lo -> 0, hi -> GRID); None when not on the grid."""
    lo, hi = d['lo'], d['hi']
    t = (v - lo) / (hi - lo) * GRID
    k = round(t)
    pts = {0: lo, GRID: hi, GRID // 4: lo + (hi - lo) * .25, GRID // 2: (lo + hi) / 2}
    if k in pts and pts[k] == v:
        return k
    if k < 0 or k > GRID:       # out-of-range probes: any point beyond the bound
        return k
    return None


def from_grid(d, k):
    lo, hi = d['lo'], d['hi']
    return {0: lo, GRID: hi, GRID // 4: lo + (hi - lo) * .25, GRID // 2: (lo + hi) / 2}.get(k)


def lean_decode_checks(ctx, P, gp, dvs, samples, dis, cache):
    """samples: [(x, inst canon c, xi, act, spy calls)]"""
    LP = lean_problem(P, gp)
    if LP is None:
        return 'skipped'
    spec = P.spec
    sel_vars, sel_maps = [], []
    for i, dv in enumerate(dvs):
        if isinstance(dv.node, SelectionChoiceNode):
            ci = P.b.cidx[dv.node]
            opts = spec['sel'][ci]['opts']
            try:
                sel_maps.append([opts.index(P.b.idx[o]) for o in dv.options])
            except (ValueError, KeyError):
                return 'skipped'
            sel_vars.append(ci)
    n_sel = len(sel_vars)
    conn_nopts, conn_rng = [], []
    for cc in LP['conn_nodes']:
        mgr, _, _, i0, i1, _ = gp._conn_choice_data_map[cc]
        conn_nopts.append([int(dvs[i].n_opts) for i in range(i0, i1)])
        conn_rng.append((i0, i1))
    dv_off = n_sel + sum(len(n) for n in conn_nopts)
    if dv_off + len(LP['dvs']) != len(dvs):
        return 'skipped'
    queries, meta = [], []
    shown_by_row = {}
    for x, c, xi, act, calls in samples:
        if any(k == -9 for k in c['row']):
            continue
        # which selection variables the encoder shows for this architecture (oracle; must be a function of the row)
        shown = [bool(act[j]) if c['row'][sel_vars[j]] is not None else True for j in range(n_sel)]
        if shown_by_row.setdefault(c['row'], shown) != shown:
            dis('lean-contract', {'x': tolist(x)}, {'failed': ['shown-not-a-function-of-the-architecture'], 'row': list(c['row'])})
            continue
        a = [(k if k is not None else (0 if spec['sel'][ci]['opts'] else None)) for ci, k in enumerate(c['row'])]
        xm = []
        ok = True
        for j in range(n_sel):
            v = int(x[j])
            xm.append(sel_maps[j][v] if 0 <= v < len(sel_maps[j]) else v)
        tables, imps, kinds = [], [], []
        for cc, (i0, i1), nop in zip(LP['conn_nodes'], conn_rng, conn_nopts):
            xm += [int(v) for v in x[i0:i1]]
            mconn = [m for m in P.conn if m[0] is cc][0][1]
            ns, nt = len(mconn['src']), len(mconn['tgt'])
            if cc not in calls:
                # the connection choice does not exist in this architecture: all variables inactive, no connections
                tables.append(None)
                imps.append(0)
                kinds.append('absent')
                continue
            existence, _, out = calls[cc]
            mgr = gp._conn_choice_data_map[cc][0]
            tab, kind = manager_table(mgr, existence, cache)
            M = [[0] * nt for _ in range(ns)]
            for e in out[2]:
                M[int(e[0])][int(e[1])] += 1
            if tab is None:
                ok = False
                break
            mats = [r[1] for r in tab]
            tables.append(tab)
            imps.append(mats.index(M) if M in mats else len(tab))
            kinds.append(kind)
        if not ok:
            continue
        for d, i in zip(LP['dv_meta'], range(dv_off, len(dvs))):
            if d['kind'] == 'discrete':
                xm.append(int(x[i]))
            else:
                k = to_grid(d, x[i])
                if k is None:
                    ok = False
                    break
                xm.append(k)
        if not ok:
            continue
        queries.append({'x': xm, 'a': a, 'tables': tables, 'imps': imps, 'shown': shown})
        meta.append((x, c, xi, act, kinds))
    if not queries:
        return 'no-queries'
    m = ctx.driver.ask('decode_full', g=LP['g'], conn=LP['conn'], dvs=LP['dvs'], sel_vars=sel_vars, conn_nopts=conn_nopts,
                       queries=queries)
    if not m['wf'] or not m['dv_wf']:
        dis('lean-contract', {}, {'wf': m['wf'], 'dv_wf': m['dv_wf']})
    for (x, c, xi, act, kinds), q, r in zip(meta, queries, m['results']):
        case = {'x': tolist(x)}
        bad = [k for k in ('feasible', 'len_ok', 'sel_ok', 'conn_pos') if not r[k]]
        for ki, t in enumerate(r['tables']):
            if 'absent' in t:
                if not t['absent']:
                    bad.append('table%d:choice-present-but-not-decoded' % ki)
            else:
                bad += ['table%d:%s' % (ki, k) for k in ('wf', 'mats_exact', 'imp_lt', 'pos') if not t[k]]
                if kinds[ki] == 'absent':
                    bad.append('table%d:choice-absent-but-decoded' % ki)
        if bad:
            dis('lean-contract', case, {'failed': bad, 'a': q['a'], 'row': list(c['row'])})
            continue
        # activeness: the eager manager is modelled as it is; the others follow the reference semantics
        dm = r['impl'] if all(k in ('eager', 'absent') for k in kinds) else r['ref']
        d = dm['design']
        # the connection choices of the model are in processor order; c['mats'] is in spec order
        by_cc = {cc_[0]: (list(mm) if mm is not None else None) for cc_, mm in zip(P.conn, c['mats'])}
        mats_impl = [by_cc[cc_] for cc_ in LP['conn_nodes']]
        mats_model = [[v for row in M for v in row] for M in d['mats']]
        dvals_model = []
        for dd, v, vv in zip(LP['dv_meta'], d['dvals'], dm['vals']):
            dvals_model.append(None if vv is None else (vv if dd['kind'] == 'discrete' else from_grid(dd, vv)))
        by_node = {dd['node']: v for dd, v in zip(P.dv_nodes(), c['dvals'])}
        dvals_impl = [by_node[dd['node']] for dd in LP['dv_meta']]
        if (d['row'] != list(c['row']) or mats_impl != mats_model or dvals_model != dvals_impl
                or r['nodes'] != list(c['nodes']) or not r['valid']):
            dis('lean-decode-design', case, {'model': d, 'model_vals': dvals_model, 'impl_row': list(c['row']),
                                             'impl_mats': mats_impl, 'impl_dvals': dvals_impl, 'valid': r['valid'],
                                             'nodes_equal': r['nodes'] == list(c['nodes'])})
            continue
        # corrected vector (selection values translated to option indices of the spec)
        xi_m = []
        for j in range(n_sel):
            v = int(xi[j])
            # an inactive variable carries the canonical 0, not an option index
            xi_m.append((sel_maps[j][v] if 0 <= v < len(sel_maps[j]) else v) if act[j] else v)
        for (i0, i1) in conn_rng:
            xi_m += [int(v) for v in xi[i0:i1]]
        exact = True
        for dd, i in zip(LP['dv_meta'], range(dv_off, len(dvs))):
            if dd['kind'] == 'discrete':
                xi_m.append(int(xi[i]))
            else:
                k = to_grid(dd, xi[i])
                if k is None:
                    exact = False
                xi_m.append(k)
        act_l = [bool(v) for v in act]
        act_m = act_l[:n_sel] + [v for (i0, i1) in conn_rng for v in act_l[i0:i1]] + act_l[dv_off:]
        if exact and xi_m != dm['x']:
            dis('lean-decode-vector', case, {'impl': xi_m, 'model': dm['x'], 'in_bounds': r['in_bounds']})
        elif not r['in_bounds']:
            dis('lean-decode-vector', case, {'model': dm['x'], 'in_bounds': False})
        if act_m != dm['act']:
            dis('lean-decode-activeness', case, {'impl': act_m, 'model': dm['act'], 'managers': kinds},
                conn_var_involved=any(a1 != a2 for a1, a2 in zip(act_m[n_sel:dv_off], dm['act'][n_sel:dv_off])))
    return 'checked:%d' % len(queries)


def lean_design_space(ctx, P, gp, n_model, model_keys, dis):
    """`allDesigns` / `nValid` / `nValidFormula` of the Lean model vs the harness' own product construction (which the
    enumeration checks compare the implementation with)."""
    spec = P.spec
    if spec.get('dv_links'):
        return
    conn = [m[1] for m in P.conn if m[1] is not None]
    dvs = [{'node': d['node'], 'dom': ({'kind': 'discrete', 'n': d['n']} if d['kind'] == 'discrete'
                                      else {'kind': 'cont', 'lo': 0, 'hi': GRID})} for d in P.dv_nodes()]
    m = ctx.driver.ask('design_space', g=gen_model_graph(spec), conn=conn, dvs=dvs, max=3000)
    if m['n_formula'] != n_model or (m['n_valid'] is not None and m['n_valid'] != n_model):
        dis('lean-design-space', {}, {'n_formula': m['n_formula'], 'n_valid': m['n_valid'], 'harness': n_model})
        return
    if m['designs'] is not None and model_keys is not None:
        live = [i for i, c_ in enumerate(P.conn) if c_[1] is not None]
        keys = set()
        for d in m['designs']:
            mats = [None] * len(P.conn)
            for i, M in zip(live, d['mats']):
                mats[i] = tuple(v for r in M for v in r)
            dv = tuple(None if v is None else (v if dd['kind'] == 'discrete' else 'c') for dd, v in zip(P.dv_nodes(), d['dvals']))
            keys.add((tuple(d['row']), tuple(mats), dv))
        if keys != {norm_key(P, k) for k in model_keys}:
            dis('lean-design-space', {}, {'only_lean': [str(k) for k in sorted(keys - set(model_keys), key=str)[:3]],
                                          'only_harness': [str(k) for k in sorted(set(model_keys) - keys, key=str)[:3]]})
