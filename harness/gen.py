"""Generators of DSG specs and construction of the real adsg_core objects from them.

A spec is a JSON-serialisable dict:
  n, derives [[a,b]], sel [{o, opts}], start [..], incompat [[a,b]], cons [{ty, cs}],
  dvs [{node, kind: discrete|cont, n | lo, hi}], metrics [{name, node, dir, ref, decl}]
Node ids are 0..n-1; ids listed in dvs / metrics are built as DesignVariableNode / MetricNode, all others as NamedNode.
"""
import itertools
import math

from adsg_core.graph.adsg_basic import BasicDSG
from adsg_core.graph.adsg_nodes import (NamedNode, DesignVariableNode, MetricNode, MetricType, SelectionChoiceNode,
                                        ConnectorNode, ConnectorDegreeGroupingNode)
from adsg_core.graph.choice_constraints import ChoiceConstraintType

CONS_TYPES = {
    'linked': ChoiceConstraintType.LINKED,
    'permutation': ChoiceConstraintType.PERMUTATION,
    'unordered': ChoiceConstraintType.UNORDERED,
    'unordered_norepl': ChoiceConstraintType.UNORDERED_NOREPL,
}
MTYPES = {None: None, 'none': MetricType.NONE, 'objective': MetricType.OBJECTIVE, 'constraint': MetricType.CONSTRAINT,
          'obj_or_con': MetricType.OBJ_OR_CON}


def model_graph(spec):
    """The part of the spec the Lean model's DSG consumes."""
    derives = list(spec['derives'])
    for grp in spec.get('groups', []):   # member -> grouping node DERIVES edges are added by add_connection_choice
        derives += [[m, grp['node']] for m in grp['members']]
    return {'n': spec['n'], 'derives': derives, 'sel': spec['sel'], 'start': spec['start'],
            'incompat': spec.get('incompat', []), 'cons': spec.get('cons', [])}


def gen_tame(rng, n_lo=4, n_hi=10, nc_hi=3, incompat=True):
    """Options unshared and not start nodes; arbitrary derivation edges (cycles allowed)."""
    n = rng.randint(n_lo, n_hi)
    nc = rng.randint(1, nc_hi)
    start = rng.sample(range(n), rng.randint(1, 2))
    free = [i for i in range(n) if i not in start]
    rng.shuffle(free)
    choices = []
    for _ in range(nc):
        k = rng.randint(1, 3)
        if len(free) < k:
            break
        choices.append([None, [free.pop() for _ in range(k)]])
    sel = []
    for ch in choices:
        cands = [i for i in range(n) if i not in ch[1]]
        sel.append({'o': rng.choice(cands), 'opts': ch[1]})
    edges = set()
    for _ in range(rng.randint(0, n + 2)):
        a, b = rng.randrange(n), rng.randrange(n)
        if a != b:
            edges.add((a, b))
    inc = []
    if incompat:
        for _ in range(rng.choice([0, 0, 1, 2])):
            a, b = rng.sample(range(n), 2)
            inc.append([a, b])
    return prune({'n': n, 'derives': sorted([list(e) for e in edges]), 'sel': sel, 'start': sorted(start),
                  'incompat': inc, 'cons': []})


def gen_tree(rng, depth=3, incompat=True):
    """Hierarchical tame graph: options derive sub-origins; good for conditional activation."""
    n = [1]
    derives, sel = [], []

    def new():
        n[0] += 1
        return n[0] - 1

    def grow(node, d):
        for _ in range(rng.choice([0, 1, 1, 2]) if d > 0 else 0):
            kind = rng.random()
            if kind < .45 and len(sel) < 4:
                o = new()
                derives.append([node, o])
                opts = [new() for _ in range(rng.randint(1, 3))]
                sel.append({'o': o, 'opts': opts})
                for op in opts:
                    grow(op, d - 1)
            else:
                c = new()
                derives.append([node, c])
                grow(c, d - 1)
    grow(0, depth)
    # a few cross edges
    for _ in range(rng.choice([0, 0, 1, 2])):
        a, b = rng.randrange(n[0]), rng.randrange(n[0])
        opt_nodes = {o for c in sel for o in c['opts']}
        if a != b and b != 0 and b not in opt_nodes:
            derives.append([a, b])
    inc = []
    if incompat and n[0] >= 3:
        for _ in range(rng.choice([0, 0, 1, 2])):
            a, b = rng.sample(range(n[0]), 2)
            inc.append([a, b])
    return prune({'n': n[0], 'derives': derives, 'sel': sel, 'start': [0], 'incompat': inc, 'cons': []})


def gen_shared(rng):
    """Option nodes shared between choices, several choices per node, options that are start nodes/origins."""
    n = rng.randint(3, 8)
    nc = rng.randint(1, 3)
    edges = set()
    for _ in range(rng.randint(0, n + 1)):
        a, b = rng.randrange(n), rng.randrange(n)
        if a != b:
            edges.add((a, b))
    sel = []
    for _ in range(nc):
        origin = rng.randrange(n)
        k = rng.randint(1, 3)
        opts = rng.sample([i for i in range(n) if i != origin], min(k, n - 1))
        sel.append({'o': origin, 'opts': opts})
    start = rng.sample(range(n), rng.randint(1, 2))
    inc = []
    for _ in range(rng.choice([0, 0, 1, 2])):
        a, b = rng.sample(range(n), 2)
        inc.append([a, b])
    return prune({'n': n, 'derives': sorted([list(e) for e in edges]), 'sel': sel, 'start': sorted(start),
                  'incompat': inc, 'cons': []})


def prune(spec):
    """Remove nodes not potentially reachable from the start nodes (through all options)."""
    succ = {i: [] for i in range(spec['n'])}
    for a, b in spec['derives']:
        succ[a].append(b)
    for c in spec['sel']:
        succ[c['o']] += c['opts']
    X = set(spec['start'])
    work = list(spec['start'])
    while work:
        u = work.pop()
        for v in succ[u]:
            if v not in X:
                X.add(v)
                work.append(v)
    keep = sorted(X)
    m = {k: i for i, k in enumerate(keep)}
    out = dict(spec)
    out['n'] = len(keep)
    out['derives'] = [[m[a], m[b]] for a, b in spec['derives'] if a in m and b in m]
    old_idx = [i for i, c in enumerate(spec['sel']) if c['o'] in m]
    cm = {o: i for i, o in enumerate(old_idx)}
    out['sel'] = [{'o': m[spec['sel'][i]['o']], 'opts': [m[k] for k in spec['sel'][i]['opts']]} for i in old_idx]
    out['start'] = [m[s] for s in spec['start']]
    out['incompat'] = [[m[a], m[b]] for a, b in spec.get('incompat', []) if a in m and b in m]
    out['cons'] = [{'ty': k['ty'], 'cs': [cm[c] for c in k['cs']]} for k in spec.get('cons', [])
                   if all(c in cm for c in k['cs'])]
    for key in ('dvs', 'metrics'):
        if key in spec:
            out[key] = [dict(d, node=m[d['node']]) for d in spec[key] if d['node'] in m]
    return out


class Built:
    def __init__(self, spec, dsg, nodes, choice_nodes):
        self.spec = spec
        self.dsg = dsg
        self.nodes = nodes
        self.cn = choice_nodes
        self.idx = {nd: i for i, nd in enumerate(nodes)}
        self.cidx = {c: i for i, c in enumerate(choice_nodes)}

    def node_ids(self, g):
        return sorted(self.idx[n] for n in g.graph.nodes if n in self.idx)

    def choice_ids(self, g):
        return sorted(self.cidx[n] for n in g.graph.nodes if n in self.cidx)


def make_node(spec, i):
    for d in spec.get('dvs', []):
        if d['node'] == i:
            if d['kind'] == 'discrete':
                return DesignVariableNode('N%03d' % i, options=list(range(d['n'])))
            return DesignVariableNode('N%03d' % i, bounds=(d['lo'], d['hi']))
    for mt in spec.get('metrics', []):
        if mt['node'] == i:
            return MetricNode('M%03d' % mt['name'], direction=mt['dir'], ref=mt['ref'], type_=MTYPES[mt['decl']])
    for c in spec.get('connectors', []):
        if c['node'] == i:
            if c['kind'] == 'list':
                return ConnectorNode('N%03d' % i, deg_list=list(c['v']), repeated_allowed=c['rep'])
            return ConnectorNode('N%03d' % i, deg_min=c['v'], deg_max=math.inf, repeated_allowed=c['rep'])
    for grp in spec.get('groups', []):
        if grp['node'] == i:
            return ConnectorDegreeGroupingNode('N%03d' % i)
    return NamedNode('N%03d' % i)


def build(spec, initialize=True):
    nodes = [make_node(spec, i) for i in range(spec['n'])]
    g = BasicDSG()
    for nd in nodes:
        g.add_node(nd)
    # order of construction: derivation edges first (default) or selection choices first - the order in which edges
    # enter the multigraph is the order in which the library's traversals see them
    if not spec.get('choices_first'):
        g.add_edges([(nodes[a], nodes[b]) for a, b in spec['derives']])
    cn = []
    for ci, c in enumerate(spec['sel']):
        cn.append(g.add_selection_choice('C%02d' % ci, nodes[c['o']], [nodes[k] for k in c['opts']]))
    if spec.get('choices_first'):
        g.add_edges([(nodes[a], nodes[b]) for a, b in spec['derives']])
    for a, b in spec.get('incompat', []):
        g.add_incompatibility_constraint([nodes[a], nodes[b]])
    conn_nodes = []
    groups = {grp['node']: grp['members'] for grp in spec.get('groups', [])}
    for ki, k in enumerate(spec.get('conn', [])):
        def entry(i):
            return (nodes[i], [nodes[m] for m in groups[i]]) if i in groups else nodes[i]
        conn_nodes.append(g.add_connection_choice('K%02d' % ki, [entry(i) for i in k['src']], [entry(i) for i in k['tgt']],
                                                  exclude=[(nodes[a], nodes[b]) for a, b in k.get('excl', [])]))
    cons = spec.get('cons', [])
    dv_links = spec.get('dv_links', [])
    if cons or dv_links:
        g = g.set_start_nodes({nodes[s] for s in spec['start']}, initialize_choices=False)
        for k in cons:
            g = g.constrain_choices(CONS_TYPES[k['ty']], [cn[i] for i in k['cs']])
        for grp in dv_links:
            g = g.constrain_choices(ChoiceConstraintType.LINKED, [nodes[i] for i in grp])
        if initialize:
            g = g.initialize_choices()
    else:
        g = g.set_start_nodes({nodes[s] for s in spec['start']}, initialize_choices=initialize)
    b = Built(spec, g, nodes, cn)
    b.conn_nodes = conn_nodes
    return b


def all_assignments(spec):
    return itertools.product(*[range(len(c['opts'])) if c['opts'] else [None] for c in spec['sel']])


DV_BOUNDS = [(0., 1.), (-2.5, 3.5), (0.1, 0.3), (1e-3, 1e3), (-7., -1.), (2., 2.5)]


def attach_dvs(rng, spec, k_lo=1, k_hi=3, link_p=0.0):
    """Hang DV nodes (new node ids) under random existing nodes."""
    spec = dict(spec)
    spec['derives'] = [list(e) for e in spec['derives']]
    dvs = []
    n = spec['n']
    for _ in range(rng.randint(k_lo, k_hi)):
        parent = rng.randrange(spec['n'])
        node = n
        n += 1
        spec['derives'].append([parent, node])
        if rng.random() < .5:
            dvs.append({'node': node, 'kind': 'discrete', 'n': rng.randint(1, 4)})
        else:
            lo, hi = rng.choice(DV_BOUNDS)
            dvs.append({'node': node, 'kind': 'cont', 'lo': lo, 'hi': hi})
    spec['n'] = n
    spec['dvs'] = dvs
    links = []
    if link_p and rng.random() < link_p:
        for kind in ('discrete', 'cont'):
            same = [d for d in dvs if d['kind'] == kind]
            if len(same) >= 2:
                if kind == 'discrete':
                    nmin = same[0]['n']
                    same = [d for d in same if d['n'] == nmin]
                if len(same) >= 2:
                    links.append([d['node'] for d in same[:2]])
                    break
    spec['dv_links'] = links
    return spec


def attach_metrics(rng, spec, k_lo=1, k_hi=4):
    spec = dict(spec)
    spec['derives'] = [list(e) for e in spec['derives']]
    ms = []
    n = spec['n']
    for name in range(rng.randint(k_lo, k_hi)):
        parent = rng.randrange(spec['n'])
        node = n
        n += 1
        spec['derives'].append([parent, node])
        ms.append({'name': name, 'node': node, 'dir': rng.choice([None, -1, 1]),
                   'ref': rng.choice([None, None, 0., 2.5]),
                   'decl': rng.choice([None, None, 'none', 'objective', 'constraint', 'obj_or_con'])})
    rng.shuffle(ms)
    spec['n'] = n
    spec['metrics'] = ms
    return spec


CONN_ALPHA = [('list', [0, 1]), ('list', [1]), ('list', [0, 1, 2]), ('list', [1, 2]), ('list', [2]), ('list', [0, 2]),
              ('min', 0), ('min', 1), ('min', 2)]


def gen_conn(rng, p_group=.35, p_excl=.12, two_choices=.3, second_conn=0.):
    """Root with one (or two nested) selection choices; 1-3 source and 1-3 target connectors, each permanent (under the
    root) or tied to an option; optionally a grouping node over 2-3 source (or target) connectors; exclusion edges.
    With probability `second_conn` a second, independent connection choice (1-2 sources, 1-2 targets of its own)."""
    nopt = rng.randint(2, 3)
    n = 1 + nopt
    derives = []
    sel = [{'o': 0, 'opts': list(range(1, 1 + nopt))}]
    attach = [0] + list(range(1, 1 + nopt))
    if rng.random() < two_choices:
        o2 = n
        n += 1
        derives.append([rng.choice(attach), o2])
        k2 = rng.randint(2, 3)
        sel.append({'o': o2, 'opts': list(range(n, n + k2))})
        attach += list(range(n, n + k2))
        n += k2
    ns, nt = rng.randint(1, 3), rng.randint(1, 3)
    connectors = []

    def new_conn():
        nonlocal n
        kind, v = rng.choice(CONN_ALPHA)
        node = n
        n += 1
        parent = 0 if rng.random() < .45 else rng.choice(attach)
        derives.append([parent, node])
        connectors.append({'node': node, 'kind': kind, 'v': v, 'rep': rng.random() < .5})
        return node
    src = [new_conn() for _ in range(ns)]
    tgt = [new_conn() for _ in range(nt)]
    groups = []
    src_entries, tgt_entries = list(src), list(tgt)
    if ns >= 2 and rng.random() < p_group:
        members = sorted(rng.sample(src, rng.randint(2, min(3, ns))))
        gnode = n
        n += 1
        groups.append({'node': gnode, 'members': members})
        src_entries = [gnode] + [s_ for s_ in src if s_ not in members]
    elif nt >= 2 and rng.random() < p_group * .5:
        members = sorted(rng.sample(tgt, 2))
        gnode = n
        n += 1
        groups.append({'node': gnode, 'members': members})
        tgt_entries = [gnode] + [t_ for t_ in tgt if t_ not in members]
    excl = [[a, b] for a in src_entries for b in tgt_entries if rng.random() < p_excl]
    conn = [{'src': src_entries, 'tgt': tgt_entries, 'excl': excl}]
    if rng.random() < second_conn:
        src2 = [new_conn() for _ in range(rng.randint(1, 2))]
        tgt2 = [new_conn() for _ in range(rng.randint(1, 2))]
        conn.append({'src': src2, 'tgt': tgt2, 'excl': [[a, b] for a in src2 for b in tgt2 if rng.random() < p_excl]})
    return {'n': n, 'derives': derives, 'sel': sel, 'start': [0], 'incompat': [], 'cons': [], 'connectors': connectors,
            'groups': groups, 'conn': conn}
