"""Generators of DSG specs and construction of the real adsg_core objects from them.

A spec is a JSON-serialisable dict:
  n, derives [[a,b]], sel [{o, opts}], start [..], incompat [[a,b]], cons [{ty, cs}],
  dvs [{node, kind: discrete|cont, n | lo, hi}], metrics [{name, node, dir, ref, decl}]
Node ids are 0..n-1; ids listed in dvs / metrics are built as DesignVariableNode / MetricNode, all others as NamedNode.
"""
import itertools
import math

from adsg_core.graph.adsg_basic import BasicDSG
from adsg_core.graph.adsg_nodes import (NamedNode, DesignVariableNode, MetricNode, MetricType, SelectionChoiceNode)
from adsg_core.graph.choice_constraints import ChoiceConstraintType

CONS_TYPES = {
    'linked': ChoiceConstraintType.LINKED,
    'permutation': ChoiceConstraintType.PERMUTATION,
    'unordered': ChoiceConstraintType.UNORDERED,
    'unordered_norepl': ChoiceConstraintType.UNORDERED_NOREPL,
}
MTYPES = {None: None, 'none': MetricType.NONE, 'objective': MetricType.OBJECTIVE, 'constraint': MetricType.CONSTRAINT,
          'obj_or_con': MetricType.OBJ_OR_CON}


def model_graph(spec):
    """The part of the spec the Lean model's DSG consumes."""
    return {'n': spec['n'], 'derives': spec['derives'], 'sel': spec['sel'], 'start': spec['start'],
            'incompat': spec.get('incompat', []), 'cons': spec.get('cons', [])}


def gen_tame(rng, n_lo=4, n_hi=10, nc_hi=3, incompat=True):
    """Options unshared and not start nodes; arbitrary derivation edges (cycles allowed)."""
    n = rng.randint(n_lo, n_hi)
    nc = rng.randint(1, nc_hi)
    start = rng.sample(range(n), rng.randint(1, 2))
    free = [i for i in range(n) if i not in start]
    rng.shuffle(free)
    choices = []
    for _ in range(nc):
        k = rng.randint(1, 3)
        if len(free) < k:
            break
        choices.append([None, [free.pop() for _ in range(k)]])
    sel = []
    for ch in choices:
        cands = [i for i in range(n) if i not in ch[1]]
        sel.append({'o': rng.choice(cands), 'opts': ch[1]})
    edges = set()
    for _ in range(rng.randint(0, n + 2)):
        a, b = rng.randrange(n), rng.randrange(n)
        if a != b:
            edges.add((a, b))
    inc = []
    if incompat:
        for _ in range(rng.choice([0, 0, 1, 2])):
            a, b = rng.sample(range(n), 2)
            inc.append([a, b])
    return prune({'n': n, 'derives': sorted([list(e) for e in edges]), 'sel': sel, 'start': sorted(start),
                  'incompat': inc, 'cons': []})


def gen_tree(rng, depth=3, incompat=True):
    """Hierarchical tame graph: options derive sub-origins; good for conditional activation."""
    n = [1]
    derives, sel = [], []

    def new():
        n[0] += 1
        return n[0] - 1

    def grow(node, d):
        for _ in range(rng.choice([0, 1, 1, 2]) if d > 0 else 0):
            kind = rng.random()
            if kind < .45 and len(sel) < 4:
                o = new()
                derives.append([node, o])
                opts = [new() for _ in range(rng.randint(1, 3))]
                sel.append({'o': o, 'opts': opts})
                for op in opts:
                    grow(op, d - 1)
            else:
                c = new()
                derives.append([node, c])
                grow(c, d - 1)
    grow(0, depth)
    # a few cross edges
    for _ in range(rng.choice([0, 0, 1, 2])):
        a, b = rng.randrange(n[0]), rng.randrange(n[0])
        opt_nodes = {o for c in sel for o in c['opts']}
        if a != b and b != 0 and b not in opt_nodes:
            derives.append([a, b])
    inc = []
    if incompat and n[0] >= 3:
        for _ in range(rng.choice([0, 0, 1, 2])):
            a, b = rng.sample(range(n[0]), 2)
            inc.append([a, b])
    return prune({'n': n[0], 'derives': derives, 'sel': sel, 'start': [0], 'incompat': inc, 'cons': []})


def gen_shared(rng):
    """Option nodes shared between choices, several choices per node, options that are start nodes/origins."""
    n = rng.randint(3, 8)
    nc = rng.randint(1, 3)
    edges = set()
    for _ in range(rng.randint(0, n + 1)):
        a, b = rng.randrange(n), rng.randrange(n)
        if a != b:
            edges.add((a, b))
    sel = []
    for _ in range(nc):
        origin = rng.randrange(n)
        k = rng.randint(1, 3)
        opts = rng.sample([i for i in range(n) if i != origin], min(k, n - 1))
        sel.append({'o': origin, 'opts': opts})
    start = rng.sample(range(n), rng.randint(1, 2))
    inc = []
    for _ in range(rng.choice([0, 0, 1, 2])):
        a, b = rng.sample(range(n), 2)
        inc.append([a, b])
    return prune({'n': n, 'derives': sorted([list(e) for e in edges]), 'sel': sel, 'start': sorted(start),
                  'incompat': inc, 'cons': []})


def prune(spec):
    """Remove nodes not potentially reachable from the start nodes (through all options)."""
    succ = {i: [] for i in range(spec['n'])}
    for a, b in spec['derives']:
        succ[a].append(b)
    for c in spec['sel']:
        succ[c['o']] += c['opts']
    X = set(spec['start'])
    work = list(spec['start'])
    while work:
        u = work.pop()
        for v in succ[u]:
            if v not in X:
                X.add(v)
                work.append(v)
    keep = sorted(X)
    m = {k: i for i, k in enumerate(keep)}
    out = dict(spec)
    out['n'] = len(keep)
    out['derives'] = [[m[a], m[b]] for a, b in spec['derives'] if a in m and b in m]
    old_idx = [i for i, c in enumerate(spec['sel']) if c['o'] in m]
    cm = {o: i for i, o in enumerate(old_idx)}
    out['sel'] = [{'o': m[spec['sel'][i]['o']], 'opts': [m[k] for k in spec['sel'][i]['opts']]} for i in old_idx]
    out['start'] = [m[s] for s in spec['start']]
    out['incompat'] = [[m[a], m[b]] for a, b in spec.get('incompat', []) if a in m and b in m]
    out['cons'] = [{'ty': k['ty'], 'cs': [cm[c] for c in k['cs']]} for k in spec.get('cons', [])
                   if all(c in cm for c in k['cs'])]
    for key in ('dvs', 'metrics'):
        if key in spec:
            out[key] = [dict(d, node=m[d['node']]) for d in spec[key] if d['node'] in m]
    return out


class Built:
    def __init__(self, spec, dsg, nodes, choice_nodes):
        self.spec = spec
        self.dsg = dsg
        self.nodes = nodes
        self.cn = choice_nodes
        self.idx = {nd: i for i, nd in enumerate(nodes)}
        self.cidx = {c: i for i, c in enumerate(choice_nodes)}

    def node_ids(self, g):
        return sorted(self.idx[n] for n in g.graph.nodes if n in self.idx)

    def choice_ids(self, g):
        return sorted(self.cidx[n] for n in g.graph.nodes if n in self.cidx)


def make_node(spec, i):
    for d in spec.get('dvs', []):
        if d['node'] == i:
            if d['kind'] == 'discrete':
                return DesignVariableNode('N%03d' % i, options=list(range(d['n'])))
            return DesignVariableNode('N%03d' % i, bounds=(d['lo'], d['hi']))
    for mt in spec.get('metrics', []):
        if mt['node'] == i:
            return MetricNode('M%03d' % mt['name'], direction=mt['dir'], ref=mt['ref'], type_=MTYPES[mt['decl']])
    return NamedNode('N%03d' % i)


def build(spec, initialize=True):
    nodes = [make_node(spec, i) for i in range(spec['n'])]
    g = BasicDSG()
    for nd in nodes:
        g.add_node(nd)
    g.add_edges([(nodes[a], nodes[b]) for a, b in spec['derives']])
    cn = []
    for ci, c in enumerate(spec['sel']):
        cn.append(g.add_selection_choice('C%02d' % ci, nodes[c['o']], [nodes[k] for k in c['opts']]))
    for a, b in spec.get('incompat', []):
        g.add_incompatibility_constraint([nodes[a], nodes[b]])
    cons = spec.get('cons', [])
    dv_links = spec.get('dv_links', [])
    if cons or dv_links:
        g = g.set_start_nodes({nodes[s] for s in spec['start']}, initialize_choices=False)
        for k in cons:
            g = g.constrain_choices(CONS_TYPES[k['ty']], [cn[i] for i in k['cs']])
        for grp in dv_links:
            g = g.constrain_choices(ChoiceConstraintType.LINKED, [nodes[i] for i in grp])
        if initialize:
            g = g.initialize_choices()
    else:
        g = g.set_start_nodes({nodes[s] for s in spec['start']}, initialize_choices=initialize)
    return Built(spec, g, nodes, cn)


def all_assignments(spec):
    return itertools.product(*[range(len(c['opts'])) if c['opts'] else [None] for c in spec['sel']])


DV_BOUNDS = [(0., 1.), (-2.5, 3.5), (0.1, 0.3), (1e-3, 1e3), (-7., -1.), (2., 2.5)]


def attach_dvs(rng, spec, k_lo=1, k_hi=3, link_p=0.0):
    """Hang DV nodes (new node ids) under random existing nodes."""
    spec = dict(spec)
    spec['derives'] = [list(e) for e in spec['derives']]
    dvs = []
    n = spec['n']
    for _ in range(rng.randint(k_lo, k_hi)):
        parent = rng.randrange(spec['n'])
        node = n
        n += 1
        spec['derives'].append([parent, node])
        if rng.random() < .5:
            dvs.append({'node': node, 'kind': 'discrete', 'n': rng.randint(1, 4)})
        else:
            lo, hi = rng.choice(DV_BOUNDS)
            dvs.append({'node': node, 'kind': 'cont', 'lo': lo, 'hi': hi})
    spec['n'] = n
    spec['dvs'] = dvs
    links = []
    if link_p and rng.random() < link_p:
        for kind in ('discrete', 'cont'):
            same = [d for d in dvs if d['kind'] == kind]
            if len(same) >= 2:
                if kind == 'discrete':
                    nmin = same[0]['n']
                    same = [d for d in same if d['n'] == nmin]
                if len(same) >= 2:
                    links.append([d['node'] for d in same[:2]])
                    break
    spec['dv_links'] = links
    return spec


def attach_metrics(rng, spec, k_lo=1, k_hi=4):
    spec = dict(spec)
    spec['derives'] = [list(e) for e in spec['derives']]
    ms = []
    n = spec['n']
    for name in range(rng.randint(k_lo, k_hi)):
        parent = rng.randrange(spec['n'])
        node = n
        n += 1
        spec['derives'].append([parent, node])
        ms.append({'name': name, 'node': node, 'dir': rng.choice([None, -1, 1]),
                   'ref': rng.choice([None, None, 0., 2.5]),
                   'decl': rng.choice([None, None, 'none', 'objective', 'constraint', 'obj_or_con'])})
    rng.shuffle(ms)
    spec['n'] = n
    spec['metrics'] = ms
    return spec
